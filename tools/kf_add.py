import json,sys
p='/verif/known_findings.json'
d=json.load(open(p))
d['findings'].append(json.loads(sys.argv[1]))
json.dump(d,open(p,'w'),indent=1,ensure_ascii=False)
