#!/bin/bash
# Dev tool: runs the repository's own script suite (tests/run_tests.php) with /repo's working tree and
# compares the output (timestamps stripped) with the output of the pinned tree (tools/script_suite_baseline.txt).
export GOFLAGS=-mod=mod GOPROXY=off
cd /repo && go build -o /tmp/zy_regress . && timeout -s KILL 600 /tmp/zy_regress tests/run_tests.php 2>&1 | sed 's/2026-[0-9-]* [0-9:]*//' > /tmp/zy_regress.txt
diff /verif/tools/script_suite_baseline.txt /tmp/zy_regress.txt | head -${1:-20}; echo "diff lines: $(diff /verif/tools/script_suite_baseline.txt /tmp/zy_regress.txt | wc -l)"
rm -f /tmp/zy_regress
