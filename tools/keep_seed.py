#!/usr/bin/env python3
"""keep_seed.py <outdir> <seed-id> <property> <needs> <detected: yes|no> <detail>  -- stores a confirmed seeded change under /verif/seeded/<seed-id>/"""
import sys, os, shutil, json
out, sid, prop, needs, det, detail = sys.argv[1:7]
d = '/verif/seeded/' + sid
os.makedirs(d, exist_ok=True)
for f in ('patch.diff', 'demo_test.go', 'notes.md'):
    if os.path.exists(os.path.join(out, f)):
        shutil.copy(os.path.join(out, f), os.path.join(d, f))
for f in os.listdir(out):
    if f.startswith('demo') and not os.path.exists(os.path.join(d, f)):
        shutil.copy(os.path.join(out, f), os.path.join(d, f))
json.dump({"property": prop, "needs_to_manifest": needs,
           "confirmed": "tools/confirm_seed.sh in a scratch worktree: patch applies, builds (with and without -tags verif), existing suite unchanged, demo passes on the unchanged tree and fails with the change",
           "check_run": "tools/try_patch.sh %s/patch.diff %s quick" % (d, prop),
           "detected_by_check": det == 'yes', "detection_detail": detail}, open(os.path.join(d, 'meta.json'), 'w'), indent=1)
print("kept", d)
