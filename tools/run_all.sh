#!/bin/bash
# Dev tool: run every registered check (default tier quick) and summarise.
TIER="${1:-quick}"
cd /verif
for id in $(python3 -c "import json; print(' '.join(c['property_id'] for c in json.load(open('MANIFEST.json'))['checks']))"); do
  s=$(date +%s); out=$(./check.sh $id $TIER 2>&1); rc=$?; e=$(( $(date +%s) - s ))
  echo "$id rc=$rc ${e}s $(echo "$out" | grep -c '^KNOWN-FINDING') known  $(echo "$out" | grep -E '^VIOLATION|^INFRA' | head -2 | cut -c1-150)"
done
