#!/bin/bash
# usage: confirm_seed.sh <WT> <OUTDIR> <pkgdir> <RunPattern> [extra go test flags]
# Confirms in scratch worktree WT: patch applies, builds, existing suite result unchanged, demo fails with / passes without.
set -u
WT="$1"; OUT="$2"; PKG="$3"; PAT="$4"; shift 4
export GOFLAGS=-mod=mod GOPROXY=off
cd "$WT" || exit 2
git checkout -q -- . && git clean -fdq
suite() { go test -vet=off -count=1 ./... 2>&1 | grep -E "^(ok|FAIL|---)" | sed -E "s/[0-9.]+s( \[no tests to run\])?$//" | sort; }
suite > /tmp/suite_base.txt
cp "$OUT/demo_test.go" "$PKG/zz_seeded_demo_test.go"
echo "--- demo on unchanged tree (must pass)"; timeout -s KILL 600 go test -vet=off -count=1 -run "$PAT" "$@" "./$PKG/" 2>&1 | tail -3
rm -f "$PKG/zz_seeded_demo_test.go"
git apply "$OUT/patch.diff" || { echo "PATCH DOES NOT APPLY"; exit 1; }
go build ./... && go build -tags verif ./... && echo "builds: yes"
suite > /tmp/suite_mut.txt
diff /tmp/suite_base.txt /tmp/suite_mut.txt > /dev/null && echo "suite: unchanged" || { echo "suite: CHANGED"; diff /tmp/suite_base.txt /tmp/suite_mut.txt | head; }
cp "$OUT/demo_test.go" "$PKG/zz_seeded_demo_test.go"
echo "--- demo with change (must fail)"; timeout -s KILL 600 go test -vet=off -count=1 -run "$PAT" "$@" "./$PKG/" 2>&1 | tail -4
git checkout -q -- . && git clean -fdq
