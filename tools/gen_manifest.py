#!/usr/bin/env python3
"""Regenerates /verif/MANIFEST.json from the table below (one entry per claimed property)."""
import json, os, sys
HERE = os.path.dirname(os.path.dirname(os.path.abspath(__file__)))
ALL = ["C%02d" % i for i in range(1, 21)]
CHECKS = {
 "C13": dict(cat="model_checking", ref="§5 C13",
   text="TLC model-checks spec/Response.tla (commit-once reference layer + the status/statusSet/headerSent mechanism layer, Impl refines Ref) and spec/Middleware.tla; every maximal behaviour of the reference state graph (all operation sequences up to the bound over 16 concrete operations) is replayed through the real Server/Response objects with the wire projection compared after every step; seeded longer behaviours come from TLC -simulate.",
   note="Trusted: TLC + Json module, httptest.ResponseRecorder with a commit counter as the underlying connection, the 15-operation alphabet.",
   tech="TLA+ spec (Response.tla, Middleware.tla) checked by TLC; spec behaviours replayed into the real HTTP writer"),
 "C12": dict(cat="model_checking", ref="§5 C12",
   text="TLC model-checks spec/TempVM.tla (Isolation, LifecycleIsLocal, FreshIsBase as action properties, BaseVisibleEverywhere) and prints its state graph; every path up to the bound (1 base + 2 temporary VMs, deliberate name collisions) is replayed on real VM/TempVM objects — definitions made through a parser bound to the VM as requests do — with the resolve table of every live VM compared after every step through the Go API and through scripts (class_exists/new/call), with temporary VMs created both by NewTempVM and as the request VMs of parked HotHandler requests; long walks (40 steps, 4 temps, 8 names) come from TLC -simulate with a history variable.",
   note="Trusted: TLC + Json module; resolvability (not which colliding definition wins) is the compared observable.",
   tech="TLA+ spec (TempVM.tla) checked by TLC; state-graph paths and simulated walks replayed on real VMs"),
 "C09": dict(cat="model_checking", ref="§5 C09",
   text="TLC model-checks spec/Channel.tla, the mechanism of Send/Receive/Close at the granularity of the code's yield points (locks, done channel, Go channel wait queues) for NoCrash, Conservation, AtMostOnce, PerSenderFIFO, LateSendFails; a controlled scheduler parks real goroutines at the verif hooks and walks the model's state graph, following whichever outcome the real code produces (online conformance); every recorded call/return history (forced walks + free-running -race stress with GOMAXPROCS 1..16) is validated by TLC against ChannelRef (spec/ChannelLin.tla: linearizable FIFO queue with close). The pinned design (Design=none) is kept as a named deviation that TLC refutes.",
   note="Trusted: goroutine ids from runtime.Stack, FIFO wait queues of Go channels, the race detector as observation instrument. A disagreement about blocking without a property-level symptom is exit 2, never a violation.",
   tech="TLA+ mechanism spec (Channel.tla) checked by TLC + controlled-scheduler conformance walk; recorded histories trace-validated against ChannelLin.tla"),
 "C10": dict(cat="model_checking", ref="§5 C10",
   text="TLC model-checks spec/RegistryLocks.tla (the RWMutex discipline around the registry maps: pinned lock modes are refuted, repaired ones satisfy NoConcurrentMapWrite/NoAccessDuringWrite for 3 goroutines); the real VM is then stressed per lock class under the race detector (fresh names keep writers writing), and call/return histories recorded from 4..16 goroutines are split per name and validated by TLC against spec/RegistryLin.tla, the atomic reference (duplicate rejected for all but one registrant, success visible to all later lookups, first-writer-wins constants, identity-stable globals).",
   note="Trusted: Go race detector / concurrent-map check as observation instruments; recorder orders call/return events under one mutex (pass 2 only).",
   tech="TLA+ lock-discipline spec checked by TLC; recorded concurrent histories trace-validated (linearizability) against RegistryLin.tla; -race stress"),
 "C11": dict(cat="model_checking", ref="§5 C11",
   text="TLC model-checks spec/Superglobals.tla: the per-request cache design satisfies OwnDataOnly, the pinned process-wide cache (named deviation) is refuted. The state graph (2 requests x 2 superglobal reads, all 625 read programs, every interleaving) is forced through Go gates registered into the VM on a real Server/ServeMux; each read is compared with the reference (own data) and, if wrong, with the deviation layer's prediction for that very interleaving (equal => the listed known finding, different => VIOLATION). Responses of 500..5000 parallel requests (2..64 in flight) against handlers using locals, loops, arrays, objects, closures, recursion and the request object are compared with the same requests run alone.",
   note="Trusted: gates/whoami are harness functions registered in the VM (request = goroutine). The superglobal cache defect is a recorded known finding, matched per interleaving by the deviation layer; the parallel part does not run under -race because the known defect itself is a data race on package variables.",
   tech="TLA+ spec (Superglobals.tla, reference + deviation layer) checked by TLC; all interleavings of its graph forced on a real HTTP server through gates; parallel-vs-alone replay"),
 "C19": dict(cat="model_checking", ref="§5 C19",
   text="TLC model-checks spec/Generic.tla (Independence and WritesDoNotRetype as action properties, ExactlyOwnType) and prints its state graph; every sequence of up to 3 (quick) / 4 (thorough) instantiations and typed member writes over Box<T> and Pair<K,V> x {int,string,array,class} is replayed as a script and each write's acceptance compared with the reference verdict; wrong verdicts are classified by the deviation layer (first-instantiation-wins: fixed; params-unchecked: fixed); seeded sequences up to length 6 from TLC -simulate.",
   note="Trusted: acceptance is observed as completion vs. catchable Throwable; fixture classes as listed in the evidence assumptions.",
   tech="TLA+ spec (Generic.tla, reference + deviation layer) checked by TLC; state-graph paths replayed as scripts"),
 "C08": dict(cat="model_checking", ref="§5 C08",
   text="TLC enumerates every hierarchy within the bound as an initial state of spec/Hierarchy.tla (classes with single inheritance, interfaces with multiple extends, arbitrary implements edges; definer sets; method provisions) and checks the reference relation (preorder, interfaces inherited and closed upward), that the transcribed mechanism of data/type_class.go computes the same relation, and the dispatch/parent/like operators; each hierarchy is replayed as a script printing the instanceof / typed-parameter / catch tables, who()/self::/static::/self::class/static::class/parent::/chained parent:: results and the like verdicts.",
   note="Trusted: fixture shapes listed in the evidence assumptions; quick samples large families, thorough enumerates them completely (3 classes + 3 interfaces, 4 classes + 2 interfaces, 5-class dispatch chains).",
   tech="TLA+ spec (Hierarchy.tla: reference relation + transcribed mechanism) checked by TLC over all bounded hierarchies; each replayed as a script"),
 "C15": dict(cat="model_checking", ref="§5 C15",
   text="TLC model-checks spec/ArrayMethods.tla (three universes: ints, strings, nested lists; the receiver is the state, every method an action; NonMutatingLeaveReceiver, SpliceConservation, IndexOfIncludes, SliceIdentity, PushPopInverse) and spec/StringMethods.tla (byte-offset dialect pinned by the repository's own script tests; ReceiverUntouched, PrefixLaw, SplitJoinLaw, SubstringWhole); every edge (receiver x method x argument tuple incl. omitted optionals, negative / zero / beyond-length indexes, 0..2 variadic items, callbacks using element / index / array) is one real call with result and receiver-after compared; chains of 4 calls on one variable come from TLC -simulate.",
   note="Trusted: json_encode / bin2hex as observation; documented semantics read as JavaScript Array semantics for arrays; for strings only what docs/strings.md and the repository's script tests fix is generated (no swapped substring bounds, no empty pieces with the default separator).",
   tech="TLA+ specs (ArrayMethods.tla, StringMethods.tla) checked by TLC; every edge and simulated chain replayed as real method calls"),
 "C06": dict(cat="model_checking", ref="§5 C06",
   text="TLC model-checks spec/Heap.tla: on the reference layer (names bound to cells, value routes copy, sharing routes alias) NoLeak and the frame rule hold; on the mechanism layer of the pinned code (copies share slots and nested arrays: named deviation cells-shared-on-copy) NoLeak is refuted. Every path of the graph — 4 shapes x 12 routes (assign, by-value parameter, return, getter, property store/load, element store/load, clone; &, by-ref parameter, object handle as sharing controls) x 1..2 of 13 mutations on either side — is rendered as a script that snapshots both names before and after every mutation and run in subprocess workers.",
   note="Trusted: json_encode snapshots; a scenario whose mutation does not change the written name is counted as ineffective, not as a pass; closure capture excluded as in the property.",
   tech="TLA+ spec (Heap.tla: reference + mechanism layer) checked by TLC; every scenario path replayed as a snapshotting script"),
 "C02": dict(cat="model_checking", ref="§5 C02",
   text="spec/Lang.tla is a small-step abstract machine (CEK style: control, environment, continuation stack with seq/loop/switch/try/catch/finally/call frames, pending break/continue/return/throw, static storage) over JSON ASTs; TLC runs every generated program as one behaviour, checks the machine's own properties on every state (TargetExists, FrameIsolation, FinallyOnce, AllTriesLeft) and prints the echoed tokens; the same AST is unparsed to source and run on the real interpreter in subprocess workers; tokens and final status must agree. Programs: every nest of 2 (thorough 3) loops x {break n, continue n, return} x {if, switch case, try/finally}, switch fall-through / match, integer fast-path shapes, and 400 (thorough 5000) seeded typed programs with functions, defaults, recursion, statics and shadowing locals. Disagreements are re-run on the machine with the named deviations (break-level-ignored, switch-no-fallthrough, continue-in-switch-swallowed): predicted exactly => known finding, else VIOLATION.",
   note="Trusted: the Go unparser (fully parenthesised, one statement per line); values stay within +-10^6 (TLC integers are 32 bit); programs over the step budget are discarded and counted.",
   tech="TLA+ abstract machine (Lang.tla) executed by TLC as reference interpreter with invariants; generated programs replayed on the real interpreter"),
 "C05": dict(cat="model_checking", ref="§5 C05",
   text="The try/catch/finally part of spec/Lang.tla (frames try/catch/fin with the interrupted control saved; FinallyOnce and AllTriesLeft checked by TLC on every state of every program) decides catch selection, finally-exactly-once and finally-overrides: every depth-1 shape (8 body exits x 11 ordered catch lists over a 5-class hierarchy with an interface and unions x 4 catch-body exits x 5 finally exits x 3 contexts) is enumerated, depth-2 nestings are seeded, each program is run by TLC and by the real interpreter and the marker traces compared. spec/Process.tla (NonZeroOnFailure, FlushBeforeExit; deviation parse-error-exits-zero refuted) gives the process paths, each replayed as a real subprocess of the binary built from the working tree in both lexing modes.",
   note="Trusted: identity of the caught object is observed through its message (unique per throw site), not with ===; subprocess exit status and stderr as observed by os/exec.",
   tech="TLA+ abstract machine (Lang.tla) + Process.tla checked by TLC; enumerated try shapes and process paths replayed on the real interpreter / real subprocesses"),
 "C03": dict(cat="model_checking", ref="§5 C03",
   text="spec/Values.tla defines every operator as a total function on tagged values (ints, floats as exact dyadic rationals, strings, bools, null, plus an array and an object for the no-crash clause) with results value / error / inexact-float / unspecified, one Truthy operator for all eight boolean contexts, and the coherence laws; TLC checks that the oracle itself satisfies the laws (EqSym, NeCompl, StrictCompl, SpaceshipAgrees, DivAlwaysFloat) over the whole pool. Every (operator, a, b), every truthiness value and every law x pair is an initial state printed as a case; each case is one script run in a subprocess worker (a crash or hang of the interpreter is a violation of the no-crash clause).",
   note="Trusted: === against a literal of the expected value as the exactness test. Not decided: 64-bit boundary arithmetic and non-dyadic float results (TLC: 32-bit ints, no floats) -- only their kind is checked.",
   tech="TLA+ spec of operator semantics (Values.tla) with law invariants checked by TLC; every case replayed as a script"),
 "C04": dict(cat="model_checking", ref="§5 C04",
   text="spec/Expr.tla holds the operator table as data (24 binary operators on 13 levels with associativity, prefix ! - ~), MinPrint / FullPrint of expression trees and a precedence-climbing ParseByTable; TLC checks on every tree of the pairs, unary and triples families (1152 + 291 + 69120 trees) that parsing the minimal printing by the table gives the tree back (ParsePrintRoundTrip), i.e. that exactly the redundant parentheses were dropped. Every pair and unary tree and a sample (thorough: a third) of the triples is rendered in three styles (variables, spaced literals, literals glued to the preceding operator) with six operand tuples and both printings are evaluated by the real interpreter; they must agree. The other grouping of each pair is evaluated too, to count the operator pairs whose groupings are actually told apart by some tuple.",
   note="Trusted: the real interpreter's evaluation of fully parenthesised expressions as the value oracle (C04 is about grouping only). Ternary, assignment operators and casts are not in the tree model (stated limitation; the cast-precedence defect listed in DESIGN is not covered by this check).",
   tech="TLA+ spec of the operator table with print/parse round-trip checked by TLC; every tree replayed in minimal and full parenthesisation on the real interpreter"),
 "C07": dict(cat="model_checking", ref="§5 C07",
   text="spec/Access.tla has three aspects. vis: a member (property | method x public | protected | private x static or not) declared in D is read, written or called through a path (->, $this->, ->$name, [\"name\"], Cls::, self::, static::, parent::) from a site (declaring class, closure in it, subclass, grand-child, unrelated class, top level) on a D or an S object; Allowed(mod, site) is the reference. type: 8 declared types (int, string, array, class, interface, ?int, ?class, int|string) x 10 runtime value kinds x 10 boundaries (typed property, static property, parameter of function / method / static method / constructor / closure, return of function / method / closure); Accepts is exact. inst: 16 class shapes (abstract, interface, abstract method left open by parent / grandparent / interface / parent interface, ...). TLC enumerates every scenario as an initial state (465 + 800 + 16) with the reference verdict and the verdict of a named-deviation layer; each is rendered into a class fixture (names and an optional middle class vary with VERIF_SEED; thorough: 8 variants) and run on the real interpreter: denied cases must raise a catchable error, leave the member unchanged and not run the method body; accepted values must arrive === unchanged.",
   note="Trusted: reading a member from inside the declaring class (peek) as the observation of its value. Accesses the reference allows but the interpreter refuses are not violations (counted in coverage.allowed_but_denied, vacuity guard at one third). Six named deviations are open known findings (static members unchecked, private checked as protected, null accepted by typed parameters, typed static property unchecked, closure return type dropped, method null return coerced); cells outside them are violations.",
   tech="TLA+ scenario spec (visibility matrix, type gate, instantiability) enumerated by TLC; every scenario rendered as a class fixture and replayed on the real interpreter, verdict and no-effect compared with the reference, deviations classified by the spec's deviation layer"),
 "C14": dict(cat="model_checking", ref="§5 C14",
   text="Three specs. spec/Protowire.tla: the raw-field parser as a push-down machine (frames top | msg | grp, depth limit, actions Scalar / Malformed / EnterMessage / LeaveMessage / EnterGroup / EndGroup / Finish) over abstract wire items; TLC checks AcceptImpliesAllConsumed, DepthNeverExceeds and termination on every token stream of the flat, nested and chains families x max_depth settings, and refutes the two named deviations of the pinned parser (stray end-group stops the parse, groups one level too deep). Every behaviour's verdict and field tree is replayed: the stream is concretised with google.golang.org/protobuf/encoding/protowire and fed to ParseRawFields in-process and to Protowire::parse through scripts. spec/ByteCodecs.tla: bin2hex, base64, urlencode, rawurlencode as exact transducers over byte sequences with their inverses; TLC checks the round-trip laws on every single byte, every pair over 56 interesting bytes (thorough: all 65536 pairs) and triples, and prints the expected encodings, which must equal what the interpreter's functions return; the decoders must invert them (also with lower-case escapes). spec/Codec.tla: value classes (boundary ints, floats, string classes, lists, string- and int-keyed maps incl. symbolic key classes, nested) with the JSON and PHP-serialize token streams a faithful encoder emits and reference decoders on token streams (JsonRoundTrip, SerRoundTrip, ShapeLaw); the interpreter's json_encode / serialize output is read back by Go's encoding/json tokenizer / a serialize reader and compared token by token, and decode(encode(v)) === v is checked in the script; json_decode is compared with json.Valid on truncations and corruptions of the generated texts.",
   note="Trusted: Go's protowire writer, encoding/json tokenizer and json.Valid, and the harness's reader of the serialize grammar, as the reference implementations the property names. md5/hash digests, the @Field annotation layer of Protowire::serialize and 4 KiB random fuzzing of the text decoders are not decided by the specification.",
   tech="TLA+ push-down machine for the wire parser plus transducer / token-stream specs of the text codecs, model-checked by TLC; every behaviour and case replayed on the real encoders and decoders with the reference implementations as projection"),
}
NOT_YET = "check not built yet in this round (planned: TLA+ spec + conformance binding, see DESIGN.md §5)"
def main():
    checks = []
    for pid in ALL:
        if pid not in CHECKS: continue
        c = CHECKS[pid]
        checks.append({
          "property_id": pid,
          "quick_cmd": "./check.sh %s quick" % pid,
          "thorough_cmd": "./check.sh %s thorough" % pid,
          "evidence_file": "/verif/evidence/%s.json" % pid,
          "replay_cmd_template": "./check.sh %s --replay {path}" % pid,
          "engine": "vcheck",
          "level_claimed": {"category": c["cat"], "text": c["text"], "design_ref": c["ref"]},
          "level_note": c["note"],
          "technique": c["tech"],
        })
    m = {
      "version": 1,
      "setup_cmd": "./check.sh setup",
      "hooks": {
        "guard": "verif",
        "enable": "go build -tags verif (check.sh builds harness/cmd/vcheck against /repo's working tree through a replace directive)",
        "baseline_off_cmd": "cd /repo && GOFLAGS=-mod=mod go test -json -vet=off -count=1 -timeout 25m ./...",
        "source_commits": HOOK_COMMITS,
        "add_only": True,
      },
      "engines": [{"name": "vcheck", "path": "/verif/harness/cmd/vcheck", "serves_properties": [c["property_id"] for c in checks],
                   "kind_free_text": "Go driver: runs TLC on /verif/spec/*.tla, replays spec behaviours into the real code and validates recorded traces against trace specs"}],
      "checks": checks,
      "not_applicable": [{"property_id": p, "reason": NA.get(p, NOT_YET)} for p in ALL if p not in CHECKS],
      "notes": "All checks are model-based: an explicit TLA+ specification per subsystem under /verif/spec, checked by TLC and bound to the implementation by replay / trace validation (DESIGN.md).",
    }
    json.dump(m, open(os.path.join(HERE, "MANIFEST.json"), "w"), indent=1, ensure_ascii=False)
    print("wrote MANIFEST.json with", len(checks), "checks")
HOOK_COMMITS = ["ac1b516"]
NA = {}
if __name__ == "__main__":
    main()
