#!/bin/bash
# Dev tool: apply every kept seeded change (patch_rebased.diff if present) to /repo, run the property's quick check, revert.
# Prints one line per seed: detected (exit 1) / MISSED (exit 0) / other.
cd /verif
for d in seeded/*/; do
  id=$(basename $d); prop=${id%-*}
  p=$d/patch.diff; [ -f $d/patch_rebased.diff ] && p=$d/patch_rebased.diff
  [ -n "${1:-}" ] && [[ ! "$id" =~ $1 ]] && continue
  out=$(LINES_OUT=1 tools/try_patch.sh /verif/$p $prop quick 2>&1 | grep -E "^exit=|patch does not apply|repo not clean" | tail -1)
  case "$out" in
    exit=1) echo "$id detected" ;;
    exit=0) echo "$id MISSED" ;;
    *) echo "$id $out" ;;
  esac
done
