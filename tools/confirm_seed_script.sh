#!/bin/bash
# usage: confirm_seed_script.sh <WT> <OUTDIR>     (demo.zy + expected.txt)
set -u
WT="$1"; OUT="$2"
export GOFLAGS=-mod=mod GOPROXY=off
cd "$WT" || exit 2
git checkout -q -- . && git clean -fdq
suite() { go test -vet=off -count=1 ./... 2>&1 | grep -E "^(ok|FAIL|---)" | sed -E "s/[0-9.]+s( \[no tests to run\])?$//" | sort; }
DEMO=$(ls "$OUT"/demo.* | head -1)
suite > /tmp/suite_base.txt
go build -o /tmp/wt/zy_confirm . || exit 2
timeout -s KILL 60 /tmp/wt/zy_confirm "$DEMO" > /tmp/demo_base.txt 2>&1
diff -q /tmp/demo_base.txt "$OUT/expected.txt" >/dev/null && echo "demo on unchanged tree: matches expected" || echo "demo on unchanged tree: DIFFERS from expected"
git apply "$OUT/patch.diff" || { echo "PATCH DOES NOT APPLY"; exit 1; }
go build ./... && go build -tags verif ./... && echo "builds: yes"
suite > /tmp/suite_mut.txt
diff /tmp/suite_base.txt /tmp/suite_mut.txt > /dev/null && echo "suite: unchanged" || { echo "suite: CHANGED"; diff /tmp/suite_base.txt /tmp/suite_mut.txt | head; }
go build -o /tmp/wt/zy_confirm . || exit 2
timeout -s KILL 60 /tmp/wt/zy_confirm "$DEMO" > /tmp/demo_mut.txt 2>&1
diff -q /tmp/demo_mut.txt "$OUT/expected.txt" >/dev/null && echo "demo with change: SAME as expected (not a demonstration)" || { echo "demo with change: differs"; diff /tmp/demo_mut.txt "$OUT/expected.txt" | head -4; }
git checkout -q -- . && git clean -fdq; rm -f /tmp/wt/zy_confirm
