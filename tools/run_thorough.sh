#!/bin/bash
# Dev tool: run every thorough tier sequentially and print wall times.
cd /verif
for id in ${@:-C01 C02 C03 C04 C05 C06 C07 C08 C09 C10 C11 C12 C13 C14 C15 C16 C17 C18 C19 C20}; do
  s=$(date +%s); out=$(./check.sh $id thorough 2>&1); rc=$?; e=$(( $(date +%s) - s ))
  echo "$id rc=$rc ${e}s $(echo "$out" | grep -c '^KNOWN-FINDING') known  $(echo "$out" | grep -E '^VIOLATION|^INFRA' | head -2 | cut -c1-200)"
done
