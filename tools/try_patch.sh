#!/bin/bash
# usage: try_patch.sh <patch.diff> <PROP> [tier]   -- applies the patch to /repo, runs the check, reverts
set -u
P="$1"; ID="$2"; TIER="${3:-quick}"
cd /repo || exit 2
git diff --quiet || { echo "repo not clean"; exit 2; }
git apply "$P" || { echo "patch does not apply"; exit 2; }
( cd /verif && ./check.sh "$ID" "$TIER" 2>&1 | cut -c1-400 | tail -${LINES_OUT:-6} ; echo "exit=${PIPESTATUS[0]}" )
git -C /repo checkout -- . 
git -C /repo status --short | grep -v "^??" | head
