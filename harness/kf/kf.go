// Package kf holds the verdict plumbing shared by all property drivers: known-findings matching,
// evidence files, replay files and the exit-code rule (DESIGN.md §4).
package kf

import (
	"crypto/sha1"
	"encoding/json"
	"fmt"
	"os"
	"path"
	"path/filepath"
	"sort"
	"strings"
	"time"
)

// Finding is one entry of /verif/known_findings.json.
type Finding struct {
	Property string `json:"property"`
	Status   string `json:"status"` // open | fixed
	ID       string `json:"id"`     // scenario id, '*' allowed inside components declared irrelevant
	Observed string `json:"observed,omitempty"`
	What     string `json:"what"`
	Commit   string `json:"commit,omitempty"`
}

type file struct {
	Findings []Finding `json:"findings"`
}

// Mismatch is one disagreement between the real code and the reference spec.
type Mismatch struct {
	ID       string `json:"id"`       // scenario id built from model labels
	Expected any    `json:"expected"` // what the reference spec prescribes
	Observed any    `json:"observed"` // what the real code did
	ObsKey   string `json:"obs_key"`  // short stable rendering of Observed used for known-finding matching
	Input    any    `json:"input"`    // concrete input (script / op sequence / schedule / history)
	Detail   any    `json:"detail,omitempty"`
}

// Report is what a property driver returns.
type Report struct {
	Property    string
	Level       string
	Coverage    map[string]any
	Assumptions []string
	Mismatches  []Mismatch
	Infra       []string // infrastructure problems: exit 2
}

func (r *Report) Infraf(f string, a ...any) { r.Infra = append(r.Infra, fmt.Sprintf(f, a...)) }

func (r *Report) Add(m Mismatch) { r.Mismatches = append(r.Mismatches, m) }

// Load reads known_findings.json (read-only at run time).
func Load(verifDir string) ([]Finding, error) {
	b, err := os.ReadFile(filepath.Join(verifDir, "known_findings.json"))
	if err != nil {
		if os.IsNotExist(err) {
			return nil, nil
		}
		return nil, err
	}
	var f file
	if err := json.Unmarshal(b, &f); err != nil {
		return nil, err
	}
	return f.Findings, nil
}

// globMatch matches pattern against id; '*' matches any run of characters except '/'.
func globMatch(pattern, id string) bool {
	ok, err := path.Match(pattern, id)
	return err == nil && ok
}

// Match returns the open finding that explains m, if any.
func Match(fs []Finding, prop string, m Mismatch) *Finding {
	for i := range fs {
		f := &fs[i]
		if f.Property != prop || f.Status != "open" {
			continue
		}
		if !globMatch(f.ID, m.ID) {
			continue
		}
		if f.Observed != "" && f.Observed != m.ObsKey {
			continue
		}
		return f
	}
	return nil
}

// Finish applies the verdict rule, writes evidence and replay files, prints lines, returns exit code.
func Finish(verifDir, tier string, seed int64, t0 time.Time, rep *Report) int {
	fs, err := Load(verifDir)
	if err != nil {
		rep.Infraf("known_findings.json: %v", err)
	}
	known := map[string]int{}
	knownWhat := map[string]string{}
	var viol []Mismatch
	for _, m := range rep.Mismatches {
		if f := Match(fs, rep.Property, m); f != nil {
			known[f.ID]++
			knownWhat[f.ID] = f.What
			continue
		}
		viol = append(viol, m)
	}
	if dump := os.Getenv("VERIF_DUMP"); dump != "" { // debugging aid: all mismatches, one JSON per line
		if f, err := os.Create(dump); err == nil {
			for _, m := range rep.Mismatches {
				b, _ := json.Marshal(m)
				f.Write(append(b, '\n'))
			}
			f.Close()
		}
	}
	ids := make([]string, 0, len(known))
	for id := range known {
		ids = append(ids, id)
	}
	sort.Strings(ids)
	for _, id := range ids {
		fmt.Printf("KNOWN-FINDING: property=%s %s — %s (%d cases)\n", rep.Property, id, knownWhat[id], known[id])
	}
	if rep.Coverage == nil {
		rep.Coverage = map[string]any{}
	}
	rep.Coverage["known_finding_cases"] = len(rep.Mismatches) - len(viol)
	ev := map[string]any{
		"property_id": rep.Property,
		"tier":        tier,
		"seed":        seed,
		"level":       rep.Level,
		"coverage":    rep.Coverage,
		"assumptions": rep.Assumptions,
		"wall_s":      time.Since(t0).Seconds(),
		"violations":  len(viol),
	}
	if len(rep.Infra) > 0 {
		ev["infra_errors"] = rep.Infra
	}
	os.MkdirAll(filepath.Join(verifDir, "evidence"), 0o755)
	b, _ := json.MarshalIndent(ev, "", " ")
	if err := os.WriteFile(filepath.Join(verifDir, "evidence", rep.Property+".json"), append(b, '\n'), 0o644); err != nil {
		fmt.Fprintln(os.Stderr, "evidence:", err)
		return 2
	}
	if len(viol) > 0 {
		os.MkdirAll(filepath.Join(verifDir, "replays"), 0o755)
		// cluster report: group by id components
		clusterReport(viol)
		max := 20
		for i, m := range viol {
			if i >= max {
				fmt.Printf("... %d more violations not written\n", len(viol)-max)
				break
			}
			mb, _ := json.MarshalIndent(map[string]any{"property": rep.Property, "tier": tier, "seed": seed, "mismatch": m}, "", " ")
			h := sha1.Sum([]byte(m.ID + "|" + m.ObsKey))
			p := filepath.Join(verifDir, "replays", fmt.Sprintf("%s-%x.json", rep.Property, h[:6]))
			os.WriteFile(p, mb, 0o644)
			fmt.Printf("VIOLATION property=%s replay=%s\n", rep.Property, p)
			fmt.Printf("  id=%s expected=%s observed=%s\n", m.ID, short(m.Expected), short(m.Observed))
		}
		return 1
	}
	if len(rep.Infra) > 0 {
		for _, s := range rep.Infra {
			fmt.Fprintln(os.Stderr, "INFRA:", s)
		}
		return 2
	}
	fmt.Printf("OK property=%s tier=%s seed=%d wall=%.1fs\n", rep.Property, tier, seed, time.Since(t0).Seconds())
	return 0
}

func short(v any) string {
	b, _ := json.Marshal(v)
	s := string(b)
	if len(s) > 300 {
		s = s[:300] + "…"
	}
	return s
}

func clusterReport(ms []Mismatch) {
	cnt := map[string]int{}
	for _, m := range ms {
		for _, c := range strings.Split(m.ID, "/") {
			cnt[c]++
		}
	}
	type kv struct {
		k string
		n int
	}
	var l []kv
	for k, n := range cnt {
		l = append(l, kv{k, n})
	}
	sort.Slice(l, func(i, j int) bool {
		if l[i].n != l[j].n {
			return l[i].n > l[j].n
		}
		return l[i].k < l[j].k
	})
	fmt.Printf("mismatch clustering (%d mismatches): ", len(ms))
	for i, e := range l {
		if i >= 12 {
			break
		}
		fmt.Printf("%s×%d ", e.k, e.n)
	}
	fmt.Println()
}
