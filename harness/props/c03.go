package props

import (
	"encoding/json"
	"fmt"
	"math/big"
	"strings"
	"time"

	"verif/kf"
	"verif/tlc"
)

func init() { Registry["C03"] = C03 }

type c03Val struct {
	T string
	V int
	M int
	E int
	S string
	B bool
}

type c03Case struct {
	Kind   string
	Op     string
	A, B   c03Val
	Expect struct {
		Kind string
		V    c03Val
	}
}

// dyadic m * 2^-e as an exact decimal literal
func dyadicLit(m, e int) string {
	r := new(big.Rat).SetFrac(big.NewInt(int64(m)), new(big.Int).Lsh(big.NewInt(1), uint(e)))
	s := r.FloatString(e)
	if !strings.Contains(s, ".") {
		s += ".0"
	}
	return s
}

func (v c03Val) lit() string {
	switch v.T {
	case "int":
		if v.V < 0 {
			return fmt.Sprintf("(%d)", v.V)
		}
		return fmt.Sprint(v.V)
	case "flt":
		s := dyadicLit(v.M, v.E)
		if v.M < 0 {
			return "(" + s + ")"
		}
		return s
	case "str":
		return phpLit(v.S)
	case "bool":
		if v.B {
			return "true"
		}
		return "false"
	}
	switch v.T {
	case "big":
		return map[string]string{"max": "9223372036854775807", "max-1": "9223372036854775806", "min": "(-9223372036854775807 - 1)", "min+1": "(-9223372036854775807)"}[v.S]
	case "arr":
		return "[1, 2]"
	case "obj":
		return "new Pt()"
	}
	return "null"
}

func (v c03Val) tag() string {
	switch v.T {
	case "int":
		return fmt.Sprintf("int:%d", v.V)
	case "flt":
		return "flt:" + dyadicLit(v.M, v.E)
	case "str":
		return "str:" + v.S
	case "bool":
		return fmt.Sprintf("bool:%v", v.B)
	case "arr", "obj":
		return v.T
	case "big":
		return "int:" + v.S
	}
	return "null"
}

func c03Script(k c03Case) string {
	var sb strings.Builder
	fmt.Fprintf(&sb, "class Pt { public $x = 1; }\n$a = %s;\n$b = %s;\n", k.A.lit(), k.B.lit())
	switch k.Kind {
	case "binop":
		check := `"any"`
		switch k.Expect.Kind {
		case "value":
			check = fmt.Sprintf("(($r === %s) ? \"eq\" : \"ne\")", k.Expect.V.lit())
		case "inexact-float":
			check = `(is_float($r) ? "float" : "notfloat")`
		}
		fmt.Fprintf(&sb, "try { $r = ($a %s $b); echo \"R|\", %s, \"|\", json_encode($r), \"\\n\"; } catch (\\Throwable $t) { echo \"R|throw\\n\"; }\n", k.Op, check)
	case "law":
		var e string
		switch k.Op {
		case "eq-sym":
			e = "(($a == $b) === ($b == $a))"
		case "ne-compl":
			e = "(($a != $b) === (!($a == $b)))"
		case "strict-compl":
			e = "(($a !== $b) === (!($a === $b)))"
		case "spaceship":
			e = "(($a <=> $b) === (($a < $b) ? (-1) : (($a > $b) ? 1 : 0)))"
		}
		fmt.Fprintf(&sb, "try { $r = %s; echo \"R|\", ($r ? \"holds\" : \"broken\"), \"\\n\"; } catch (\\Throwable $t) { echo \"R|throw\\n\"; }\n", e)
	case "site":
		// the same operator written as a binary expression and as a compound assignment on four kinds of target
		sb.WriteString("function c03show($v) { return gettype($v) . \":\" . json_encode($v); }\n")
		one := func(tag, setup, stmt, read string) {
			fmt.Fprintf(&sb, "try { %s %s echo \"S|%s|\", c03show(%s), \"\\n\"; } catch (\\Throwable $t) { echo \"S|%s|throw\\n\"; }\n", setup, stmt, tag, read, tag)
		}
		one("expr", "", fmt.Sprintf("$r = ($a %s $b);", k.Op), "$r")
		one("var", "$v = $a;", fmt.Sprintf("$v %s= $b;", k.Op), "$v")
		one("list", "$l = [0, $a];", fmt.Sprintf("$l[1] %s= $b;", k.Op), "$l[1]")
		one("keyed", "$m = [\"k\" => $a];", fmt.Sprintf("$m[\"k\"] %s= $b;", k.Op), "$m[\"k\"]")
		one("prop", "$o = new Pt(); $o->x = $a;", fmt.Sprintf("$o->x %s= $b;", k.Op), "$o->x")
		sb.WriteString("echo \"R|sites\\n\";\n")
	case "truthy":
		sb.WriteString(`$c1 = "F"; if ($a) { $c1 = "T"; }
$c2 = "F"; while ($a) { $c2 = "T"; break; }
$c3 = "F"; for ($k = 0; $a; $k++) { $c3 = "T"; break; }
$c4 = $a ? "T" : "F";
$c5 = (!$a) ? "F" : "T";
$c6 = ($a && true) ? "T" : "F";
$c7 = ($a || false) ? "T" : "F";
$c8 = ((bool)$a) ? "T" : "F";
echo "R|", $c1, $c2, $c3, $c4, $c5, $c6, $c7, $c8, "\n";
`)
	}
	return sb.String()
}

// C03 replays every case of spec/Values.tla as one tiny script in a subprocess worker.
func C03(c *Ctx) *kf.Report {
	rep := &kf.Report{Property: "C03", Level: "model_checking", Coverage: map[string]any{}}
	rep.Assumptions = []string{
		"operands are bound to variables first ($a = lit; $b = lit;) so that the check is about operator semantics, not about literal parsing (C04)",
		"exact results are checked with === against a literal of the expected value; floats are exact dyadic rationals, non-dyadic results only by kind (TLC has no floats and 32-bit ints); the 64-bit boundary integers min, min+1, max-1, max are symbolic: their order, equality, identity and truthiness are exact, arithmetic on them is only required not to crash",
		"string comparison is prescribed only for non-numeric strings; '0' is the only unanchored truthiness value (all eight contexts must still agree)",
	}
	res := runTLC(rep, tlc.Run{SpecDir: c.SpecDir(), Module: "Values", Cfg: "Values.cfg", Timeout: 20 * time.Minute,
		Consts: map[string]string{"BIG": map[bool]string{false: "FALSE", true: "TRUE"}[c.Thorough()]}})
	if res == nil {
		return rep
	}
	addTLC(rep, res)
	if res.Violated != "" {
		rep.Infraf("spec Values: %s violated\n%s", res.Violated, res.Tail(20))
		return rep
	}
	var cases []c03Case
	var jobs []Job
	for _, raw := range res.Tagged["CASE"] {
		var k c03Case
		must(json.Unmarshal(raw, &k))
		cases = append(cases, k)
		jobs = append(jobs, Job{Src: c03Script(k)})
	}
	rs, err := RunJobs(c.Self, jobs, 0, 10*time.Second)
	if err != nil {
		rep.Infraf("pool: %v", err)
		return rep
	}
	exact, laws := 0, 0
	for i, k := range cases {
		r := rs[i]
		id := fmt.Sprintf("C03/%s/op=%s/a=%s/b=%s", k.Kind, k.Op, k.A.tag(), k.B.tag())
		id = strings.NewReplacer("*", "mul", "/=", "div=", "?", "q").Replace(id)
		if k.Op == "/" {
			id = fmt.Sprintf("C03/%s/op=div/a=%s/b=%s", k.Kind, k.A.tag(), k.B.tag())
		}
		if r.Hang || r.Died || r.Panic != "" {
			rep.Add(kf.Mismatch{ID: id, Expected: "a value or a catchable error", Observed: map[string]any{"hang": r.Hang, "died": r.Died, "panic": r.Panic, "stderr": tailStr(r.Stderr, 400)}, ObsKey: "crash", Input: jobs[i].Src})
			continue
		}
		line := ""
		for _, l := range strings.Split(r.Out, "\n") {
			if strings.HasPrefix(l, "R|") {
				line = l[2:]
			}
		}
		if line == "" {
			rep.Add(kf.Mismatch{ID: id, Expected: "a value or a catchable error", Observed: r.Result, ObsKey: "no-result:" + tailStr(r.Uncaught+r.ParseErr, 60), Input: jobs[i].Src})
			continue
		}
		switch k.Kind {
		case "binop":
			f := strings.SplitN(line, "|", 2)
			switch k.Expect.Kind {
			case "value":
				exact++
				if f[0] != "eq" {
					rep.Add(kf.Mismatch{ID: id, Expected: k.Expect.V.tag(), Observed: line, ObsKey: line, Input: jobs[i].Src})
				}
			case "inexact-float":
				if f[0] != "float" {
					rep.Add(kf.Mismatch{ID: id, Expected: "a float", Observed: line, ObsKey: line, Input: jobs[i].Src})
				}
			case "error":
				exact++
				if f[0] != "throw" {
					rep.Add(kf.Mismatch{ID: id, Expected: "a catchable error", Observed: line, ObsKey: line, Input: jobs[i].Src})
				}
			}
		case "site":
			laws++
			got := map[string]string{}
			for _, l := range strings.Split(r.Out, "\n") {
				if f := strings.SplitN(l, "|", 3); len(f) == 3 && f[0] == "S" {
					got[f[1]] = f[2]
				}
			}
			for _, site := range []string{"var", "list", "keyed", "prop"} {
				if got[site] != got["expr"] {
					rep.Add(kf.Mismatch{ID: strings.Replace(id, "C03/site/", "C03/site="+site+"/", 1), Expected: map[string]string{"as a binary expression": got["expr"]}, Observed: map[string]string{"as compound assignment on " + site: got[site]}, ObsKey: "site-differs", Input: jobs[i].Src})
				}
			}
		case "law":
			laws++
			if line == "broken" {
				rep.Add(kf.Mismatch{ID: id, Expected: "law holds", Observed: line, ObsKey: "broken", Input: jobs[i].Src})
			}
		case "truthy":
			laws++
			all := strings.Count(line, string(line[0])) == len(line)
			want := ""
			if k.Expect.Kind == "value" {
				want = "F"
				if k.Expect.V.B {
					want = "T"
				}
			}
			if !all || (want != "" && string(line[0]) != want) {
				rep.Add(kf.Mismatch{ID: id, Expected: map[string]any{"all_contexts_agree": true, "anchored": want}, Observed: map[string]string{"if,while,for,?:,!,&&,||,(bool)": line}, ObsKey: line, Input: jobs[i].Src})
			}
		}
	}
	rep.Coverage["traces_validated_against_impl"] = len(cases)
	rep.Coverage["evaluations"] = len(cases)
	rep.Coverage["distinct_nontrivial"] = exact + laws
	rep.Coverage["exact_results"] = exact
	rep.Coverage["law_and_truthiness_cases"] = laws
	rep.Coverage["exhaustive"] = true
	rep.Coverage["rule"] = "every (operator, a, b) over 23 binary operators x a pool of 22 values (thorough: 33) incl. an array and an object, every truthiness value in 8 contexts, and 4 coherence laws on every pair are initial states of Values.tla; each is one script; exact results compared inside the documented domain, laws and no-crash everywhere; non-trivial = cases with a prescribed result or law"
	if len(cases) > 0 {
		rep.Coverage["samples"] = []any{jobs[0].Src, jobs[len(jobs)/2].Src}
	}
	return rep
}
