package props

import (
	"encoding/json"
	"fmt"
	"sort"
	"strings"
	"time"

	"verif/graph"
	"verif/kf"
	"verif/tlc"
)

type c09ObjObs struct {
	Exists bool
	Len    int
	Cap    int
	Closed bool
}

type c09ObjAct struct {
	Op, Ch, Arg, Res string
	Obs              map[string]c09ObjObs
}

func c09ObjLine(a c09ObjAct) string {
	var names []string
	for n, o := range a.Obs {
		if o.Exists {
			names = append(names, n)
		}
	}
	sort.Strings(names)
	var sb strings.Builder
	sb.WriteString(a.Res + "|")
	for _, n := range names {
		o := a.Obs[n]
		cl := "0"
		if o.Closed {
			cl = "1"
		}
		fmt.Fprintf(&sb, "%s:%d:%d:%s;", n, o.Len, o.Cap, cl)
	}
	return sb.String()
}

// c09ObjScript renders one path of ChannelObjs as a script run by a single coroutine.
func c09ObjScript(acts []c09ObjAct) string {
	var sb strings.Builder
	for k, a := range acts {
		v := "$" + a.Ch
		switch a.Op {
		case "new":
			fmt.Fprintf(&sb, "%s = new Channel(%s); $r = \"\";\n", v, a.Arg)
		case "send":
			fmt.Fprintf(&sb, "$r = %s->send(\"%s\") ? \"true\" : \"false\";\n", v, a.Arg)
		case "recv":
			fmt.Fprintf(&sb, "$r = %s->receive(); if ($r === null) { $r = \"null\"; }\n", v)
		case "close":
			fmt.Fprintf(&sb, "%s->close(); $r = \"\";\n", v)
		}
		fmt.Fprintf(&sb, "echo \"%d|\", $r, \"|\";\n", k+1)
		var names []string
		for n, o := range a.Obs {
			if o.Exists {
				names = append(names, n)
			}
		}
		sort.Strings(names)
		for _, n := range names {
			fmt.Fprintf(&sb, "echo \"%s:\", $%s->len(), \":\", $%s->cap(), \":\", ($%s->isClosed() ? \"1\" : \"0\"), \";\";\n", n, n, n, n)
		}
		sb.WriteString("echo \"\\n\";\n")
	}
	return sb.String()
}

// c09Objects replays every path of spec/ChannelObjs.tla (several Channel objects created and used by one
// coroutine through the script-facing class) on the real interpreter.
func c09Objects(c *Ctx, rep *kf.Report) {
	maxOps := c.Pick(5, 6)
	res := runTLC(rep, tlc.Run{SpecDir: c.SpecDir(), Module: "ChannelObjs", Cfg: "ChannelObjs.cfg",
		Consts: map[string]string{"CHANS": `{"a", "b"}`, "CAPS": "{1, 2}", "MAXOPS": fmt.Sprint(maxOps)}})
	if res == nil {
		return
	}
	addTLC(rep, res)
	if res.Violated != "" {
		rep.Infraf("spec ChannelObjs: %s violated\n%s", res.Violated, res.Tail(30))
		return
	}
	g, err := graph.Build(res.Tagged["INIT"], res.Tagged["EDGE"])
	if err != nil {
		rep.Infraf("ChannelObjs graph: %v", err)
		return
	}
	var jobs []Job
	var all [][]c09ObjAct
	two := 0
	g.AllPaths(maxOps, func(_ string, path []graph.Edge) bool {
		if len(path) == 0 {
			return true
		}
		acts := make([]c09ObjAct, len(path))
		made := map[string]bool{}
		for i, e := range path {
			must(json.Unmarshal(e.Act, &acts[i]))
			made[acts[i].Ch] = true
		}
		if len(made) > 1 {
			two++
		}
		all = append(all, acts)
		jobs = append(jobs, Job{Src: c09ObjScript(acts)})
		return true
	})
	rs, err := RunJobs(c.Self, jobs, 0, 10*time.Second)
	if err != nil {
		rep.Infraf("ChannelObjs pool: %v", err)
		return
	}
	steps := 0
	for i, acts := range all {
		r := rs[i]
		var ids []string
		for _, a := range acts {
			ids = append(ids, strings.TrimSuffix(a.Op+"."+a.Ch+"."+a.Arg, "."))
		}
		id := "C09/objects/path=" + strings.Join(ids, ",")
		if r.Hang || r.Died || r.Panic != "" || r.ParseErr != "" || r.Uncaught != "" {
			rep.Add(kf.Mismatch{ID: id, Expected: "the script runs to its end (every step is non-blocking in the model)",
				Observed: map[string]any{"hang": r.Hang, "died": r.Died, "panic": r.Panic, "parse": r.ParseErr, "uncaught": r.Uncaught, "out": r.Out, "stderr": tailStr(r.Stderr, 400)},
				ObsKey: "failed", Input: jobs[i].Src})
			continue
		}
		lines := strings.Split(strings.TrimSpace(r.Out), "\n")
		for k, a := range acts {
			steps++
			exp := fmt.Sprintf("%d|%s", k+1, c09ObjLine(a))
			got := ""
			if k < len(lines) {
				got = lines[k]
			}
			if got != exp {
				rep.Add(kf.Mismatch{ID: id, Expected: exp, Observed: got, ObsKey: fmt.Sprintf("step%d:%s", k+1, got), Input: jobs[i].Src,
					Detail: map[string]any{"step": k + 1, "format": "step|result|name:len:cap:closed;..."}})
				break
			}
		}
	}
	rep.Coverage["object_paths"] = len(all)
	rep.Coverage["object_paths_with_two_channels"] = two
	rep.Coverage["object_steps"] = steps
}
