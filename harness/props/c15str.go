package props

import (
	"encoding/json"
	"fmt"
	"strings"

	"verif/kf"
	"verif/rt"
	"verif/tlc"
)

type c15sEdge struct {
	From []string
	Act  struct {
		M    string
		Args []json.RawMessage
		Res  json.RawMessage
	}
}

func joinChars(raw json.RawMessage) (string, bool) {
	var cs []string
	if json.Unmarshal(raw, &cs) != nil {
		return "", false
	}
	return strings.Join(cs, ""), true
}

// c15Strings replays every edge of spec/StringMethods.tla as one real method call.
func c15Strings(c *Ctx, rep *kf.Report) {
	res := runTLC(rep, tlc.Run{SpecDir: c.SpecDir(), Module: "StringMethods", Cfg: "StringMethods.cfg",
		Consts: map[string]string{"MAXLEN0": fmt.Sprint(c.Pick(2, 3))}})
	if res == nil {
		return
	}
	addTLC(rep, res)
	if res.Violated != "" {
		rep.Infraf("spec StringMethods: %s violated\n%s", res.Violated, res.Tail(30))
		return
	}
	type sc struct {
		e      c15sEdge
		stmt   string
		exp    string
		shape  string
		recvPH string
	}
	var cases []sc
	for _, raw := range res.Tagged["EDGE"] {
		var e c15sEdge
		must(json.Unmarshal(raw, &e))
		recv := strings.Join(e.From, "")
		var args, shape []string
		for _, a := range e.Act.Args {
			if s, ok := joinChars(a); ok {
				args = append(args, phpLit(s))
				shape = append(shape, fmt.Sprintf("s%d", len([]rune(s))))
				continue
			}
			var n int
			json.Unmarshal(a, &n)
			if n == 99 {
				shape = append(shape, "omit")
				continue
			}
			args = append(args, fmt.Sprint(n))
			shape = append(shape, fmt.Sprint(n))
		}
		var exp string
		switch e.Act.M {
		case "length", "lengthProp", "indexOf":
			exp = string(e.Act.Res)
		case "startsWith", "endsWith":
			exp = string(e.Act.Res)
		case "split":
			var parts []json.RawMessage
			json.Unmarshal(e.Act.Res, &parts)
			out := []string{}
			for _, p := range parts {
				s, _ := joinChars(p)
				out = append(out, s)
			}
			exp = canonJSON(out)
		case "substring": // a byte string, compared in hex
			var bs []int
			json.Unmarshal(e.Act.Res, &bs)
			hx := ""
			for _, b := range bs {
				hx += fmt.Sprintf("%02x", b)
			}
			exp = canonJSON(hx)
		default:
			s, _ := joinChars(e.Act.Res)
			exp = canonJSON(s)
		}
		call := fmt.Sprintf("$r->%s(%s)", e.Act.M, strings.Join(args, ", "))
		if e.Act.M == "lengthProp" {
			call = "$r->length"
		}
		if e.Act.M == "substring" {
			call = "bin2hex(" + call + ")"
		}
		cases = append(cases, sc{e: e, exp: exp, shape: strings.Join(shape, ","), recvPH: phpLit(recv),
			stmt: fmt.Sprintf("$x = %s; echo json_encode($x), \"|\", json_encode($r), \"\\n\";", call)})
	}
	const batch = 200
	calls := 0
	kinds := map[string]bool{}
	for lo := 0; lo < len(cases); lo += batch {
		hi := lo + batch
		if hi > len(cases) {
			hi = len(cases)
		}
		var sb strings.Builder
		for i := lo; i < hi; i++ {
			fmt.Fprintf(&sb, "echo \"#%d\\n\";\n$r = %s;\ntry { %s } catch (\\Throwable $t) { echo \"THROW|THROW\\n\"; }\n", i, cases[i].recvPH, cases[i].stmt)
		}
		r := rt.Run(sb.String(), rt.Opts{})
		got := map[int]string{}
		cur := -1
		for _, line := range strings.Split(r.Out, "\n") {
			if strings.HasPrefix(line, "#") {
				fmt.Sscanf(line, "#%d", &cur)
				continue
			}
			if cur >= 0 && line != "" {
				got[cur] = line
				cur = -1
			}
		}
		if r.ParseErr != "" || r.Panic != "" {
			rep.Add(kf.Mismatch{ID: "C15/str/kind=crash", Expected: "value or catchable error", Observed: map[string]string{"parse": r.ParseErr, "panic": r.Panic}, ObsKey: "crash", Input: sb.String()})
		}
		for i := lo; i < hi; i++ {
			calls++
			cs := cases[i]
			line, ok := got[i]
			if !ok {
				continue
			}
			k := strings.LastIndex(line, "|")
			gotRes, gotRecv := reparse(line[:k]), reparse(line[k+1:])
			recv := strings.Join(cs.e.From, "")
			multibyte := "ascii"
			if len(recv) != len([]rune(recv)) {
				multibyte = "multibyte"
			}
			kinds[cs.e.Act.M+"/"+cs.shape+"/"+multibyte] = true
			if gotRes == reparse(cs.exp) && gotRecv == canonJSON(recv) {
				continue
			}
			rep.Add(kf.Mismatch{ID: fmt.Sprintf("C15/str/m=%s/args=%s/recv=%s.len%d", cs.e.Act.M, cs.shape, multibyte, len(cs.e.From)),
				Expected: map[string]string{"result": reparse(cs.exp), "receiver": canonJSON(recv)}, Observed: map[string]string{"result": gotRes, "receiver": gotRecv},
				ObsKey: gotRes, Input: map[string]any{"receiver": recv, "call": cs.stmt}})
		}
	}
	rep.Coverage["string_calls"] = calls
	rep.Coverage["string_distinct_shapes"] = len(kinds)
}
