package props

import (
	"encoding/json"
	"fmt"
	"net/http/httptest"
	"os"
	"path/filepath"
	"sort"
	"strings"
	"sync"
	"sync/atomic"
	"time"

	"github.com/php-any/origami/data"
	"github.com/php-any/origami/parser"
	"github.com/php-any/origami/runtime"
	originhttp "github.com/php-any/origami/std/net/http"

	"verif/graph"
	"verif/kf"
	"verif/rt"
	"verif/tlc"
)

func init() { Registry["C12"] = C12 }

type c12Act struct {
	Op, VM, Kind, Name, Via string
	Ok                      bool
	Dev                     *bool // probe-shared: the verdict under the deviation ast-level-resolution-cache
}

type c12Table map[string]map[string][]string // vm -> kind -> names

type c12State struct {
	Base  map[string][]string
	Temp  map[string]map[string][]string
	Alive map[string]bool
}

func (s c12State) table() c12Table {
	t := c12Table{"base": s.Base}
	for v, al := range s.Alive {
		if !al {
			continue
		}
		m := map[string][]string{}
		for _, k := range []string{"class", "iface", "func"} {
			set := map[string]bool{}
			for _, n := range s.Base[k] {
				set[n] = true
			}
			for _, n := range s.Temp[v][k] {
				set[n] = true
			}
			for n := range set {
				m[k] = append(m[k], n)
			}
		}
		t[v] = m
	}
	return t
}

// c12World is the real system under test: one base VM and the live temporary VMs.
type c12World struct {
	base  *runtime.VM
	p     *parser.Parser
	temps map[string]data.VM
	seq   int
	names []string
	// hot mode: temporary VMs are the request VMs created by std/net/http HotHandler.ServeHTTP
	hot     *originhttp.HotHandler
	release map[string]chan struct{}
	ended   map[string]chan struct{}
	vmCh    chan data.VM
	newHot  func(t string) data.VM
}

// c12HandlerFunc is a Go-implemented request handler: it publishes the request VM and stays in
// the request until the driver discards it.
type c12HandlerFunc struct{ fn func(ctx data.Context) }

func (f c12HandlerFunc) Call(ctx data.Context) (data.GetValue, data.Control) {
	f.fn(ctx)
	return nil, nil
}
func (c12HandlerFunc) GetName() string            { return "handler" }
func (c12HandlerFunc) GetParams() []data.GetValue { return nil }
func (c12HandlerFunc) GetVariables() []data.Variable {
	return []data.Variable{data.NewVariable("r", 0, nil), data.NewVariable("w", 1, nil)}
}

func (w *c12World) enableHot() {
	w.release = map[string]chan struct{}{}
	w.ended = map[string]chan struct{}{}
	w.vmCh = make(chan data.VM)
	var cur chan struct{}
	fn := c12HandlerFunc{fn: func(ctx data.Context) {
		rel := cur
		w.vmCh <- ctx.GetVM()
		<-rel
	}}
	w.hot = &originhttp.HotHandler{Value: fn, Ctx: w.base.CreateContext(fn.GetVariables())}
	w.newHot = func(t string) data.VM {
		rel, end := make(chan struct{}), make(chan struct{})
		w.release[t], w.ended[t] = rel, end
		cur = rel
		go func() {
			defer close(end)
			defer func() { recover() }()
			w.hot.ServeHTTP(httptest.NewRecorder(), httptest.NewRequest("GET", "/hot", nil))
		}()
		select {
		case vm := <-w.vmCh:
			return vm
		case <-time.After(5 * time.Second):
			return nil
		}
	}
}

var c12IncSeq atomic.Int64
var c12IncDir string
var c12IncOnce sync.Once

// c12IncludeDir is a scratch directory for included definition files (removed by C12 when it returns).
func c12IncludeDir() string {
	c12IncOnce.Do(func() {
		d, err := os.MkdirTemp("", "verif-c12-")
		if err != nil {
			panic(err)
		}
		c12IncDir = d
	})
	return c12IncDir
}

func newC12World(names []string) *c12World {
	vm, p := rt.NewVM()
	vm.SetThrowControl(func(acl data.Control) { panic(fmt.Sprintf("uncaught: %s", acl.AsString())) })
	w := &c12World{base: vm, p: p, temps: map[string]data.VM{}, names: names}
	// helpers parsed ONCE on the base VM: every VM that runs them shares their syntax trees
	var sb strings.Builder
	for _, n := range names {
		fmt.Fprintf(&sb, "function c12_use_class_%s() { $o = new %s(); return 'found'; }\nfunction c12_use_func_%s() { $r = %s(); return 'found'; }\n", n, n, n, n)
	}
	if _, e := w.run("base", sb.String(), "/verif-virtual/c12/shared-helpers.zy"); e != "" {
		panic("c12 helpers: " + e)
	}
	return w
}

func c12Source(kind, name, tag string) string {
	switch kind {
	case "class":
		return fmt.Sprintf("class %s { public function who() { return '%s'; } }\n", name, tag)
	case "iface":
		return fmt.Sprintf("interface %s { public function who(); }\n", name)
	default:
		return fmt.Sprintf("function %s() { return '%s'; }\n", name, tag)
	}
}

// run parses and executes src on VM v the way a request does (parser bound to the VM).
func (w *c12World) run(v string, src, file string) (out string, err string) {
	var sb strings.Builder
	restore := swapOutput(&sb)
	defer restore()
	defer func() {
		if r := recover(); r != nil {
			err = fmt.Sprint("panic: ", r)
			out = sb.String()
		}
	}()
	var pp *parser.Parser
	var ctxOf func(vars []data.Variable) data.Context
	if v == "base" {
		pp = w.p.Clone()
		ctxOf = w.base.CreateContext
	} else {
		tv := w.temps[v].(*runtime.TempVM)
		pp = tv.PrepareParse(w.p)
		ctxOf = tv.CreateContext
	}
	prog, acl := pp.ParseString(src, file)
	if acl != nil {
		return "", "parse: " + acl.AsString()
	}
	_, ctl := prog.GetValue(ctxOf(pp.GetVariables()))
	if ctl != nil {
		return sb.String(), "run: " + ctl.AsString()
	}
	return sb.String(), ""
}

func (w *c12World) apply(a c12Act) (ok bool, detail string) {
	w.seq++
	switch a.Op {
	case "new":
		if w.hot != nil {
			vm := w.newHot(a.VM)
			if _, ok := vm.(*runtime.TempVM); !ok {
				return false, fmt.Sprintf("HotHandler request runs on %T, not a request VM", vm)
			}
			w.temps[a.VM] = vm
			return true, ""
		}
		w.temps[a.VM] = runtime.NewTempVM(w.base)
		return true, ""
	case "discard":
		if w.hot != nil {
			close(w.release[a.VM])
			<-w.ended[a.VM]
		}
		delete(w.temps, a.VM)
		return true, ""
	case "probe-shared":
		// code parsed once on the base VM (helpers defined when the world was created), run on VM a.VM
		out, e := w.run(a.VM, fmt.Sprintf("echo c12_use_%s_%s();", a.Kind, a.Name), fmt.Sprintf("/verif-virtual/c12/shared%d.zy", w.seq))
		return e == "" && strings.HasSuffix(out, "found"), out + " " + e
	case "probe":
		// use the name on that VM; a name that does not resolve goes through the autoload probe and fails
		var src string
		switch a.Kind {
		case "class":
			src = fmt.Sprintf("$o = new %s(); echo 'found';", a.Name)
		case "iface":
			src = fmt.Sprintf("echo interface_exists('%s', true) ? 'found' : 'missing';", a.Name)
		default:
			src = fmt.Sprintf("$r = %s(); echo 'found';", a.Name)
		}
		out, e := w.run(a.VM, src, fmt.Sprintf("/verif-virtual/c12/probe%d.zy", w.seq))
		return e == "" && strings.HasSuffix(out, "found"), out + " " + e
	case "define":
		tag := fmt.Sprintf("%s@%s#%d", a.Name, a.VM, w.seq)
		src := c12Source(a.Kind, a.Name, tag)
		switch a.Via {
		case "include": // the definition sits in a file of its own that the request includes
			f := filepath.Join(c12IncludeDir(), fmt.Sprintf("def-%d-%d.php", os.Getpid(), c12IncSeq.Add(1)))
			if err := os.WriteFile(f, []byte("<?php\n"+src), 0o644); err != nil {
				panic(err)
			}
			src = fmt.Sprintf("include \"%s\";\n", f)
		case "eval":
			src = fmt.Sprintf("eval(\"%s\");\n", strings.ReplaceAll(strings.TrimSpace(src), "\"", "\\\""))
		}
		_, e := w.run(a.VM, src, fmt.Sprintf("/verif-virtual/c12/def%d.zy", w.seq))
		return e == "", e
	}
	panic("op " + a.Op)
}

func (w *c12World) vm(v string) data.VM {
	if v == "base" {
		return w.base
	}
	return w.temps[v]
}

// observeGo reads the registries of every live VM through the Go API.
func (w *c12World) observeGo(vms []string) c12Table {
	t := c12Table{}
	for _, v := range vms {
		vm := w.vm(v)
		if vm == nil {
			continue
		}
		m := map[string][]string{}
		for _, n := range w.names {
			if _, ok := vm.GetClass(n); ok {
				m["class"] = append(m["class"], n)
			}
			if _, ok := vm.GetInterface(n); ok {
				m["iface"] = append(m["iface"], n)
			}
			if _, ok := vm.GetFunc(n); ok {
				m["func"] = append(m["func"], n)
			}
		}
		t[v] = m
	}
	return t
}

// observeScript asks code running on each VM: class_exists / interface_exists / function_exists,
// and tries to instantiate / call what should exist.
func (w *c12World) observeScript(vms []string) (c12Table, []string) {
	t := c12Table{}
	var problems []string
	for _, v := range vms {
		if w.vm(v) == nil {
			continue
		}
		var src strings.Builder
		for _, n := range w.names {
			fmt.Fprintf(&src, "echo class_exists('%s', false) ? 'c:%s;' : '';\n", n, n)
			fmt.Fprintf(&src, "echo interface_exists('%s', false) ? 'i:%s;' : '';\n", n, n)
			fmt.Fprintf(&src, "echo function_exists('%s') ? 'f:%s;' : '';\n", n, n)
		}
		w.seq++
		out, e := w.run(v, src.String(), fmt.Sprintf("/verif-virtual/c12/obs%d.zy", w.seq))
		if e != "" {
			problems = append(problems, fmt.Sprintf("observe on %s: %s", v, e))
		}
		m := map[string][]string{}
		for _, f := range strings.Split(out, ";") {
			if len(f) < 3 {
				continue
			}
			k := map[byte]string{'c': "class", 'i': "iface", 'f': "func"}[f[0]]
			m[k] = append(m[k], f[2:])
		}
		// use what exists: instantiate classes and call functions on this VM
		for _, n := range m["class"] {
			w.seq++
			out, e := w.run(v, fmt.Sprintf("$o = new %s(); echo $o->who();", n), fmt.Sprintf("/verif-virtual/c12/use%d.zy", w.seq))
			if e != "" || !strings.HasPrefix(out, n+"@") {
				problems = append(problems, fmt.Sprintf("new %s on %s: out=%q err=%s", n, v, out, e))
			}
		}
		for _, n := range m["func"] {
			w.seq++
			out, e := w.run(v, fmt.Sprintf("echo %s();", n), fmt.Sprintf("/verif-virtual/c12/use%d.zy", w.seq))
			if e != "" || !strings.HasPrefix(out, n+"@") {
				problems = append(problems, fmt.Sprintf("call %s() on %s: out=%q err=%s", n, v, out, e))
			}
		}
		t[v] = m
	}
	return t, problems
}

func canonTable(t c12Table) string {
	var vs []string
	for v := range t {
		vs = append(vs, v)
	}
	sort.Strings(vs)
	var sb strings.Builder
	for _, v := range vs {
		for _, k := range []string{"class", "iface", "func"} {
			l := append([]string{}, t[v][k]...)
			sort.Strings(l)
			fmt.Fprintf(&sb, "%s.%s={%s} ", v, k, strings.Join(l, ","))
		}
	}
	return sb.String()
}

func liveVMs(t c12Table) []string {
	var vs []string
	for v := range t {
		vs = append(vs, v)
	}
	sort.Strings(vs)
	return vs
}

// dropDead removes VMs the spec says are not alive (their table entries are all empty and they
// cannot be observed).
func dropDead(t c12Table, alive func(string) bool) c12Table {
	o := c12Table{}
	for v, m := range t {
		if v == "base" || alive(v) {
			o[v] = m
		}
	}
	return o
}

// C12 replays the TempVM specification against real base/temporary VMs.
func C12(c *Ctx) *kf.Report {
	rep := &kf.Report{Property: "C12", Level: "model_checking", Coverage: map[string]any{}}
	rep.Assumptions = []string{
		"definitions are made the way requests make them: parser cloned and bound to the VM (PrepareParse), program run on the VM's own context",
		"resolvability only is compared on deliberate collisions (which definition wins is not prescribed)",
		"TLC 1.8 + Json module print the spec's graph / walks faithfully",
	}
	defer func() {
		if c12IncDir != "" {
			os.RemoveAll(c12IncDir)
		}
	}()
	// does eval() run at all on a temporary VM? (either answer is compatible with isolation; the model is told)
	evalTemp := "supported"
	{
		w := newC12World([]string{"Z"})
		w.apply(c12Act{Op: "new", VM: "t1"})
		if ok, _ := w.apply(c12Act{Op: "define", VM: "t1", Kind: "func", Name: "zz_probe", Via: "eval"}); !ok {
			evalTemp = "refused"
		}
	}
	rep.Coverage["eval_on_temp_vm"] = evalTemp
	names := []string{"A", "B"}
	maxDefs := c.Pick(3, 4)
	depth := c.Pick(4, 5)
	res := runTLC(rep, tlc.Run{SpecDir: c.SpecDir(), Module: "TempVM", Cfg: "TempVM.cfg",
		Consts: map[string]string{"NAMES": `{"A","B"}`, "TEMPS": `{"t1","t2"}`, "MAXDEFS": fmt.Sprint(maxDefs), "HIST": "FALSE", "WALKLEN": "0", "PROBES": `{"class"}`, "VIAS": `{"inline"}`, "SHARED": "FALSE", "EVALTEMP": evalTemp}})
	if res == nil {
		return rep
	}
	addTLC(rep, res)
	if res.Violated != "" {
		rep.Infraf("spec TempVM: %s violated\n%s", res.Violated, res.Tail(40))
		return rep
	}
	g, err := graph.Build(res.Tagged["INIT"], res.Tagged["EDGE"])
	if err != nil {
		rep.Infraf("graph: %v", err)
		return rep
	}
	rep.Coverage["graph_states"] = len(g.States)
	rep.Coverage["graph_edges"] = g.NEdges
	var sb strings.Builder
	restore := rt.CaptureOutput(&sb)
	defer restore()

	paths, steps, hotPaths := 0, 0, 0
	nontrivial := map[string]bool{}
	var samples []any
	type step struct {
		act   c12Act
		table c12Table
	}
	replay := func(sts []step, scriptEvery bool, names []string, hot bool) {
		paths++
		w := newC12World(names)
		if hot {
			w.enableHot()
			hotPaths++
			defer func() { // let parked requests return
				for t, rel := range w.release {
					if _, alive := w.temps[t]; alive {
						close(rel)
					}
				}
			}()
		}
		var ids []string
		for _, s := range sts {
			ids = append(ids, strings.Trim(strings.Join([]string{s.act.Op, s.act.VM, s.act.Kind, s.act.Name}, ":"), ":"))
		}
		id := "C12/path=" + strings.Join(ids, ",")
		if hot {
			id = "C12/via=HotHandler/path=" + strings.Join(ids, ",")
		}
		isNontrivial := false
		for i, s := range sts {
			ok, detail := w.apply(s.act)
			steps++
			if ok != s.act.Ok && s.act.Op == "probe-shared" && s.act.Dev != nil && ok == *s.act.Dev {
				// exactly what the deviation layer predicts: the shared syntax tree remembers a resolution made on another VM
				rep.Add(kf.Mismatch{ID: "C12/deviation=ast-level-resolution-cache/kind=" + s.act.Kind, Expected: fmt.Sprintf("step %d %s on %s resolves %s: %v", i+1, s.act.Op, s.act.VM, s.act.Name, s.act.Ok),
					Observed: fmt.Sprintf("resolved=%v %s", ok, detail), ObsKey: "predicted-by-deviation", Input: sts})
				return
			}
			if ok != s.act.Ok {
				rep.Add(kf.Mismatch{ID: id, Expected: fmt.Sprintf("step %d %v ok=%v", i+1, s.act, s.act.Ok), Observed: fmt.Sprintf("ok=%v %s", ok, detail),
					ObsKey: fmt.Sprintf("step%d:ok=%v", i+1, ok), Input: sts})
				return
			}
			exp := canonTable(s.table)
			vms := liveVMs(s.table)
			got := canonTable(w.observeGo(vms))
			if got != exp {
				rep.Add(kf.Mismatch{ID: id, Expected: exp, Observed: got, ObsKey: fmt.Sprintf("step%d:go:%s", i+1, got), Input: sts,
					Detail: map[string]any{"step": i + 1, "level": "Go API GetClass/GetInterface/GetFunc"}})
				return
			}
			if scriptEvery || i == len(sts)-1 {
				st, problems := w.observeScript(vms)
				if g := canonTable(st); g != exp || len(problems) > 0 {
					rep.Add(kf.Mismatch{ID: id, Expected: exp, Observed: map[string]any{"table": g, "problems": problems}, ObsKey: fmt.Sprintf("step%d:script:%s", i+1, g), Input: sts,
						Detail: map[string]any{"step": i + 1, "level": "script class_exists/interface_exists/function_exists/new/call"}})
					return
				}
			}
			if s.act.Op == "define" && s.act.VM != "base" && len(vms) > 2 {
				isNontrivial = true // a temp definition while another temp VM is alive
			}
		}
		if isNontrivial {
			nontrivial[id] = true
		}
		if len(samples) < 3 && paths%211 == 0 {
			samples = append(samples, map[string]any{"path": ids, "final_table": canonTable(sts[len(sts)-1].table)})
		}
	}
	g.AllPaths(depth, func(_ string, path []graph.Edge) bool {
		sts := make([]step, len(path))
		for i, e := range path {
			must(json.Unmarshal(e.Act, &sts[i].act))
			var st c12State
			must(json.Unmarshal(e.ToState, &st))
			sts[i].table = st.table()
		}
		if len(sts) > 0 {
			replay(sts, false, names, false)
			news := 0
			for _, s := range sts {
				if s.act.Op == "new" {
					news++
				}
			}
			if news >= 2 { // temporary VMs created by HotHandler requests instead of NewTempVM
				replay(sts, false, names, true)
			}
		}
		return len(rep.Mismatches) < 200
	})
	// the same graph for definitions that arrive through an included file or through eval() (one name, two definitions)
	if res2 := runTLC(rep, tlc.Run{SpecDir: c.SpecDir(), Module: "TempVM", Cfg: "TempVM.cfg",
		Consts: map[string]string{"NAMES": `{"A"}`, "TEMPS": `{"t1","t2"}`, "MAXDEFS": "2", "HIST": "FALSE", "WALKLEN": "0", "PROBES": "{}", "VIAS": `{"include", "eval"}`, "SHARED": "TRUE", "EVALTEMP": evalTemp}}); res2 != nil {
		addTLC(rep, res2)
		if res2.Violated != "" {
			rep.Infraf("spec TempVM (include / eval): %s violated", res2.Violated)
		}
		if g2, err := graph.Build(res2.Tagged["INIT"], res2.Tagged["EDGE"]); err == nil {
			viaPaths := 0
			g2.AllPaths(4, func(_ string, path []graph.Edge) bool {
				sts := make([]step, len(path))
				for i, e := range path {
					must(json.Unmarshal(e.Act, &sts[i].act))
					var st c12State
					must(json.Unmarshal(e.ToState, &st))
					sts[i].table = st.table()
				}
				if len(sts) > 0 {
					viaPaths++
					replay(sts, true, []string{"A"}, false)
				}
				return len(rep.Mismatches) < 200
			})
			rep.Coverage["include_eval_paths"] = viaPaths
		} else {
			rep.Infraf("graph (include / eval): %v", err)
		}
	}
	exhaustive := paths
	// seeded long walks from TLC -simulate with a history variable
	walkLen := 40
	sim := runTLC(rep, tlc.Run{SpecDir: c.SpecDir(), Module: "TempVM", Cfg: "TempVM.cfg", Workers: 1,
		Consts:   map[string]string{"NAMES": `{"A","B","C","D","E","F","G","H"}`, "TEMPS": `{"t1","t2","t3","t4"}`, "MAXDEFS": "1000", "HIST": "TRUE", "WALKLEN": fmt.Sprint(walkLen), "PROBES": `{"class", "iface", "func"}`, "VIAS": `{"inline", "include", "eval"}`, "SHARED": "TRUE", "EVALTEMP": evalTemp},
		Simulate: fmt.Sprintf("num=%d", c.Pick(12, 150)), Depth: walkLen + 3, Seed: c.Seed, Timeout: 0})
	if sim != nil {
		if sim.Violated != "" {
			rep.Infraf("spec TempVM (simulate): %s violated", sim.Violated)
		}
		big := []string{"A", "B", "C", "D", "E", "F", "G", "H"}
		for _, raw := range sim.Tagged["WALK"] {
			var hs []struct {
				Act   c12Act
				Table c12Table
			}
			must(json.Unmarshal(raw, &hs))
			sts := make([]step, len(hs))
			alive := map[string]bool{}
			for i, h := range hs {
				switch h.Act.Op {
				case "new":
					alive[h.Act.VM] = true
				case "discard":
					delete(alive, h.Act.VM)
				}
				cp := map[string]bool{}
				for k, v := range alive {
					cp[k] = v
				}
				sts[i] = step{h.Act, dropDead(h.Table, func(v string) bool { return cp[v] })}
			}
			replay(sts, true, big, false)
			replay(sts, false, big, true)
		}
		rep.Coverage["seeded_walks"] = len(sim.Tagged["WALK"])
		rep.Coverage["seeded_walk_len"] = walkLen
		if len(sim.Tagged["WALK"]) == 0 {
			rep.Infraf("TempVM simulate produced no WALK line")
		}
	}
	rep.Coverage["traces_validated_against_impl"] = paths
	rep.Coverage["evaluations"] = steps
	rep.Coverage["distinct_nontrivial"] = len(nontrivial)
	rep.Coverage["exhaustive"] = true
	rep.Coverage["exhaustive_paths"] = exhaustive
	rep.Coverage["paths_via_HotHandler"] = hotPaths
	rep.Coverage["rule"] = fmt.Sprintf("all paths of length <= %d of the TempVM state graph (1 base + 2 temps, names {A,B}, <= %d definitions) replayed on real VMs -- steps are define (inline; and, in a second graph over one name, through an included file or eval()) / new / discard / probe (use of a class name on a VM, found or not; in the walks also interface and function names) -- with the resolve table of every live VM compared after every step (Go API) and at the end of each path (scripts); plus TLC -simulate walks of length %d over 4 temps / 8 names compared after every step at both levels; non-trivial = a temp definition made while another temp VM is alive", depth, maxDefs, walkLen)
	if len(samples) == 0 {
		samples = append(samples, "none")
	}
	rep.Coverage["samples"] = samples
	return rep
}
