package props

import (
	"encoding/json"
	"fmt"
	"net/http"
	"net/http/httptest"
	"strings"
	"time"

	"verif/kf"
	"verif/rt"
	"verif/tlc"
)

type mwCase struct {
	Reg   []int    `json:"reg"`
	Late  int      `json:"late"`
	Order []int    `json:"order"`
	Trace []string `json:"trace"`
}

// c13Middleware replays every terminal behaviour of spec/Middleware.tla on a real Server.
func c13Middleware(c *Ctx, rep *kf.Report, _ *rt.Session) {
	maxMw := c.Pick(4, 5)
	res := runTLC(rep, tlc.Run{SpecDir: c.SpecDir(), Module: "Middleware", Cfg: "Middleware.cfg",
		Consts: map[string]string{"MAXMW": fmt.Sprint(maxMw)}})
	if res == nil {
		return
	}
	addTLC(rep, res)
	if res.Violated != "" {
		rep.Infraf("spec Middleware: %s violated\n%s", res.Violated, res.Tail(30))
		return
	}
	n, ties := 0, 0
	for _, raw := range res.Tagged["CASE"] {
		var mc mwCase
		must(json.Unmarshal(raw, &mc))
		n++
		var src strings.Builder
		src.WriteString("use Net\\Http\\Server;\n$server = new Server('127.0.0.1', 0);\n")
		mw := func(i, pri int) {
			// alternate closures and handle() classes; omit the priority argument for 0 on even indexes
			if (i+int(c.Seed))%2 == 0 {
				fmt.Fprintf(&src, "$server->middleware(function ($req, $res, $next) { echo 'pre%d;'; $next($req, $res); echo 'post%d;'; }", i, i)
			} else {
				fmt.Fprintf(&src, "class M%d { public function handle($request, $response, $next) { echo 'pre%d;'; $next($request, $response); echo 'post%d;'; } }\n$server->middleware(new M%d()", i, i, i, i)
			}
			if pri == 0 && i%2 == 0 {
				src.WriteString(");\n")
			} else {
				fmt.Fprintf(&src, ", %d);\n", pri)
			}
		}
		for i, p := range mc.Reg {
			mw(i+1, p)
		}
		src.WriteString("$server->get('/m', function ($req, $res) { echo 'h0;'; $res->write('ok'); });\n")
		if mc.Late > 0 {
			mw(99, -1)
		}
		id := fmt.Sprintf("C13/mw=%s/late=%d", strings.ReplaceAll(strings.Trim(fmt.Sprint(mc.Reg), "[]"), " ", ","), mc.Late)
		seen := map[int]bool{}
		for _, p := range mc.Reg {
			if seen[p] {
				ties++
				break
			}
			seen[p] = true
		}
		sess := rt.NewSession()
		var out strings.Builder
		restore := swapOutput(&out)
		r := sess.Exec(src.String(), "/verif-virtual/c13mw.zy")
		if r.ParseErr != "" || r.Uncaught != "" || r.Panic != "" {
			restore()
			rep.Add(kf.Mismatch{ID: id, Expected: "registration succeeds", Observed: r, ObsKey: "setup-failed", Input: src.String()})
			continue
		}
		sv, _ := sess.Var("server").(interface{ GetSource() any })
		mux, _ := sv.GetSource().(*http.ServeMux)
		rec := httptest.NewRecorder()
		var pan any
		func() {
			defer func() { pan = recover() }()
			mux.ServeHTTP(rec, httptest.NewRequest("GET", "/m", nil))
		}()
		restore()
		got := strings.Split(strings.TrimSuffix(out.String(), ";"), ";")
		if pan != nil {
			rep.Add(kf.Mismatch{ID: id, Expected: mc.Trace, Observed: fmt.Sprint(pan), ObsKey: "panic", Input: src.String()})
			continue
		}
		if jsonStr(got) != jsonStr(mc.Trace) || rec.Body.String() != "ok" {
			rep.Add(kf.Mismatch{ID: id, Expected: mc.Trace, Observed: got, ObsKey: strings.Join(got, ","), Input: src.String()})
		}
	}
	rep.Coverage["middleware_stacks"] = n
	rep.Coverage["middleware_stacks_with_ties"] = ties
	if n == 0 {
		rep.Infraf("Middleware spec produced no CASE")
	}
}

type mwGroupCase struct {
	Reg []struct {
		Owner string
		Pri   int
	}
	Scope    string
	Stop     int
	StopKind string
	Order    []int
	Trace    []string
	Status   int
}

// c13Groups replays spec/MiddlewareGroups.tla: route groups see the root's and their own middlewares only, and a
// middleware that answers by itself (closure or class instance) decides the status the client gets.
func c13Groups(c *Ctx, rep *kf.Report) {
	res := runTLC(rep, tlc.Run{SpecDir: c.SpecDir(), Module: "MiddlewareGroups", Cfg: "MiddlewareGroups.cfg", Workers: 4, Timeout: 10 * time.Minute})
	if res == nil {
		return
	}
	addTLC(rep, res)
	if res.Violated != "" {
		rep.Infraf("spec MiddlewareGroups: %s violated\n%s", res.Violated, res.Tail(30))
		return
	}
	all := res.Tagged["CASE"]
	step := c.Pick(4, 1)
	n, stops, grouped := 0, 0, 0
	for ci := int(c.Seed) % step; ci < len(all); ci += step {
		var mc mwGroupCase
		must(json.Unmarshal(all[ci], &mc))
		n++
		stopper := 0
		if mc.Stop > 0 {
			stopper = mc.Order[mc.Stop-1]
			stops++
		}
		var src strings.Builder
		src.WriteString("use Net\\Http\\Server;\n$server = new Server('127.0.0.1', 0);\n")
		mw := func(i int, target string, pri int) {
			kind := []string{"closure", "class"}[(i+int(c.Seed))%2]
			body := fmt.Sprintf("echo 'pre%d;'; $next($request, $response); echo 'post%d;';", i, i)
			if i == stopper {
				kind = mc.StopKind
				body = fmt.Sprintf("echo 'pre%d;'; $response->header('X-Stop', '%d'); $response->status(403); echo 'post%d;'; return null;", i, i, i)
			}
			if kind == "closure" {
				fmt.Fprintf(&src, "%s->middleware(function ($request, $response, $next) { %s }, %d);\n", target, body, pri)
			} else {
				fmt.Fprintf(&src, "class G%d {\n  public function handle($request, $response, $next) { %s }\n}\n%s->middleware(new G%d(), %d);\n", i, body, target, i, pri)
			}
		}
		groupsMade := false
		for i, e := range mc.Reg {
			target := "$server"
			if e.Owner != "root" {
				if !groupsMade {
					src.WriteString("$gA = $server->group('/a');\n$gB = $server->group('/b');\n")
					groupsMade = true
				}
				target = "$g" + e.Owner
				grouped++
			}
			mw(i+1, target, e.Pri)
		}
		if !groupsMade {
			src.WriteString("$gA = $server->group('/a');\n$gB = $server->group('/b');\n")
		}
		h := "function ($req, $res) { echo 'h0;'; $res->status(201); $res->write('ok'); }"
		fmt.Fprintf(&src, "$gA->get('/m', %s);\n$gB->get('/m', %s);\n$server->get('/m', %s);\n", h, h, h)
		path := map[string]string{"root": "/m", "A": "/a/m", "B": "/b/m"}[mc.Scope]
		var regs []string
		for _, e := range mc.Reg {
			regs = append(regs, fmt.Sprintf("%s%d", e.Owner, e.Pri))
		}
		id := fmt.Sprintf("C13/groups/scope=%s/stop=%d:%s/reg=%s", mc.Scope, mc.Stop, mc.StopKind, strings.Join(regs, ","))
		sess := rt.NewSession()
		var out strings.Builder
		restore := swapOutput(&out)
		r := sess.Exec(src.String(), "/verif-virtual/c13groups.zy")
		if r.ParseErr != "" || r.Uncaught != "" || r.Panic != "" {
			restore()
			rep.Add(kf.Mismatch{ID: id, Expected: "registration succeeds", Observed: r, ObsKey: "setup-failed", Input: src.String()})
			continue
		}
		sv, _ := sess.Var("server").(interface{ GetSource() any })
		mux, _ := sv.GetSource().(*http.ServeMux)
		rec := httptest.NewRecorder()
		var pan any
		func() {
			defer func() { pan = recover() }()
			mux.ServeHTTP(rec, httptest.NewRequest("GET", path, nil))
		}()
		restore()
		got := strings.Split(strings.TrimSuffix(out.String(), ";"), ";")
		if pan != nil {
			rep.Add(kf.Mismatch{ID: id, Expected: mc.Trace, Observed: fmt.Sprint(pan), ObsKey: "panic", Input: src.String()})
			continue
		}
		wantBody, wantStop := "ok", ""
		if mc.Stop > 0 {
			wantBody, wantStop = "", fmt.Sprint(stopper)
		}
		if jsonStr(got) != jsonStr(mc.Trace) {
			rep.Add(kf.Mismatch{ID: id, Expected: mc.Trace, Observed: got, ObsKey: "order:" + strings.Join(got, ","), Input: src.String()})
			continue
		}
		if rec.Code != mc.Status || rec.Body.String() != wantBody || rec.Header().Get("X-Stop") != wantStop {
			rep.Add(kf.Mismatch{ID: id, Expected: map[string]any{"status": mc.Status, "body": wantBody, "X-Stop": wantStop},
				Observed: map[string]any{"status": rec.Code, "body": rec.Body.String(), "X-Stop": rec.Header().Get("X-Stop")}, ObsKey: fmt.Sprintf("status=%d", rec.Code), Input: src.String()})
		}
	}
	rep.Coverage["middleware_group_scenarios"] = n
	rep.Coverage["middleware_group_scenarios_with_self_answer"] = stops
	rep.Coverage["middleware_group_registrations"] = grouped
	if n == 0 {
		rep.Infraf("MiddlewareGroups spec produced no CASE")
	}
}
