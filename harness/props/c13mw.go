package props

import (
	"encoding/json"
	"fmt"
	"net/http"
	"net/http/httptest"
	"strings"

	"verif/kf"
	"verif/rt"
	"verif/tlc"
)

type mwCase struct {
	Reg   []int    `json:"reg"`
	Late  int      `json:"late"`
	Order []int    `json:"order"`
	Trace []string `json:"trace"`
}

// c13Middleware replays every terminal behaviour of spec/Middleware.tla on a real Server.
func c13Middleware(c *Ctx, rep *kf.Report, _ *rt.Session) {
	maxMw := c.Pick(4, 5)
	res := runTLC(rep, tlc.Run{SpecDir: c.SpecDir(), Module: "Middleware", Cfg: "Middleware.cfg",
		Consts: map[string]string{"MAXMW": fmt.Sprint(maxMw)}})
	if res == nil {
		return
	}
	addTLC(rep, res)
	if res.Violated != "" {
		rep.Infraf("spec Middleware: %s violated\n%s", res.Violated, res.Tail(30))
		return
	}
	n, ties := 0, 0
	for _, raw := range res.Tagged["CASE"] {
		var mc mwCase
		must(json.Unmarshal(raw, &mc))
		n++
		var src strings.Builder
		src.WriteString("use Net\\Http\\Server;\n$server = new Server('127.0.0.1', 0);\n")
		mw := func(i, pri int) {
			// alternate closures and handle() classes; omit the priority argument for 0 on even indexes
			if (i+int(c.Seed))%2 == 0 {
				fmt.Fprintf(&src, "$server->middleware(function ($req, $res, $next) { echo 'pre%d;'; $next($req, $res); echo 'post%d;'; }", i, i)
			} else {
				fmt.Fprintf(&src, "class M%d { public function handle($request, $response, $next) { echo 'pre%d;'; $next($request, $response); echo 'post%d;'; } }\n$server->middleware(new M%d()", i, i, i, i)
			}
			if pri == 0 && i%2 == 0 {
				src.WriteString(");\n")
			} else {
				fmt.Fprintf(&src, ", %d);\n", pri)
			}
		}
		for i, p := range mc.Reg {
			mw(i+1, p)
		}
		src.WriteString("$server->get('/m', function ($req, $res) { echo 'h0;'; $res->write('ok'); });\n")
		if mc.Late > 0 {
			mw(99, -1)
		}
		id := fmt.Sprintf("C13/mw=%s/late=%d", strings.ReplaceAll(strings.Trim(fmt.Sprint(mc.Reg), "[]"), " ", ","), mc.Late)
		seen := map[int]bool{}
		for _, p := range mc.Reg {
			if seen[p] {
				ties++
				break
			}
			seen[p] = true
		}
		sess := rt.NewSession()
		var out strings.Builder
		restore := swapOutput(&out)
		r := sess.Exec(src.String(), "/verif-virtual/c13mw.zy")
		if r.ParseErr != "" || r.Uncaught != "" || r.Panic != "" {
			restore()
			rep.Add(kf.Mismatch{ID: id, Expected: "registration succeeds", Observed: r, ObsKey: "setup-failed", Input: src.String()})
			continue
		}
		sv, _ := sess.Var("server").(interface{ GetSource() any })
		mux, _ := sv.GetSource().(*http.ServeMux)
		rec := httptest.NewRecorder()
		var pan any
		func() {
			defer func() { pan = recover() }()
			mux.ServeHTTP(rec, httptest.NewRequest("GET", "/m", nil))
		}()
		restore()
		got := strings.Split(strings.TrimSuffix(out.String(), ";"), ";")
		if pan != nil {
			rep.Add(kf.Mismatch{ID: id, Expected: mc.Trace, Observed: fmt.Sprint(pan), ObsKey: "panic", Input: src.String()})
			continue
		}
		if jsonStr(got) != jsonStr(mc.Trace) || rec.Body.String() != "ok" {
			rep.Add(kf.Mismatch{ID: id, Expected: mc.Trace, Observed: got, ObsKey: strings.Join(got, ","), Input: src.String()})
		}
	}
	rep.Coverage["middleware_stacks"] = n
	rep.Coverage["middleware_stacks_with_ties"] = ties
	if n == 0 {
		rep.Infraf("Middleware spec produced no CASE")
	}
}
