package props

import (
	"encoding/json"
	"fmt"
	"strings"

	"verif/kf"
	"verif/rt"
	"verif/tlc"
)

func init() { Registry["C08"] = C08 }

type c08Case struct {
	Aspect       string
	Ext          []int
	Iext         [][]int
	Impl         [][]int
	Defs         []int
	Prov         [][]int
	Decl         []int
	Subc         [][]int
	Subi         [][]int
	Nearest      []int
	HasParentDef []int
	ViaParent    []int
	ChainDefs    [][]int
	Like         []int
	LikeOwn      []int
}

func (k c08Case) code() string {
	return fmt.Sprintf("e%v.x%v.i%v.d%v.p%v.q%v", k.Ext, k.Iext, k.Impl, k.Defs, k.Prov, k.Decl)
}

func compact(s string) string {
	return strings.NewReplacer(" ", "", "[", "", "]", "").Replace(s)
}

type c08Names struct{ c, i string } // name prefixes

func (n c08Names) C(k int) string { return fmt.Sprintf("%s%d", n.c, k) }
func (n c08Names) I(k int) string { return fmt.Sprintf("%s%d", n.i, k) }

// c08Script renders one hierarchy and the queries of its aspect; every query prints one token.
func c08Script(k c08Case, nm c08Names, ns string) (string, []string) {
	var sb strings.Builder
	var labels []string
	if ns != "" {
		fmt.Fprintf(&sb, "namespace %s;\n", ns)
	}
	nc := len(k.Ext)
	ni := 0
	if len(k.Subi) > 0 {
		ni = len(k.Subi[0])
	}
	switch k.Aspect {
	case "sub":
		for i := 1; i <= ni; i++ {
			var ps []string
			for _, e := range k.Iext {
				if e[0] == i {
					ps = append(ps, nm.I(e[1]))
				}
			}
			fmt.Fprintf(&sb, "interface %s", nm.I(i))
			if len(ps) > 0 {
				fmt.Fprintf(&sb, " extends %s", strings.Join(ps, ", "))
			}
			sb.WriteString(" {}\n")
		}
		for c := 1; c <= nc; c++ {
			parent := "\\Exception"
			if k.Ext[c-1] != 0 {
				parent = nm.C(k.Ext[c-1])
			}
			var is []string
			for _, e := range k.Impl {
				if e[0] == c {
					is = append(is, nm.I(e[1]))
				}
			}
			fmt.Fprintf(&sb, "class %s extends %s", nm.C(c), parent)
			if len(is) > 0 {
				fmt.Fprintf(&sb, " implements %s", strings.Join(is, ", "))
			}
			sb.WriteString(" {}\n")
		}
		var types []string
		for c := 1; c <= nc; c++ {
			types = append(types, nm.C(c))
		}
		for i := 1; i <= ni; i++ {
			types = append(types, nm.I(i))
		}
		for _, t := range types {
			fmt.Fprintf(&sb, "function h%s(%s $x) { return 1; }\n", t, t)
		}
		for c := 1; c <= nc; c++ {
			fmt.Fprintf(&sb, "$o = new %s(\"m\");\n", nm.C(c))
			for _, t := range types {
				fmt.Fprintf(&sb, "echo ($o instanceof %s) ? \"1;\" : \"0;\";\n", t)
				labels = append(labels, fmt.Sprintf("instanceof/o=%d/t=%s", c, t))
				fmt.Fprintf(&sb, "try { h%s($o); echo \"1;\"; } catch (\\Throwable $e) { echo \"0;\"; }\n", t)
				labels = append(labels, fmt.Sprintf("hint/o=%d/t=%s", c, t))
				fmt.Fprintf(&sb, "try { throw new %s(\"m\"); } catch (%s $e) { echo \"1;\"; } catch (\\Throwable $e) { echo \"0;\"; }\n", nm.C(c), t)
				labels = append(labels, fmt.Sprintf("catch/o=%d/t=%s", c, t))
			}
		}
	case "dispatch":
		for c := 1; c <= nc; c++ {
			fmt.Fprintf(&sb, "class %s", nm.C(c))
			if k.Ext[c-1] != 0 {
				fmt.Fprintf(&sb, " extends %s", nm.C(k.Ext[c-1]))
			}
			fmt.Fprintf(&sb, " {\n  public static function name() { return \"%s\"; }\n", nm.C(c))
			if k.Defs[c-1] == 1 {
				fmt.Fprintf(&sb, "  public function who() { return \"who@%s\"; }\n", nm.C(c))
				sb.WriteString("  public function viaSelf() { return self::name(); }\n")
				sb.WriteString("  public function viaStatic() { return static::name(); }\n")
				sb.WriteString("  public function selfClass() { return self::class; }\n")
				sb.WriteString("  public function staticClass() { return static::class; }\n")
				// the same bindings when the method is entered through a static call C::m()
				sb.WriteString("  public static function sViaSelf() { return self::name(); }\n")
				sb.WriteString("  public static function sViaStatic() { return static::name(); }\n")
				sb.WriteString("  public static function sSelfClass() { return self::class; }\n")
				sb.WriteString("  public static function sStaticClass() { return static::class; }\n")
				sb.WriteString("  public static function sNewSelf() { return get_class(new self()); }\n")
				sb.WriteString("  public static function sNewStatic() { return get_class(new static()); }\n")
				sb.WriteString("  public function newStatic() { return get_class(new static()); }\n")
				// static:: reaching a method that is itself inherited from further up and binds late again
				sb.WriteString("  public static function relay() { return static::name(); }\n")
				sb.WriteString("  public function viaRelay() { return static::relay(); }\n")
				sb.WriteString("  public static function sViaRelay() { return static::relay(); }\n")
				if k.HasParentDef[c-1] == 1 {
					sb.WriteString("  public function viaParent() { return parent::who(); }\n")
					fmt.Fprintf(&sb, "  public function chain() { return \"%s>\" . parent::chain(); }\n", nm.C(c))
				} else {
					fmt.Fprintf(&sb, "  public function chain() { return \"%s>\"; }\n", nm.C(c))
				}
			}
			sb.WriteString("}\n")
		}
		for c := 1; c <= nc; c++ {
			fmt.Fprintf(&sb, "$o = new %s();\n", nm.C(c))
			for _, m := range []string{"who", "viaSelf", "viaStatic", "selfClass", "staticClass", "viaParent", "chain"} {
				fmt.Fprintf(&sb, "try { echo $o->%s() . \";\"; } catch (\\Throwable $e) { echo \"undef;\"; }\n", m)
				labels = append(labels, fmt.Sprintf("%s/o=%d", m, c))
			}
			fmt.Fprintf(&sb, "try { echo $o->newStatic() . \";\"; } catch (\\Throwable $e) { echo \"undef;\"; }\n")
			labels = append(labels, fmt.Sprintf("newStatic/o=%d", c))
			fmt.Fprintf(&sb, "try { echo $o->viaRelay() . \";\"; } catch (\\Throwable $e) { echo \"undef;\"; }\n")
			labels = append(labels, fmt.Sprintf("viaRelay/o=%d", c))
			fmt.Fprintf(&sb, "try { echo %s::sViaRelay() . \";\"; } catch (\\Throwable $e) { echo \"undef;\"; }\n", nm.C(c))
			labels = append(labels, fmt.Sprintf("sViaRelay/o=%d", c))
			for _, m := range []string{"sViaSelf", "sViaStatic", "sSelfClass", "sStaticClass", "sNewSelf", "sNewStatic"} {
				fmt.Fprintf(&sb, "try { echo %s::%s() . \";\"; } catch (\\Throwable $e) { echo \"undef;\"; }\n", nm.C(c), m)
				labels = append(labels, fmt.Sprintf("%s/o=%d", m, c))
			}
		}
	case "like":
		sb.WriteString("interface " + nm.I(1) + " {")
		for m, a := range k.Decl {
			if a >= 0 {
				fmt.Fprintf(&sb, " public function m%d(%s);", m+1, []string{"", "$a"}[a])
			}
		}
		sb.WriteString(" }\n")
		for c := 1; c <= nc; c++ {
			fmt.Fprintf(&sb, "class %s", nm.C(c))
			if k.Ext[c-1] != 0 {
				fmt.Fprintf(&sb, " extends %s", nm.C(k.Ext[c-1]))
			}
			for _, e := range k.Impl {
				if e[0] == c {
					fmt.Fprintf(&sb, " implements %s", nm.I(1))
				}
			}
			sb.WriteString(" {")
			for m, a := range k.Prov[c-1] {
				if a >= 0 {
					fmt.Fprintf(&sb, " public function m%d(%s) { return %d; }", m+1, []string{"", "$a"}[a], c)
				}
			}
			sb.WriteString(" }\n")
		}
		for c := 1; c <= nc; c++ {
			fmt.Fprintf(&sb, "$o = new %s();\necho ($o like %s) ? \"1;\" : \"0;\";\n", nm.C(c), nm.I(1))
			labels = append(labels, fmt.Sprintf("like/o=%d", c))
		}
	}
	return sb.String(), labels
}

func c08Expected(k c08Case, nm c08Names, ns string) []string {
	var exp []string
	nsp := ""
	if ns != "" {
		nsp = ns + "\\"
	}
	nc := len(k.Ext)
	switch k.Aspect {
	case "sub":
		ni := len(k.Subi[0])
		for c := 0; c < nc; c++ {
			for d := 0; d < nc; d++ {
				v := fmt.Sprint(k.Subc[c][d])
				exp = append(exp, v, v, v)
			}
			for i := 0; i < ni; i++ {
				v := fmt.Sprint(k.Subi[c][i])
				exp = append(exp, v, v, v)
			}
		}
	case "dispatch":
		for c := 0; c < nc; c++ {
			n := k.Nearest[c]
			if n == 0 {
				exp = append(exp, "undef", "undef", "undef", "undef", "undef", "undef", "undef", "undef", "undef", "undef", "undef", "undef", "undef", "undef", "undef", "undef")
				continue
			}
			exp = append(exp, "who@"+nm.C(n), nm.C(n), nm.C(c+1), nsp+nm.C(n), nsp+nm.C(c+1))
			if k.ViaParent[c] == 0 {
				exp = append(exp, "undef")
			} else {
				exp = append(exp, "who@"+nm.C(k.ViaParent[c]))
			}
			chain := ""
			for _, d := range k.ChainDefs[c] {
				chain += nm.C(d) + ">"
			}
			exp = append(exp, chain)
			// newStatic (instance entry), then the static entries: self binds to the definer n, static to the called class c
			exp = append(exp, nsp+nm.C(c+1), nm.C(c+1), nm.C(c+1), nm.C(n), nm.C(c+1), nsp+nm.C(n), nsp+nm.C(c+1), nsp+nm.C(n), nsp+nm.C(c+1))
		}
	case "like":
		for c := 0; c < nc; c++ {
			exp = append(exp, fmt.Sprint(k.Like[c]))
		}
	}
	return exp
}

// C08 replays every hierarchy of the Hierarchy spec as a script printing its truth tables.
func C08(c *Ctx) *kf.Report {
	rep := &kf.Report{Property: "C08", Level: "model_checking", Coverage: map[string]any{}}
	rep.Assumptions = []string{
		"classes of the subtype aspect extend \\Exception so that the same fixture serves instanceof, typed parameters and catch",
		"dispatch fixture: every class has static name(); definers have who(), viaSelf() {self::name()}, viaStatic() {static::name()}, selfClass() {self::class}, staticClass() {static::class}, viaParent() {parent::who()}, chain() {name . parent::chain()}, newStatic() {get_class(new static())} and the static entries sViaSelf / sViaStatic / sSelfClass / sStaticClass / sNewSelf / sNewStatic called as C::m() on every class",
		"`like` is queried against an interface without parents declaring 1..2 methods of arity 0/1",
	}
	type cfg struct {
		aspect string
		nc, ni int
	}
	cfgs := []cfg{{"sub", 2, 2}, {"sub", 3, 2}, {"sub", 2, 3}, {"sub", 1, 4}, {"dispatch", 4, 1}, {"like", 2, 1}}
	if c.Thorough() {
		cfgs = []cfg{{"sub", 3, 2}, {"sub", 3, 3}, {"sub", 4, 2}, {"sub", 2, 4}, {"dispatch", 5, 1}, {"like", 3, 1}}
	}
	nm := c08Names{c: "K" + string(rune('a'+c.Seed%26)), i: "J" + string(rune('a'+(c.Seed/26)%26))}
	cases, queries := 0, 0
	nontrivial := map[string]bool{}
	var samples []any
	for _, cf := range cfgs {
		res := runTLC(rep, tlc.Run{SpecDir: c.SpecDir(), Module: "Hierarchy", Cfg: "Hierarchy.cfg",
			Consts: map[string]string{"NC": fmt.Sprint(cf.nc), "NI": fmt.Sprint(cf.ni), "ASPECT": cf.aspect}})
		if res == nil {
			return rep
		}
		addTLC(rep, res)
		if res.Violated != "" {
			rep.Infraf("spec Hierarchy (%v): %s violated\n%s", cf, res.Violated, res.Tail(30))
			return rep
		}
		all := res.Tagged["CASE"]
		// large families are sampled in the quick tier
		step := 1
		if !c.Thorough() && len(all) > 1200 {
			step = len(all)/1200 + 1
		}
		for idx := int(c.Seed) % step; idx < len(all); idx += step {
			var k c08Case
			must(json.Unmarshal(all[idx], &k))
			cases++
			ns := ""
			if cases%2 == 0 {
				ns = "ns" + fmt.Sprint(c.Seed%7)
			}
			src, labels := c08Script(k, nm, ns)
			r := rt.Run(src, rt.Opts{})
			hid := compact(k.code())
			if r.ParseErr != "" || r.Panic != "" || r.Uncaught != "" {
				rep.Add(kf.Mismatch{ID: "C08/aspect=" + k.Aspect + "/kind=script-failed", Expected: "script runs", Observed: r, ObsKey: "failed", Input: src})
				continue
			}
			got := strings.Split(strings.TrimSuffix(r.Out, ";"), ";")
			exp := c08Expected(k, nm, ns)
			if len(got) != len(exp) || len(exp) != len(labels) {
				rep.Add(kf.Mismatch{ID: "C08/aspect=" + k.Aspect + "/kind=shape", Expected: len(exp), Observed: len(got), ObsKey: "shape", Input: src, Detail: r.Out})
				continue
			}
			interesting := false
			for i := range exp {
				queries++
				if exp[i] == "1" && strings.Contains(labels[i], "/t="+nm.i) {
					interesting = true // an interface reached through the hierarchy
				}
				if strings.HasPrefix(labels[i], "viaParent") && exp[i] != "undef" {
					interesting = true
				}
				if got[i] == exp[i] {
					continue
				}
				q := strings.SplitN(labels[i], "/", 2)[0]
				id := fmt.Sprintf("C08/q=%s/h=%s/%s", q, hid, labels[i])
				if q == "selfClass" || q == "sSelfClass" {
					o := 0
					fmt.Sscanf(labels[i], q+"/o=%d", &o)
					nsp := ""
					if ns != "" {
						nsp = ns + "\\"
					}
					if got[i] == nsp+nm.C(o) { // the runtime class instead of the defining class
						id = "C08/q=selfClass/deviation=self-class-is-runtime-class"
					}
				}
				if q == "like" {
					o := 0
					fmt.Sscanf(labels[i], "like/o=%d", &o)
					if fmt.Sprint(k.LikeOwn[o-1]) == got[i] {
						id = "C08/q=like/deviation=like-own-methods-only"
					}
				}
				rep.Add(kf.Mismatch{ID: id, Expected: exp[i], Observed: got[i], ObsKey: got[i], Input: src, Detail: map[string]any{"query": labels[i], "hierarchy": k}})
			}
			if interesting {
				nontrivial[hid+k.Aspect] = true
			}
			if len(samples) < 3 && interesting && cases%97 == 0 {
				samples = append(samples, map[string]any{"aspect": k.Aspect, "script": src, "out": r.Out})
			}
		}
	}
	rep.Coverage["traces_validated_against_impl"] = cases
	rep.Coverage["evaluations"] = queries
	rep.Coverage["distinct_nontrivial"] = len(nontrivial)
	rep.Coverage["exhaustive"] = c.Thorough()
	rep.Coverage["rule"] = "every hierarchy TLC enumerates as an initial state (sub: classes x interfaces with arbitrary extends/implements edges; dispatch: extends x definer sets; like: extends x method provisions x declaration) rendered as one script that prints the instanceof/typed-parameter/catch tables, the dispatch results and the like verdicts; non-trivial = hierarchies where an interface is reached through the hierarchy or parent:: resolves"
	if len(samples) == 0 {
		samples = append(samples, "none")
	}
	rep.Coverage["samples"] = samples
	return rep
}
