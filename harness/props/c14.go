package props

import (
	"bytes"
	"encoding/hex"
	"encoding/json"
	"fmt"
	"math"
	"strconv"
	"strings"
	"time"

	pwstd "github.com/php-any/origami/std/protowire"
	"google.golang.org/protobuf/encoding/protowire"

	"verif/kf"
	"verif/tlc"
)

func init() { Registry["C14"] = C14 }

// ---------------------------------------------------------------- protowire

type c14Verdict struct {
	Family   string
	Input    []string
	Maxdepth int
	Accept   bool
	Why      string
	Out      []string
}

// c14Bytes concretises a token stream (see Protowire.tla) to wire bytes.
func c14Bytes(toks []string) []byte {
	var rec func(i int) ([]byte, int)
	rec = func(i int) ([]byte, int) {
		var b []byte
		for i < len(toks) {
			switch toks[i] {
			case "V":
				b = protowire.AppendTag(b, 1, protowire.VarintType)
				b = protowire.AppendVarint(b, 150)
			case "F32":
				b = protowire.AppendTag(b, 2, protowire.Fixed32Type)
				b = protowire.AppendFixed32(b, 0xdeadbeef)
			case "F64":
				b = protowire.AppendTag(b, 3, protowire.Fixed64Type)
				b = protowire.AppendFixed64(b, 0x1122334455667788)
			case "L":
				b = protowire.AppendTag(b, 4, protowire.BytesType)
				b = protowire.AppendBytes(b, []byte("ab"))
			case "P":
				b = protowire.AppendTag(b, 6, protowire.BytesType)
				b = protowire.AppendBytes(b, protowire.AppendVarint(protowire.AppendVarint(nil, 1), 300))
			case "P32":
				b = protowire.AppendTag(b, 10, protowire.BytesType)
				b = protowire.AppendBytes(b, protowire.AppendFixed32(protowire.AppendFixed32(nil, 10), 0xcafe0001))
			case "P64":
				b = protowire.AppendTag(b, 11, protowire.BytesType)
				b = protowire.AppendBytes(b, protowire.AppendFixed64(protowire.AppendFixed64(nil, 20), 0xcafe000000000002))
			case "P0":
				b = protowire.AppendTag(b, 10, protowire.BytesType)
				b = protowire.AppendBytes(b, nil)
			case "Pcut":
				b = protowire.AppendTag(b, 6, protowire.BytesType)
				b = protowire.AppendBytes(b, append(protowire.AppendVarint(nil, 1), 0xac))
			case "P32cut":
				b = protowire.AppendTag(b, 10, protowire.BytesType)
				b = protowire.AppendBytes(b, append(protowire.AppendFixed32(nil, 10), 0x01, 0x02))
			case "P64cut":
				b = protowire.AppendTag(b, 11, protowire.BytesType)
				b = protowire.AppendBytes(b, append(protowire.AppendFixed64(nil, 20), 0x01, 0x02, 0x03, 0x04))
			case "Vover":
				b = protowire.AppendTag(b, 1, protowire.VarintType)
				b = append(b, 0xff, 0xff, 0xff, 0xff, 0xff, 0xff, 0xff, 0xff, 0xff, 0x7f)
			case "Tag0":
				b = append(b, 0x00)
			case "WT6":
				b = append(b, byte(9<<3|6))
			case "G(":
				b = protowire.AppendTag(b, 7, protowire.StartGroupType)
			case "EG7":
				b = protowire.AppendTag(b, 7, protowire.EndGroupType)
			case "EG8":
				b = protowire.AppendTag(b, 8, protowire.EndGroupType)
			case "Vtrunc":
				b = protowire.AppendTag(b, 1, protowire.VarintType)
				b = append(b, 0x80)
			case "Lover":
				b = protowire.AppendTag(b, 4, protowire.BytesType)
				b = protowire.AppendVarint(b, 5)
				b = append(b, 'a')
			case "M(":
				inner, j := rec(i + 1)
				b = protowire.AppendTag(b, 5, protowire.BytesType)
				b = protowire.AppendBytes(b, inner)
				i = j // at ")M"
			case ")M":
				return b, i
			}
			i++
		}
		return b, i
	}
	b, _ := rec(0)
	return b
}

func c14Opts(maxDepth int) *pwstd.ParseOptions {
	return &pwstd.ParseOptions{MessageFields: map[int32]bool{5: true}, PackedFields: map[int32]bool{6: true, 10: true, 11: true},
		PackedElementType: map[int32]int32{6: pwstd.WireVarint, 10: pwstd.WireFixed32, 11: pwstd.WireFixed64}, MaxDepth: maxDepth}
}

// c14Flatten renders a parsed field tree as the token stream of Protowire.tla's out variable; wrong values are flagged.
func c14Flatten(fs []pwstd.Field, out *[]string, bad *[]string) {
	for _, f := range fs {
		switch f.Number {
		case 1:
			*out = append(*out, "V")
			if v, ok := f.Value.(uint64); !ok || v != 150 {
				*bad = append(*bad, fmt.Sprintf("V=%v", f.Value))
			}
		case 2:
			*out = append(*out, "F32")
			if v, ok := f.Value.(uint32); !ok || v != 0xdeadbeef {
				*bad = append(*bad, fmt.Sprintf("F32=%v", f.Value))
			}
		case 3:
			*out = append(*out, "F64")
			if v, ok := f.Value.(uint64); !ok || v != 0x1122334455667788 {
				*bad = append(*bad, fmt.Sprintf("F64=%v", f.Value))
			}
		case 4:
			*out = append(*out, "L")
			if v, ok := f.Value.([]byte); !ok || string(v) != "ab" {
				*bad = append(*bad, fmt.Sprintf("L=%v", f.Value))
			}
		case 6:
			*out = append(*out, "P")
			if v, ok := f.Value.([]uint64); !ok || len(v) != 2 || v[0] != 1 || v[1] != 300 {
				*bad = append(*bad, fmt.Sprintf("P=%v", f.Value))
			}
		case 10:
			v, ok := f.Value.([]uint32)
			if ok && len(v) == 0 {
				*out = append(*out, "P0")
				break
			}
			*out = append(*out, "P32")
			if !ok || len(v) != 2 || v[0] != 10 || v[1] != 0xcafe0001 {
				*bad = append(*bad, fmt.Sprintf("P32=%v", f.Value))
			}
		case 11:
			*out = append(*out, "P64")
			if v, ok := f.Value.([]uint64); !ok || len(v) != 2 || v[0] != 20 || v[1] != 0xcafe000000000002 {
				*bad = append(*bad, fmt.Sprintf("P64=%v", f.Value))
			}
		case 5:
			*out = append(*out, "M(")
			inner, _ := f.Value.([]pwstd.Field)
			c14Flatten(inner, out, bad)
			*out = append(*out, ")M")
		case 7:
			*out = append(*out, "G(")
			inner, _ := f.Value.([]pwstd.Field)
			c14Flatten(inner, out, bad)
			*out = append(*out, "G)")
		default:
			*out = append(*out, fmt.Sprintf("?%d", f.Number))
		}
	}
}

func c14Short(toks []string) string {
	s := strings.Join(toks, " ")
	if len(toks) > 14 {
		g, m := 0, 0
		for _, t := range toks {
			if t == "G(" {
				g++
			}
			if t == "M(" {
				m++
			}
		}
		s = fmt.Sprintf("chain(groups=%d,messages=%d)", g, m)
	}
	return strings.NewReplacer("(", "[", ")", "]", "*", "x", "/", "-").Replace(s)
}

func c14Protowire(c *Ctx, rep *kf.Report) (int, int, bool) {
	checked, rejects := 0, 0
	type fam struct{ name, depths string }
	fams := []fam{{"flat", "{1,2,3}"}, {"packed", "{2,3}"}, {"chains", "{1,2,3,4,5,64,70}"}, {"nested", c14pick(c, "{2,3}", "{1,2,3,4,64}")}}
	var scriptJobs []Job
	var scriptRef []c14Verdict
	for _, f := range fams {
		res := runTLC(rep, tlc.Run{SpecDir: c.SpecDir(), Module: "Protowire", Cfg: "Protowire.cfg", Workers: 8, Timeout: 15 * time.Minute,
			Consts: map[string]string{"FAMILY": f.name, "DEPTHS": f.depths, "DEV": "{}", "EMIT": "TRUE"}})
		if res == nil {
			return 0, 0, false
		}
		addTLC(rep, res)
		if res.Violated != "" {
			rep.Infraf("spec Protowire(%s): %s violated\n%s", f.name, res.Violated, res.Tail(20))
			return 0, 0, false
		}
		for vi, raw := range res.Tagged["VERDICT"] {
			var v c14Verdict
			must(json.Unmarshal(raw, &v))
			data := c14Bytes(v.Input)
			id := fmt.Sprintf("C14/protowire/fam=%s/maxdepth=%d/input=%s", v.Family, v.Maxdepth, c14Short(v.Input))
			var fields []pwstd.Field
			var err error
			panicked := ""
			func() {
				defer func() {
					if r := recover(); r != nil {
						panicked = fmt.Sprint(r)
					}
				}()
				fields, err = pwstd.ParseRawFields(data, c14Opts(v.Maxdepth))
			}()
			checked++
			if !v.Accept {
				rejects++
			}
			in := map[string]any{"tokens": v.Input, "hex": hex.EncodeToString(data), "max_depth": v.Maxdepth}
			if panicked != "" {
				rep.Add(kf.Mismatch{ID: id + "/kind=crash", Expected: v.Why, Observed: "panic: " + panicked, ObsKey: "crash", Input: in})
				continue
			}
			if (err == nil) != v.Accept {
				obs := "accepted"
				if err != nil {
					obs = "rejected: " + err.Error()
				}
				rep.Add(kf.Mismatch{ID: id, Expected: v.Why, Observed: obs, ObsKey: strings.SplitN(obs, ":", 2)[0], Input: in})
				continue
			}
			if err == nil {
				var out, bad []string
				c14Flatten(fields, &out, &bad)
				if strings.Join(out, " ") != strings.Join(v.Out, " ") || len(bad) > 0 {
					rep.Add(kf.Mismatch{ID: id, Expected: v.Out, Observed: map[string]any{"fields": out, "wrong_values": bad}, ObsKey: "wrong-field-tree", Input: in})
				}
			}
			// the script-level API on a sample: flat and chains completely, nested every 40th
			if f.name != "nested" || vi%40 == int(c.Seed)%40 {
				if len(data) < 400 {
					scriptJobs = append(scriptJobs, Job{Src: c14ProtoScript(data, v.Maxdepth)})
					scriptRef = append(scriptRef, v)
				}
			}
		}
	}
	// script level: Protowire::parse with the same options must agree on accept / reject
	// batch the scripts (50 per job) to keep the pool busy without 10k process round trips
	var batched []Job
	var batchIdx [][]int
	for i := 0; i < len(scriptJobs); i += 50 {
		var sb strings.Builder
		var idx []int
		for j := i; j < i+50 && j < len(scriptJobs); j++ {
			sb.WriteString(strings.Replace(scriptJobs[j].Src, "K|", fmt.Sprintf("K%d|", j), -1))
			idx = append(idx, j)
		}
		batched = append(batched, Job{Src: sb.String()})
		batchIdx = append(batchIdx, idx)
	}
	rs, err := RunJobs(c.Self, batched, 0, 20*time.Second)
	if err != nil {
		rep.Infraf("pool: %v", err)
		return checked, rejects, false
	}
	scriptChecked := 0
	for bi, r := range rs {
		if r.Hang || r.Died || r.Panic != "" {
			rep.Add(kf.Mismatch{ID: "C14/protowire/script/kind=crash", Expected: "accept or catchable error", Observed: map[string]any{"hang": r.Hang, "panic": r.Panic, "stderr": tailStr(r.Stderr, 300)}, ObsKey: "crash", Input: batched[bi].Src})
			continue
		}
		got := map[string]string{}
		for _, l := range strings.Split(r.Out, "\n") {
			if f := strings.SplitN(l, "|", 2); len(f) == 2 {
				got[f[0]] = f[1]
			}
		}
		for _, j := range batchIdx[bi] {
			v := scriptRef[j]
			o := got[fmt.Sprintf("K%d", j)]
			scriptChecked++
			if (strings.HasPrefix(o, "ok")) != v.Accept {
				rep.Add(kf.Mismatch{ID: fmt.Sprintf("C14/protowire/script/fam=%s/maxdepth=%d/input=%s", v.Family, v.Maxdepth, c14Short(v.Input)), Expected: v.Why, Observed: o, ObsKey: strings.SplitN(o, ":", 2)[0], Input: scriptJobs[j].Src})
			}
		}
	}
	rep.Coverage["protowire_cases"] = checked
	rep.Coverage["protowire_script_cases"] = scriptChecked
	return checked, rejects, true
}

func c14pick(c *Ctx, q, t string) string {
	if c.Thorough() {
		return t
	}
	return q
}

func phpBytes(b []byte) string {
	var sb strings.Builder
	sb.WriteByte('"')
	for _, x := range b {
		fmt.Fprintf(&sb, "\\x%02x", x)
	}
	sb.WriteByte('"')
	return sb.String()
}

func c14ProtoScript(data []byte, maxDepth int) string {
	return fmt.Sprintf("try { $r = Protowire::parse(%s, [\"message_fields\" => [5 => true], \"packed_fields\" => [6 => true, 10 => true, 11 => true], \"packed_element_type\" => [6 => 0, 10 => 5, 11 => 1], \"max_depth\" => %d]); echo \"\\nK|ok:\", count($r), \"\\n\"; } catch (\\Throwable $e) { echo \"\\nK|rej:\", get_class($e), \"\\n\"; }\n", phpBytes(data), maxDepth)
}

// ---------------------------------------------------------------- byte codecs

type c14ByteCase struct {
	Family string
	Input  []int
	Hex    []int
	B64    []int
	Url    []int
	Rawurl []int
	Tilde  int
}

func ints2s(a []int) string {
	b := make([]byte, len(a))
	for i, x := range a {
		b[i] = byte(x)
	}
	return string(b)
}

func c14ByteCodecs(c *Ctx, rep *kf.Report) (int, bool) {
	fams := []string{"singles", "pairs", "triples"}
	if c.Thorough() {
		fams = append(fams, "pairs-all")
	}
	var cases []c14ByteCase
	for _, f := range fams {
		res := runTLC(rep, tlc.Run{SpecDir: c.SpecDir(), Module: "ByteCodecs", Cfg: "ByteCodecs.cfg", Workers: 8, Timeout: 15 * time.Minute, Consts: map[string]string{"FAMILY": f}})
		if res == nil {
			return 0, false
		}
		addTLC(rep, res)
		if res.Violated != "" {
			rep.Infraf("spec ByteCodecs(%s): %s violated\n%s", f, res.Violated, res.Tail(20))
			return 0, false
		}
		for _, raw := range res.Tagged["CASE"] {
			var k c14ByteCase
			must(json.Unmarshal(raw, &k))
			cases = append(cases, k)
		}
	}
	const per = 150
	var jobs []Job
	for i := 0; i < len(cases); i += per {
		var sb strings.Builder
		for j := i; j < i+per && j < len(cases); j++ {
			k := cases[j]
			in := make([]byte, len(k.Input))
			for x, v := range k.Input {
				in[x] = byte(v)
			}
			lowUrl := c14LowerEscapes(ints2s(k.Url)) // lower-case hex digits in escapes must decode too
			fmt.Fprintf(&sb, "$s = %s;\ntry { echo \"K%d|\", bin2hex($s), \"|\", base64_encode($s), \"|\", urlencode($s), \"|\", rawurlencode($s), \"|\", bin2hex(base64_decode('%s')), \"|\", bin2hex(urldecode('%s')), \"|\", bin2hex(rawurldecode('%s')), \"|\", bin2hex(urldecode('%s')), \"\\n\"; } catch (\\Throwable $e) { echo \"K%d|throw:\", $e->getMessage(), \"\\n\"; }\n",
				phpBytes(in), j, ints2s(k.B64), ints2s(k.Url), ints2s(k.Rawurl), lowUrl, j)
		}
		jobs = append(jobs, Job{Src: sb.String()})
	}
	rs, err := RunJobs(c.Self, jobs, 0, 30*time.Second)
	if err != nil {
		rep.Infraf("pool: %v", err)
		return 0, false
	}
	checked := 0
	normT := func(s string) string { return strings.ReplaceAll(s, "%7E", "~") }
	for ji, r := range rs {
		if r.Hang || r.Died || r.Panic != "" {
			rep.Add(kf.Mismatch{ID: "C14/bytes/kind=crash", Expected: "encodings", Observed: map[string]any{"hang": r.Hang, "panic": r.Panic, "stderr": tailStr(r.Stderr, 300)}, ObsKey: "crash", Input: tailStr(jobs[ji].Src, 2000)})
			continue
		}
		got := map[int][]string{}
		for _, l := range strings.Split(r.Out, "\n") {
			if strings.HasPrefix(l, "K") {
				f := strings.Split(l, "|")
				n, e := strconv.Atoi(f[0][1:])
				if e == nil {
					got[n] = f[1:]
				}
			}
		}
		for j := ji * per; j < (ji+1)*per && j < len(cases); j++ {
			k := cases[j]
			inHex := hex.EncodeToString([]byte(ints2s(k.Input)))
			g := got[j]
			checked++
			base := fmt.Sprintf("C14/bytes/in=%s", inHex)
			if len(g) != 8 {
				rep.Add(kf.Mismatch{ID: base + "/codec=any", Expected: "eight results", Observed: tailStr(fmt.Sprint(g)+r.ParseErr+r.Uncaught, 300), ObsKey: "no-result", Input: inHex})
				continue
			}
			exp := []struct {
				name, want string
				tilde      bool
			}{{"bin2hex", ints2s(k.Hex), false}, {"base64_encode", ints2s(k.B64), false}, {"urlencode", ints2s(k.Url), true}, {"rawurlencode", ints2s(k.Rawurl), true},
				{"base64_decode", inHex, false}, {"urldecode", inHex, false}, {"rawurldecode", inHex, false}, {"urldecode-lowercase", inHex, false}}
			if g[0] != inHex {
				// the literal did not produce the intended bytes: the encoders were fed something else
				rep.Add(kf.Mismatch{ID: base + "/codec=bin2hex", Expected: inHex, Observed: g[0], ObsKey: "wrong-output", Input: inHex})
				continue
			}
			for x, e := range exp {
				gv, wv := g[x], e.want
				if e.tilde && k.Tilde > 0 {
					gv, wv = normT(gv), normT(wv)
				}
				if gv != wv {
					rep.Add(kf.Mismatch{ID: fmt.Sprintf("%s/codec=%s", base, e.name), Expected: e.want, Observed: g[x], ObsKey: "wrong-output", Input: inHex})
				}
			}
		}
	}
	rep.Coverage["byte_codec_inputs"] = checked
	return checked, true
}

// ---------------------------------------------------------------- JSON / serialize

type c14Val struct {
	K  string
	S  string
	Ks []json.RawMessage
	Es []c14Val
}

type c14Tok struct{ T, V string }

type c14CodecCase struct {
	Family string
	Value  c14Val
	Json   []c14Tok
	Ser    []c14Tok
}

var c14Ints = map[string]string{"0": "0", "1": "1", "-1": "-1", "2^53": "9007199254740992", "-2^53": "-9007199254740992", "2^53+1": "9007199254740993",
	"max": "9223372036854775807", "min": "-9223372036854775808"}
var c14Floats = map[string]float64{"0.0": 0, "-0.0": math.Copysign(0, -1), "1.5": 1.5, "3.0": 3, "1e-7": 1e-7, "1e21": 1e21, "-2.25": -2.25}
var c14FloatLit = map[string]string{"0.0": "0.0", "-0.0": "(-0.0)", "1.5": "1.5", "3.0": "3.0", "1e-7": "0.0000001", "1e21": "1000000000000000000000.0", "-2.25": "(-2.25)"}
var c14Strs = map[string]string{"empty": "", "plain": "hello", "quote": "q\"u\\o'te", "ctl": "a\x01b\nc\td", "multibyte": "h\u00e9llo \u2713 \u4f60\u597d", "html": "</tag>&<a href='x'>", "numeric": "123", "slash": "a/b"}

var c14Keys = map[string]string{"@ctl": "k\x01\x1f\x7f", "@quote": "k\"\\'", "@mb": "\u043a\u043b\u044e\u0447\u2713", "@html": "<k&>", "@empty": ""}

func c14Key(k string) string {
	if c, ok := c14Keys[k]; ok {
		return c
	}
	return k
}

func (v c14Val) lit() string {
	switch v.K {
	case "int":
		if v.S == "min" {
			return "(-9223372036854775807 - 1)"
		}
		if strings.HasPrefix(c14Ints[v.S], "-") {
			return "(" + c14Ints[v.S] + ")"
		}
		return c14Ints[v.S]
	case "flt":
		return c14FloatLit[v.S]
	case "str":
		return phpBytes([]byte(c14Strs[v.S]))
	case "lit":
		return v.S
	}
	parts := make([]string, len(v.Es))
	for i, e := range v.Es {
		switch v.K {
		case "list":
			parts[i] = e.lit()
		case "smap":
			var k string
			json.Unmarshal(v.Ks[i], &k)
			parts[i] = fmt.Sprintf("%s => %s", phpBytes([]byte(c14Key(k))), e.lit())
		case "imap":
			parts[i] = fmt.Sprintf("%s => %s", string(v.Ks[i]), e.lit())
		}
	}
	return "[" + strings.Join(parts, ", ") + "]"
}

func (v c14Val) shape() string {
	switch v.K {
	case "int", "flt", "str", "lit":
		return v.K + ":" + v.S
	}
	parts := make([]string, len(v.Es))
	for i, e := range v.Es {
		k := ""
		if v.K != "list" {
			k = strings.Trim(string(v.Ks[i]), `"`) + "="
		}
		parts[i] = k + e.shape()
	}
	return v.K + "(" + strings.Join(parts, ",") + ")"
}

// c14JsonTokens reads a JSON text with the reference tokenizer into the token alphabet of Codec.tla (concrete values kept).
func c14JsonTokens(text []byte) ([]c14Tok, error) {
	dec := json.NewDecoder(bytes.NewReader(text))
	dec.UseNumber()
	var out []c14Tok
	type frame struct {
		obj    bool
		expKey bool
	}
	var st []frame
	for {
		t, err := dec.Token()
		if err != nil {
			if err.Error() == "EOF" {
				break
			}
			return out, err
		}
		isKey := len(st) > 0 && st[len(st)-1].obj && st[len(st)-1].expKey
		switch x := t.(type) {
		case json.Delim:
			out = append(out, c14Tok{string(x), ""})
			if x == '{' || x == '[' {
				if len(st) > 0 && st[len(st)-1].obj {
					st[len(st)-1].expKey = true
				}
				st = append(st, frame{obj: x == '{', expKey: true})
				continue
			}
			st = st[:len(st)-1]
			continue
		case string:
			if isKey {
				out = append(out, c14Tok{"key", x})
				st[len(st)-1].expKey = false
				continue
			}
			out = append(out, c14Tok{"str", x})
		case json.Number:
			out = append(out, c14Tok{"num", x.String()})
		case bool:
			out = append(out, c14Tok{"lit", fmt.Sprint(x)})
		case nil:
			out = append(out, c14Tok{"lit", "null"})
		}
		if len(st) > 0 && st[len(st)-1].obj {
			st[len(st)-1].expKey = true
		}
	}
	if dec.More() {
		return out, fmt.Errorf("trailing data")
	}
	return out, nil
}

// c14SerTokens is the reference reader of PHP's serialize format.
func c14SerTokens(b []byte) ([]c14Tok, error) {
	var out []c14Tok
	p := 0
	var val func() error
	until := func(ch byte) (string, error) {
		q := bytes.IndexByte(b[p:], ch)
		if q < 0 {
			return "", fmt.Errorf("missing %q at %d", ch, p)
		}
		s := string(b[p : p+q])
		p += q + 1
		return s, nil
	}
	val = func() error {
		if p+1 >= len(b)+0 && !(p < len(b) && b[p] == 'N') {
			return fmt.Errorf("truncated at %d", p)
		}
		switch b[p] {
		case 'N':
			if p+1 < len(b) && b[p+1] == ';' {
				p += 2
				out = append(out, c14Tok{"N", ""})
				return nil
			}
			return fmt.Errorf("bad N at %d", p)
		case 'i', 'd', 'b':
			t := string(b[p])
			if b[p+1] != ':' {
				return fmt.Errorf("bad %s at %d", t, p)
			}
			p += 2
			s, err := until(';')
			if err != nil {
				return err
			}
			out = append(out, c14Tok{t, s})
			return nil
		case 's':
			p += 2
			ls, err := until(':')
			if err != nil {
				return err
			}
			n, err := strconv.Atoi(ls)
			if err != nil || p+n+3 > len(b) || b[p] != '"' || b[p+n+1] != '"' || b[p+n+2] != ';' {
				return fmt.Errorf("bad string at %d (declared length %s)", p, ls)
			}
			out = append(out, c14Tok{"s", string(b[p+1 : p+1+n])})
			p += n + 3
			return nil
		case 'a':
			p += 2
			ls, err := until(':')
			if err != nil {
				return err
			}
			n, err := strconv.Atoi(ls)
			if err != nil || n < 0 || p >= len(b) || b[p] != '{' {
				return fmt.Errorf("bad array at %d", p)
			}
			p++
			out = append(out, c14Tok{"a", ls})
			for i := 0; i < n; i++ {
				at := len(out)
				if err := val(); err != nil {
					return err
				}
				switch out[at].T { // the key
				case "i":
					out[at].T = "ki"
				case "s":
					out[at].T = "ks"
				default:
					return fmt.Errorf("bad key kind %s", out[at].T)
				}
				if err := val(); err != nil {
					return err
				}
			}
			if p >= len(b) || b[p] != '}' {
				return fmt.Errorf("missing } at %d", p)
			}
			p++
			out = append(out, c14Tok{"}", ""})
			return nil
		}
		return fmt.Errorf("unknown type %q at %d", b[p], p)
	}
	if err := val(); err != nil {
		return out, err
	}
	if p != len(b) {
		return out, fmt.Errorf("trailing bytes after %d", p)
	}
	return out, nil
}

// c14TokMatch compares a concrete token with the spec's symbolic one.
func c14TokMatch(format string, want c14Tok, got c14Tok) bool {
	switch want.T {
	case "int", "i":
		return (got.T == "num" || got.T == "i") && got.V == c14Ints[want.V]
	case "flt", "d":
		if got.T != "num" && got.T != "d" {
			return false
		}
		f, err := strconv.ParseFloat(got.V, 64)
		return err == nil && f == c14Floats[want.V] && math.Signbit(f) == math.Signbit(c14Floats[want.V])
	case "str", "s":
		return (got.T == "str" || got.T == "s") && got.V == c14Strs[want.V]
	case "lit":
		return got.T == "lit" && got.V == want.V
	case "b":
		return got.T == "b" && got.V == map[string]string{"true": "1", "false": "0"}[want.V]
	case "ks":
		return got.T == "ks" && got.V == c14Key(want.V)
	}
	if want.T == "key" {
		return got.T == "key" && got.V == c14Key(want.V)
	}
	return got.T == want.T && got.V == want.V // delimiters, N, a:<count>, ki
}

func c14Codec(c *Ctx, rep *kf.Report) (int, bool) {
	fams := []string{"scalars", "flat", "nested"}
	if c.Thorough() {
		fams = append(fams, "deep")
	}
	var cases []c14CodecCase
	for _, f := range fams {
		res := runTLC(rep, tlc.Run{SpecDir: c.SpecDir(), Module: "Codec", Cfg: "Codec.cfg", Workers: 8, Timeout: 15 * time.Minute, Consts: map[string]string{"FAMILY": f}})
		if res == nil {
			return 0, false
		}
		addTLC(rep, res)
		if res.Violated != "" {
			rep.Infraf("spec Codec(%s): %s violated\n%s", f, res.Violated, res.Tail(20))
			return 0, false
		}
		all := res.Tagged["CASE"]
		step := 1
		if f == "nested" && !c.Thorough() {
			step = 12
		}
		for i := int(c.Seed) % step; i < len(all); i += step {
			var k c14CodecCase
			must(json.Unmarshal(all[i], &k))
			cases = append(cases, k)
		}
	}
	const per = 60
	var jobs []Job
	for i := 0; i < len(cases); i += per {
		var sb strings.Builder
		for j := i; j < i+per && j < len(cases); j++ {
			// one variable per case: assigning -0.0 to a variable that holds 0.0 is skipped by the interpreter (equal values)
			src := "try { $v = " + cases[j].Value.lit() + ";\n$j = json_encode($v); echo \"J#|\", (is_string($j) ? bin2hex($j) : \"notstring\"), \"\\n\";\n$d = json_decode($j, true); echo \"D#|\", (($d === $v) ? \"same\" : \"diff\"), \"\\n\";\n$s = serialize($v); echo \"S#|\", (is_string($s) ? bin2hex($s) : \"notstring\"), \"\\n\";\n$u = unserialize($s); echo \"U#|\", (($u === $v) ? \"same\" : \"diff\"), \"\\n\"; } catch (\\Throwable $e) { echo \"\\nE#|\", $e->getMessage(), \"\\n\"; }\n"
			src = strings.NewReplacer("$v", fmt.Sprintf("$v%d", j), "$j", fmt.Sprintf("$j%d", j), "$d", fmt.Sprintf("$d%d", j), "$s", fmt.Sprintf("$s%d", j), "$u", fmt.Sprintf("$u%d", j), "#|", fmt.Sprintf("%d|", j)).Replace(src)
			sb.WriteString(src)

		}
		jobs = append(jobs, Job{Src: sb.String()})
	}
	rs, err := RunJobs(c.Self, jobs, 0, 30*time.Second)
	if err != nil {
		rep.Infraf("pool: %v", err)
		return 0, false
	}
	checked := 0
	var decoderInputs [][]byte
	for ji, r := range rs {
		if r.Hang || r.Died || r.Panic != "" {
			rep.Add(kf.Mismatch{ID: "C14/codec/kind=crash", Expected: "encodings", Observed: map[string]any{"hang": r.Hang, "panic": r.Panic, "stderr": tailStr(r.Stderr, 300)}, ObsKey: "crash", Input: tailStr(jobs[ji].Src, 2000)})
			continue
		}
		got := map[string]string{}
		for _, l := range strings.Split(r.Out, "\n") {
			if f := strings.SplitN(l, "|", 2); len(f) == 2 {
				got[f[0]] = f[1]
			}
		}
		for j := ji * per; j < (ji+1)*per && j < len(cases); j++ {
			k := cases[j]
			shape := k.Value.shape()
			checked++
			for _, fm := range []struct {
				name, enc, dec string
				want           []c14Tok
				read           func([]byte) ([]c14Tok, error)
			}{{"json", got[fmt.Sprintf("J%d", j)], got[fmt.Sprintf("D%d", j)], k.Json, c14JsonTokens},
				{"serialize", got[fmt.Sprintf("S%d", j)], got[fmt.Sprintf("U%d", j)], k.Ser, c14SerTokens}} {
				id := fmt.Sprintf("C14/%s/value=%s", fm.name, shape)
				in := map[string]any{"value": k.Value.lit()}
				if e, ok := got[fmt.Sprintf("E%d", j)]; ok && fm.enc == "" {
					rep.Add(kf.Mismatch{ID: id + "/step=encode", Expected: "an encoding", Observed: "throws: " + e, ObsKey: "throws", Input: in})
					continue
				}
				raw, herr := hex.DecodeString(fm.enc)
				if herr != nil {
					rep.Add(kf.Mismatch{ID: id + "/step=encode", Expected: "a string", Observed: fm.enc + " " + tailStr(r.ParseErr+r.Uncaught, 200), ObsKey: "not-a-string", Input: in})
					continue
				}
				in["encoded"] = string(raw)
				toks, terr := fm.read(raw)
				ok := terr == nil && len(toks) == len(fm.want)
				for x := 0; ok && x < len(toks); x++ {
					ok = c14TokMatch(fm.name, fm.want[x], toks[x])
				}
				if !ok {
					obs := map[string]any{"text": string(raw), "tokens": toks}
					if terr != nil {
						obs["reference_reader_error"] = terr.Error()
					}
					rep.Add(kf.Mismatch{ID: id + "/step=encode", Expected: fm.want, Observed: obs, ObsKey: "reference-reads-different-value", Input: in})
					continue
				}
				if fm.name == "json" && len(decoderInputs) < 400 && j%7 == 0 {
					decoderInputs = append(decoderInputs, raw)
				}
				if fm.dec != "same" {
					rep.Add(kf.Mismatch{ID: id + "/step=decode", Expected: "decode(encode(v)) === v", Observed: fm.dec, ObsKey: "roundtrip-differs", Input: in})
				}
			}
		}
	}
	rep.Coverage["codec_values"] = checked
	// decoder totality on mutants of spec-generated JSON texts: truncation at every byte, a stray byte, trailing garbage
	var muts [][]byte
	for _, t := range decoderInputs {
		for cut := 1; cut < len(t); cut += 1 + len(t)/12 {
			muts = append(muts, t[:cut])
		}
		muts = append(muts, append(append([]byte{}, t...), ']'), append(append([]byte{}, t...), ' ', '1'), bytes.Replace(t, []byte(`"`), []byte(`\"`), 1), bytes.Replace(t, []byte(`:`), []byte(`;`), 1))
	}
	var mjobs []Job
	for i := 0; i < len(muts); i += 100 {
		var sb strings.Builder
		for j := i; j < i+100 && j < len(muts); j++ {
			fmt.Fprintf(&sb, "try { $d = json_decode(%s, true); echo \"M%d|\", (($d === null) ? \"null\" : \"value\"), \"\\n\"; } catch (\\Throwable $e) { echo \"M%d|throw\\n\"; }\n", phpBytes(muts[j]), j, j)
		}
		mjobs = append(mjobs, Job{Src: sb.String()})
	}
	mrs, err := RunJobs(c.Self, mjobs, 0, 30*time.Second)
	if err != nil {
		rep.Infraf("pool: %v", err)
		return checked, false
	}
	mchecked := 0
	for ji, r := range mrs {
		if r.Hang || r.Died || r.Panic != "" {
			rep.Add(kf.Mismatch{ID: "C14/json/decoder/kind=crash", Expected: "null or a value", Observed: map[string]any{"hang": r.Hang, "panic": r.Panic, "stderr": tailStr(r.Stderr, 300)}, ObsKey: "crash", Input: tailStr(mjobs[ji].Src, 3000)})
			continue
		}
		got := map[string]string{}
		for _, l := range strings.Split(r.Out, "\n") {
			if f := strings.SplitN(l, "|", 2); len(f) == 2 {
				got[f[0]] = f[1]
			}
		}
		for j := ji * 100; j < (ji+1)*100 && j < len(muts); j++ {
			mchecked++
			valid := json.Valid(muts[j])
			o := got[fmt.Sprintf("M%d", j)]
			isNullDoc := strings.TrimSpace(string(muts[j])) == "null"
			if valid && o != "value" && !isNullDoc {
				rep.Add(kf.Mismatch{ID: "C14/json/decoder/well-formed-rejected", Expected: "a value", Observed: o, ObsKey: "rejected", Input: string(muts[j])})
			}
			if !valid && o == "value" {
				rep.Add(kf.Mismatch{ID: "C14/json/decoder/malformed-accepted", Expected: "null (malformed: " + c14Kind(muts[j]) + ")", Observed: o, ObsKey: "accepted", Input: string(muts[j])})
			}
		}
	}
	rep.Coverage["json_decoder_mutants"] = mchecked
	return checked, true
}

func c14Kind(b []byte) string {
	var v any
	err := json.Unmarshal(b, &v)
	if err == nil {
		return "valid"
	}
	return err.Error()
}

// C14: encoders faithful, decoders total.
func C14(c *Ctx) *kf.Report {
	rep := &kf.Report{Property: "C14", Level: "model_checking", Coverage: map[string]any{}}
	rep.Assumptions = []string{
		"protowire: tokens of Protowire.tla are concretised with google.golang.org/protobuf/encoding/protowire (reference writer); ParseRawFields is called in-process, Protowire::parse through scripts on a sample",
		"byte codecs: input bytes reach the functions through \"\\xHH\" string literals; bin2hex of the input is compared with the intended bytes first, so a lexer problem is not blamed on a codec",
		"JSON / serialize: the interpreter's output is read back by Go's encoding/json tokenizer resp. a reader of PHP's serialize grammar written for this harness (trusted base) and compared token by token with the spec's stream; md5 / hash digests and the @Field annotation layer of Protowire::serialize are not decided here",
	}
	n1, rejects, ok := c14Protowire(c, rep)
	if !ok {
		return rep
	}
	n2, ok := c14ByteCodecs(c, rep)
	if !ok {
		return rep
	}
	n3, ok := c14Codec(c, rep)
	if !ok {
		return rep
	}
	n4, ok := c14Mutants(c, rep)
	if !ok {
		return rep
	}
	n3 += n4
	rep.Coverage["traces_validated_against_impl"] = n1 + n2 + n3
	sc, _ := rep.Coverage["protowire_script_cases"].(int)
	mu, _ := rep.Coverage["json_decoder_mutants"].(int)
	rep.Coverage["evaluations"] = n1 + n2 + n3 + sc + mu
	rep.Coverage["samples"] = []any{
		map[string]any{"protowire_tokens": []string{"G(", "V", "M(", "EG8", ")M", "EG7"}, "bytes": hex.EncodeToString(c14Bytes([]string{"G(", "V", "M(", "EG8", ")M", "EG7"}))},
		map[string]any{"byte_codec_input": "ff00", "script": "echo bin2hex(\"\\xff\\x00\"), base64_encode(...), urlencode(...), rawurlencode(...), decoders on the expected encodings"},
		map[string]any{"codec_value": "[\"a\" => 9007199254740993, \"b\" => [3 => 1.5]]", "checks": "json_encode / serialize read back by the reference reader token by token; decode(encode(v)) === v"},
	}
	rep.Coverage["distinct_nontrivial"] = rejects + n2 + n3
	rep.Coverage["protowire_reject_cases"] = rejects
	rep.Coverage["exhaustive"] = true
	rep.Coverage["rule"] = "Protowire.tla: every token stream of the flat (<= 3 tokens + tail), nested (messages in messages, <= 2 items) and chains (all group/message mixes to depth 5, pure chains of 62..70) families x max_depth settings is one behaviour of the push-down machine; ByteCodecs.tla: every single byte, every pair over 56 interesting bytes (thorough: all 65536 pairs), triples over 12 bytes; Codec.tla: all scalar classes, all flat containers, nested containers (quick: every 4th; thorough: all + depth 4); family mutants: the JSON and serialize token streams of 87 values damaged by one token-level mutation (truncate, drop, duplicate, extra trailing token, swapped bracket / count / key kind / string length), rendered canonically and given to json_decode (assoc and object mode) and unserialize, which must accept exactly what the spec's recognizers JsonOK / SerOK accept (cross-checked with encoding/json.Valid and the harness's serialize reader); every case is replayed on the real functions"
	return rep
}

// c14LowerEscapes lower-cases the two hex digits of every %XX escape and nothing else.
func c14LowerEscapes(s string) string {
	b := []byte(s)
	for i := 0; i+2 < len(b); i++ {
		if b[i] == '%' {
			b[i+1] = bytes.ToLower(b[i+1 : i+2])[0]
			b[i+2] = bytes.ToLower(b[i+2 : i+3])[0]
			i += 2
		}
	}
	return string(b)
}

// ---------------------------------------------------------------- decoder mutants (Codec.tla, family "mutants")

type c14Mut struct {
	Format string
	Op     string
	Ts     []c14Tok
	Ok     bool
}

func c14RenderJSON(ts []c14Tok) string {
	var sb strings.Builder
	prevEnd := false
	q := func(x string) string { b, _ := json.Marshal(x); return string(b) }
	for _, t := range ts {
		closer := t.T == "]" || t.T == "}"
		if prevEnd && !closer {
			sb.WriteByte(',')
		}
		switch t.T {
		case "[", "{":
			sb.WriteString(t.T)
			prevEnd = false
		case "]", "}":
			sb.WriteString(t.T)
			prevEnd = true
		case "key":
			sb.WriteString(q(c14Key(t.V)) + ":")
			prevEnd = false
		case "int":
			sb.WriteString(c14Ints[t.V])
			prevEnd = true
		case "str":
			sb.WriteString(q(c14Strs[t.V]))
			prevEnd = true
		default:
			sb.WriteString(t.V)
			prevEnd = true
		}
	}
	return sb.String()
}

func c14RenderSer(ts []c14Tok) string {
	var sb strings.Builder
	str := func(x string, delta int) { fmt.Fprintf(&sb, "s:%d:\"%s\";", len(x)+delta, x) }
	for _, t := range ts {
		switch t.T {
		case "i":
			fmt.Fprintf(&sb, "i:%s;", c14Ints[t.V])
		case "ki":
			fmt.Fprintf(&sb, "i:%s;", t.V)
		case "s":
			str(c14Strs[t.V], 0)
		case "s!":
			str(c14Strs[t.V], 1)
		case "ks":
			str(c14Key(t.V), 0)
		case "ks!":
			str(c14Key(t.V), 1)
		case "kN", "N":
			sb.WriteString("N;")
		case "kd":
			sb.WriteString("d:1.5;")
		case "kb":
			sb.WriteString("b:1;")
		case "a":
			n := t.V
			if n == "huge" {
				n = "9223372036854775807"
			}
			fmt.Fprintf(&sb, "a:%s:{", n)
		default:
			sb.WriteString(t.T) // } ]
		}
	}
	return sb.String()
}

// c14Mutants: decoders accept exactly the well-formed inputs, on token-level mutants decided by Codec.tla.
func c14Mutants(c *Ctx, rep *kf.Report) (int, bool) {
	res := runTLC(rep, tlc.Run{SpecDir: c.SpecDir(), Module: "Codec", Cfg: "Codec.cfg", Workers: 4, Timeout: 10 * time.Minute, Consts: map[string]string{"FAMILY": "mutants"}})
	if res == nil {
		return 0, false
	}
	addTLC(rep, res)
	if res.Violated != "" {
		rep.Infraf("spec Codec(mutants): %s violated\n%s", res.Violated, res.Tail(20))
		return 0, false
	}
	type mcase struct {
		m    c14Mut
		text string
	}
	var cases []mcase
	seen := map[string]bool{}
	disagree := 0
	for _, raw := range res.Tagged["MUT"] {
		var m c14Mut
		must(json.Unmarshal(raw, &m))
		var text string
		var oracle bool
		if m.Format == "json" {
			text = c14RenderJSON(m.Ts)
			oracle = json.Valid([]byte(text))
		} else {
			text = c14RenderSer(m.Ts)
			_, err := c14SerTokens([]byte(text))
			oracle = err == nil
		}
		if oracle != m.Ok {
			// the spec's recognizer and the reference reader must agree on every rendered text
			disagree++
			if disagree <= 3 {
				rep.Infraf("Codec mutants: spec says ok=%v, reference reader says %v for %s text %q", m.Ok, oracle, m.Format, text)
			}
			continue
		}
		if seen[m.Format+text] {
			continue
		}
		seen[m.Format+text] = true
		cases = append(cases, mcase{m, text})
	}
	if disagree > 0 {
		return 0, false
	}
	var jobs []Job
	const per = 100
	for i := 0; i < len(cases); i += per {
		var sb strings.Builder
		for j := i; j < i+per && j < len(cases); j++ {
			lit := phpBytes([]byte(cases[j].text))
			if cases[j].m.Format == "json" {
				fmt.Fprintf(&sb, "try { $d = json_decode(%s, true); $e = json_decode(%s, false); echo \"Q%d|\", (($d === null) ? \"rej\" : \"acc\"), \",\", (($e === null) ? \"rej\" : \"acc\"), \"\\n\"; } catch (\\Throwable $x) { echo \"Q%d|throw\\n\"; }\n", lit, lit, j, j)
			} else {
				fmt.Fprintf(&sb, "try { $u = unserialize(%s); echo \"Q%d|\", (($u === false) ? \"rej\" : \"acc:\" . bin2hex(serialize($u))), \"\\n\"; } catch (\\Throwable $x) { echo \"Q%d|throw\\n\"; }\n", lit, j, j)
			}
		}
		jobs = append(jobs, Job{Src: sb.String()})
	}
	rs, err := RunJobs(c.Self, jobs, 0, 30*time.Second)
	if err != nil {
		rep.Infraf("pool: %v", err)
		return 0, false
	}
	checked, malformed := 0, 0
	rerun := func(j int) JobResult { // one case alone, to name the input that crashes a batch
		one, err := RunJobs(c.Self, []Job{{Src: strings.Split(jobs[j/per].Src, "\n")[j%per] + "\n"}}, 0, 30*time.Second)
		if err != nil || len(one) == 0 {
			return JobResult{}
		}
		return one[0]
	}
	for ji, r := range rs {
		got := map[string]string{}
		for _, l := range strings.Split(r.Out, "\n") {
			if f := strings.SplitN(l, "|", 2); len(f) == 2 {
				got[f[0]] = f[1]
			}
		}
		for j := ji * per; j < (ji+1)*per && j < len(cases); j++ {
			m, text := cases[j].m, cases[j].text
			checked++
			if !m.Ok {
				malformed++
			}
			swapped := ""
			if m.Op == "swap" || m.Op == "extra" {
				for _, t := range m.Ts {
					if strings.ContainsAny(t.T, "!") || t.T == "kN" || t.T == "kd" || t.T == "kb" || (t.T == "a" && (t.V == "huge" || t.V == "-1")) {
						swapped = "/tok=" + strings.ReplaceAll(t.T+t.V, "!", "-wrong-length")
						if t.T != "a" {
							swapped = "/tok=" + strings.ReplaceAll(t.T, "!", "-wrong-length")
						}
					}
				}
			}
			id := fmt.Sprintf("C14/%s/decoder/op=%s%s", m.Format, m.Op, swapped)
			o, have := got[fmt.Sprintf("Q%d", j)]
			if !have || r.Hang || r.Died || r.Panic != "" {
				// find out whether this very input is the one that takes the interpreter down
				rr := rerun(j)
				if rr.Hang || rr.Died || rr.Panic != "" {
					rep.Add(kf.Mismatch{ID: id + "/kind=crash", Expected: "accept or reject, no crash", Observed: map[string]any{"hang": rr.Hang, "died": rr.Died, "panic": tailStr(rr.Panic, 300), "stderr": tailStr(rr.Stderr, 300)}, ObsKey: "crash", Input: text})
					continue
				}
				o = ""
				for _, l := range strings.Split(rr.Out, "\n") {
					if f := strings.SplitN(l, "|", 2); len(f) == 2 {
						o = f[1]
					}
				}
			}
			modes := []string{o}
			names := []string{""}
			if m.Format == "json" && strings.Contains(o, ",") {
				modes = strings.Split(o, ",")
				names = []string{"/mode=assoc", "/mode=object"}
			}
			for k, mo := range modes {
				acc := strings.HasPrefix(mo, "acc")
				if acc && !m.Ok {
					rep.Add(kf.Mismatch{ID: id + names[k] + "/kind=malformed-accepted", Expected: "rejected (not a text of the format)", Observed: mo, ObsKey: "accepted", Input: text})
				} else if !acc && m.Ok {
					rep.Add(kf.Mismatch{ID: id + names[k] + "/kind=well-formed-rejected", Expected: "accepted", Observed: mo, ObsKey: "rejected", Input: text})
				} else if acc && m.Format == "ser" && mo != "acc:"+hex.EncodeToString([]byte(text)) {
					rep.Add(kf.Mismatch{ID: id + "/kind=not-every-byte-accounted", Expected: "serialize(unserialize(x)) === x for an accepted x", Observed: mo, ObsKey: "reserialize-differs", Input: text})
				}
			}
		}
	}
	rep.Coverage["decoder_token_mutants"] = checked
	rep.Coverage["decoder_token_mutants_malformed"] = malformed
	return checked, true
}
