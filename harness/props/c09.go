package props

import (
	"bytes"
	"encoding/json"
	"fmt"
	"math/rand"
	"os"
	"os/exec"
	"runtime"
	"sort"
	"strconv"
	"strings"
	"sync"
	"sync/atomic"
	"time"

	"github.com/php-any/origami/data"
	"github.com/php-any/origami/std/channel"

	"verif/graph"
	"verif/kf"
	"verif/tlc"
)

func init() {
	Registry["C09"] = C09
	Workers["c09stress"] = c09StressWorker
}

// ---------------------------------------------------------------- controlled scheduler

type schedEvent struct {
	kind string // gate | done | panic
	val  string
}

type schedProc struct {
	name   string
	gate   chan struct{}
	events chan schedEvent
}

type histOp struct {
	Op  string `json:"op"`
	Arg string `json:"arg"`
	Res string `json:"res"`
}
type histEv struct {
	T  string `json:"t"`
	ID int    `json:"id"`
}
type history struct {
	Ops []histOp `json:"ops"`
	Ev  []histEv `json:"ev"`
	mu  sync.Mutex
}

func (h *history) call(op, arg string) int {
	h.mu.Lock()
	defer h.mu.Unlock()
	h.Ops = append(h.Ops, histOp{op, arg, "pending"})
	id := len(h.Ops)
	h.Ev = append(h.Ev, histEv{"c", id})
	return id
}
func (h *history) ret(id int, res string) {
	h.mu.Lock()
	defer h.mu.Unlock()
	h.Ops[id-1].Res = res
	h.Ev = append(h.Ev, histEv{"r", id})
}
func (h *history) snapshot() *history {
	h.mu.Lock()
	defer h.mu.Unlock()
	return &history{Ops: append([]histOp{}, h.Ops...), Ev: append([]histEv{}, h.Ev...)}
}

var (
	gidMu    sync.Mutex
	gidProc  = map[uint64]*schedProc{}
	freeRun  atomic.Bool
	hookOnce sync.Once
)

func curGID() uint64 {
	var buf [64]byte
	n := runtime.Stack(buf[:], false)
	f := bytes.Fields(buf[:n])
	id, _ := strconv.ParseUint(string(f[1]), 10, 64)
	return id
}

func installChannelHook() {
	hookOnce.Do(func() {
		channel.VerifYield = func(point string) {
			gidMu.Lock()
			p := gidProc[curGID()]
			gidMu.Unlock()
			if p == nil || freeRun.Load() {
				return
			}
			p.events <- schedEvent{"gate", point}
			<-p.gate
		}
	})
}

type c09Cfg struct {
	Prod, Cons, Closers []string
	Cap, NMsg, NRecv    int
}

func (c c09Cfg) consts(design string, emit bool) map[string]string {
	set := func(l []string) string {
		q := make([]string, len(l))
		for i, s := range l {
			q[i] = `"` + s + `"`
		}
		return "{" + strings.Join(q, ",") + "}"
	}
	e := "FALSE"
	if emit {
		e = "TRUE"
	}
	return map[string]string{"PROD": set(c.Prod), "CONS": set(c.Cons), "CLOSERS": set(c.Closers),
		"CAP": fmt.Sprint(c.Cap), "NMSG": fmt.Sprint(c.NMsg), "NRECV": fmt.Sprint(c.NRecv), "DESIGN": design, "EMIT": e}
}

type c09World struct {
	ch    *channel.Channel
	procs map[string]*schedProc
	hist  *history
	wg    sync.WaitGroup
}

func valStr(v data.Value, ok bool) string {
	if !ok || v == nil {
		return "null"
	}
	return v.AsString()
}

func newC09World(cfg c09Cfg) *c09World {
	w := &c09World{ch: channel.NewChannel(), procs: map[string]*schedProc{}, hist: &history{}}
	w.ch.Construct(nil, data.NewIntValue(cfg.Cap))
	start := func(name string, body func(p *schedProc)) {
		p := &schedProc{name: name, gate: make(chan struct{}), events: make(chan schedEvent, 64)}
		w.procs[name] = p
		ready := make(chan struct{})
		w.wg.Add(1)
		go func() {
			defer w.wg.Done()
			gid := curGID()
			gidMu.Lock()
			gidProc[gid] = p
			gidMu.Unlock()
			defer func() {
				gidMu.Lock()
				delete(gidProc, gid)
				gidMu.Unlock()
				if r := recover(); r != nil {
					p.events <- schedEvent{"panic", fmt.Sprint(r)}
				}
			}()
			close(ready)
			body(p)
		}()
		<-ready
	}
	park := func(p *schedProc) {
		if !freeRun.Load() {
			<-p.gate
		}
	}
	for _, n := range cfg.Prod {
		n := n
		start(n, func(p *schedProc) {
			for i := 1; i <= cfg.NMsg; i++ {
				park(p)
				v := fmt.Sprintf("%s.%d", n, i)
				id := w.hist.call("send", v)
				ok := w.ch.Send(data.NewStringValue(v))
				w.hist.ret(id, fmt.Sprint(ok))
				p.events <- schedEvent{"done", fmt.Sprint(ok)}
			}
		})
	}
	for _, n := range cfg.Cons {
		start(n, func(p *schedProc) {
			for i := 1; i <= cfg.NRecv; i++ {
				park(p)
				id := w.hist.call("recv", "")
				v, ok := w.ch.Receive()
				w.hist.ret(id, valStr(v, ok))
				p.events <- schedEvent{"done", valStr(v, ok)}
			}
		})
	}
	for _, n := range cfg.Closers {
		start(n, func(p *schedProc) {
			park(p)
			if freeRun.Load() {
				time.Sleep(time.Duration(rand.Intn(120)) * time.Microsecond)
			}
			id := w.hist.call("close", "")
			w.ch.Close()
			w.hist.ret(id, "ok")
			p.events <- schedEvent{"done", "ok"}
		})
	}
	return w
}

type c09Lbl struct{ P, Kind, Out string }

func evLabel(e schedEvent) string {
	switch e.kind {
	case "gate":
		return "gate:" + e.val
	case "panic":
		return "panic"
	}
	return "done:" + e.val
}

// walk drives one world along the mechanism graph, choosing edges with rng (preferring uncovered
// ones) and following whichever outcome the real code produces.  It returns the conformance
// mismatch (if any), the panics observed and the recorded history.
type walkResult struct {
	steps    []string
	conform  string // non-empty: model and code disagree
	panics   []string
	hist     *history
	overlap  bool // a close step happened while a send was in flight
	finished bool
}

func c09Walk(g *graph.Graph, cfg c09Cfg, rng *rand.Rand, covered map[string]int, grace time.Duration) walkResult {
	var wr walkResult
	freeRun.Store(false)
	w := newC09World(cfg)
	s := g.Init[0]
	edgeKey := func(e graph.Edge) string { return e.From + "|" + string(e.Act) }
	waitEv := func(p *schedProc, d time.Duration) (schedEvent, bool) {
		select {
		case e := <-p.events:
			return e, true
		case <-time.After(d):
			return schedEvent{}, false
		}
	}
	for n := 0; n < 400; n++ {
		out := g.Out[s]
		if len(out) == 0 {
			wr.finished = true
			break
		}
		// lazily verify that nobody who should be blocked has produced an event
		byProc := map[string][]graph.Edge{}
		var wakes, stepsE []graph.Edge
		for _, e := range out {
			var l c09Lbl
			json.Unmarshal(e.Act, &l)
			byProc[l.P+"/"+l.Kind] = append(byProc[l.P+"/"+l.Kind], e)
			if l.Kind == "wake" {
				wakes = append(wakes, e)
			} else {
				stepsE = append(stepsE, e)
			}
		}
		cands := stepsE
		if len(wakes) > 0 {
			cands = wakes
		}
		// prefer uncovered edges
		best := cands[rng.Intn(len(cands))]
		for try := 0; try < 4 && covered[edgeKey(best)] > 0; try++ {
			best = cands[rng.Intn(len(cands))]
		}
		var l c09Lbl
		json.Unmarshal(best.Act, &l)
		p := w.procs[l.P]
		alts := byProc[l.P+"/"+l.Kind]
		if l.Kind == "step" {
			select {
			case p.gate <- struct{}{}:
			case <-time.After(5 * time.Second):
				wr.conform = fmt.Sprintf("step %d: %s is not parked at a gate (model: %s)", n, l.P, l.Out)
			}
			if wr.conform != "" {
				break
			}
		}
		onlyBlocked := len(alts) == 1 && l.Out == "blocked"
		var obs string
		if onlyBlocked {
			if e, ok := waitEv(p, grace); ok {
				obs = evLabel(e)
			} else {
				obs = "blocked"
			}
		} else {
			e, ok := waitEv(p, 5*time.Second)
			if !ok {
				obs = "blocked"
			} else {
				obs = evLabel(e)
			}
		}
		if strings.HasPrefix(obs, "panic") {
			wr.panics = append(wr.panics, l.P+": "+obs)
		}
		var taken *graph.Edge
		for i := range alts {
			var al c09Lbl
			json.Unmarshal(alts[i].Act, &al)
			if al.Out == obs {
				taken = &alts[i]
				break
			}
		}
		wr.steps = append(wr.steps, fmt.Sprintf("%s/%s=%s", l.P, l.Kind, obs))
		if taken == nil {
			var exp []string
			for _, a := range alts {
				var al c09Lbl
				json.Unmarshal(a.Act, &al)
				exp = append(exp, al.Out)
			}
			wr.conform = fmt.Sprintf("step %d: %s %s: model allows %v, code did %s", n, l.P, l.Kind, exp, obs)
			break
		}
		if strings.Contains(obs, "close.") {
			var st struct{ Pc map[string]string }
			json.Unmarshal(g.States[s], &st)
			for _, pc := range st.Pc {
				if pc == "S1" || pc == "Sblk" {
					wr.overlap = true
				}
			}
		}
		covered[edgeKey(*taken)]++
		s = taken.To
	}
	// free-run to the end: release everyone, collect panics
	freeRun.Store(true)
	for _, p := range w.procs {
		p := p
		go func() {
			for {
				select {
				case p.gate <- struct{}{}:
				case <-time.After(20 * time.Millisecond):
					return
				}
			}
		}()
	}
	done := make(chan struct{})
	go func() { w.wg.Wait(); close(done) }()
	select {
	case <-done:
	case <-time.After(30 * time.Millisecond):
	}
	for _, p := range w.procs {
	drain:
		for {
			select {
			case e := <-p.events:
				if e.kind == "panic" {
					wr.panics = append(wr.panics, p.name+": panic: "+e.val)
				}
			default:
				break drain
			}
		}
	}
	wr.hist = w.hist.snapshot()
	return wr
}

// c09Eligible counts the edges a scheduler that lets woken goroutines run first can take:
// breadth-first from the initial state, following only wake edges where any exist.
func c09Eligible(g *graph.Graph) int {
	seen := map[string]bool{g.Init[0]: true}
	queue := []string{g.Init[0]}
	n := 0
	for len(queue) > 0 {
		s := queue[0]
		queue = queue[1:]
		out := g.Out[s]
		var wakes []graph.Edge
		for _, e := range out {
			var l c09Lbl
			json.Unmarshal(e.Act, &l)
			if l.Kind == "wake" {
				wakes = append(wakes, e)
			}
		}
		if len(wakes) > 0 {
			out = wakes
		}
		for _, e := range out {
			n++
			if !seen[e.To] {
				seen[e.To] = true
				queue = append(queue, e.To)
			}
		}
	}
	return n
}

// checkHistories validates histories against ChannelRef with TLC; returns indexes of rejected ones.
func checkHistories(rep *kf.Report, c *Ctx, hs []*history) (rejected []int) {
	if len(hs) == 0 {
		return nil
	}
	var buf bytes.Buffer
	for _, h := range hs {
		b, _ := json.Marshal(h)
		buf.Write(b)
		buf.WriteByte('\n')
	}
	res := runTLC(rep, tlc.Run{SpecDir: c.SpecDir(), Module: "ChannelLin", Cfg: "ChannelLin.cfg", DFS: true,
		Files: map[string][]byte{"hist.ndjson": buf.Bytes()}, Timeout: 20 * time.Minute})
	if res == nil {
		return nil
	}
	addTLC(rep, res)
	acc := map[int]bool{}
	for _, raw := range res.Tagged["ACCEPT"] {
		var a struct{ H int }
		json.Unmarshal(raw, &a)
		acc[a.H] = true
	}
	for i := range hs {
		if !acc[i+1] {
			rejected = append(rejected, i)
		}
	}
	return
}

// C09: mechanism spec model-checked, walked against the real Channel under a controlled scheduler,
// recorded histories (forced and free-running under -race) validated against ChannelRef.
func C09(c *Ctx) *kf.Report {
	rep := &kf.Report{Property: "C09", Level: "model_checking", Coverage: map[string]any{}}
	rep.Assumptions = []string{
		"goroutine identity is read from runtime.Stack (hook VerifYield parks the calling goroutine)",
		"Go channel wait queues are FIFO (modelled as sq/rq)",
		"ChannelRef = unbounded FIFO queue with close; blocked-forever calls may or may not take effect",
		"race detector reports are accepted as evidence of a data race as is",
		"the script-facing class (new Channel, ->send/receive/close/len/cap/isClosed) is replayed sequentially only: paths of ChannelObjs.tla whose steps cannot block; schedules are decided at the Go API, which the class methods delegate to",
	}
	// script-facing layer first (subprocess workers, no hooks): several Channel objects, one coroutine
	c09Objects(c, rep)
	installChannelHook()
	cfgs := []c09Cfg{
		{[]string{"p1", "p2"}, []string{"c1"}, []string{"k1"}, 0, 2, 2},
		{[]string{"p1", "p2"}, []string{"c1", "c2"}, []string{"k1"}, 1, 2, 2},
		{[]string{"p1"}, []string{"c1"}, []string{"k1", "k2"}, 1, 2, 3},
	}
	if c.Thorough() {
		cfgs = append(cfgs,
			c09Cfg{[]string{"p1", "p2"}, []string{"c1", "c2"}, []string{"k1", "k2"}, 0, 2, 2},
			c09Cfg{[]string{"p1", "p2"}, []string{"c1", "c2"}, []string{"k1"}, 2, 3, 2},
			c09Cfg{[]string{"p1", "p2", "p3"}, []string{"c1", "c2"}, []string{"k1"}, 1, 1, 2},
		)
	}
	// the pinned design must be a counterexample (named deviation "none")
	if dev := runTLC(rep, tlc.Run{SpecDir: c.SpecDir(), Module: "Channel", Cfg: "Channel.cfg", Consts: cfgs[1].consts("none", false)}); dev != nil {
		rep.Coverage["design_none_counterexample"] = dev.Violated
		if dev.Violated != "NoCrash" {
			rep.Infraf("Channel spec: Design=none should violate NoCrash, got %q", dev.Violated)
		}
	}
	rng := c.Rng()
	var hists []*history
	var histIDs []string
	seenHist := map[string]bool{}
	walks, overlaps, edgesTotal, edgesCovered := 0, 0, 0, 0
	conformMismatches := 0
	var samples []any
	addHist := func(h *history, id string) {
		b, _ := json.Marshal(h)
		if seenHist[string(b)] {
			return
		}
		seenHist[string(b)] = true
		hists = append(hists, h)
		histIDs = append(histIDs, id)
	}
	for ci, cfg := range cfgs {
		design := "rw"
		if d := os.Getenv("VERIF_C09_DESIGN"); d != "" {
			design = d // experiment only: walk the graph of the pinned design
		}
		res := runTLC(rep, tlc.Run{SpecDir: c.SpecDir(), Module: "Channel", Cfg: "Channel.cfg", Consts: cfg.consts(design, true), Timeout: 15 * time.Minute})
		if res == nil {
			return rep
		}
		addTLC(rep, res)
		if res.Violated != "" && design == "rw" {
			rep.Infraf("Channel spec (rw) violates %s:\n%s", res.Violated, res.Tail(30))
			return rep
		}
		g, err := graph.Build(res.Tagged["INIT"], res.Tagged["EDGE"])
		if err != nil {
			rep.Infraf("graph: %v", err)
			return rep
		}
		covered := map[string]int{}
		nWalks := c.Pick(1500, 12000)
		cfgID := fmt.Sprintf("C09/cfg=%dx%dx%d.cap%d", len(cfg.Prod), len(cfg.Cons), len(cfg.Closers), cfg.Cap)
		for i := 0; i < nWalks; i++ {
			wr := c09Walk(g, cfg, rng, covered, 300*time.Microsecond)
			if wr.conform != "" && len(wr.panics) == 0 && conformMismatches < 10 {
				// retry the same prefix is not possible (outcomes are the code's); re-walk with a long grace to rule out timing
				wr2 := c09Walk(g, cfg, rand.New(rand.NewSource(int64(i))), map[string]int{}, 20*time.Millisecond)
				if wr2.conform == "" {
					wr = wr2
				}
			}
			walks++
			if wr.overlap {
				overlaps++
			}
			id := fmt.Sprintf("%s/walk=%d", cfgID, i)
			if len(wr.panics) > 0 {
				rep.Add(kf.Mismatch{ID: cfgID + "/kind=panic", Expected: "no goroutine panics", Observed: wr.panics, ObsKey: "panic",
					Input: map[string]any{"cfg": cfg, "schedule": wr.steps}, Detail: wr.hist})
			} else if wr.conform != "" {
				conformMismatches++
				if conformMismatches <= 3 {
					rep.Infraf("%s: mechanism spec and code disagree (no property-level symptom): %s\nschedule: %v", id, wr.conform, wr.steps)
				}
			}
			addHist(wr.hist, id)
			if len(samples) < 3 && wr.overlap && i%50 == 7 {
				samples = append(samples, map[string]any{"cfg": cfgID, "schedule": wr.steps})
			}
			if len(rep.Mismatches) > 20 {
				break
			}
		}
		elig := c09Eligible(g)
		edgesTotal += elig
		edgesCovered += len(covered)
		rep.Coverage[fmt.Sprintf("cfg%d", ci)] = map[string]any{"cfg": cfgID, "states": res.Distinct, "edges": g.NEdges, "edges_reachable_by_scheduler": elig, "edges_covered": len(covered), "walks": nWalks}
	}
	freeRun.Store(true)
	// free-running stress under the race detector, in a subprocess
	stressH, raceOut := c09Stress(c, rep)
	for i, h := range stressH {
		addHist(h, fmt.Sprintf("C09/stress=%d", i))
	}
	if raceOut != "" {
		rep.Add(kf.Mismatch{ID: "C09/kind=race-or-crash", Expected: "no data race, no crash under free-running stress", Observed: raceOut, ObsKey: "race", Input: "c09stress worker"})
	}
	rej := checkHistories(rep, c, hists)
	for _, i := range rej {
		rep.Add(kf.Mismatch{ID: strings.Split(histIDs[i], "/walk=")[0] + "/kind=history", Expected: "history is a behaviour of ChannelRef (linearizable FIFO queue with close)",
			Observed: hists[i], ObsKey: "not-linearizable", Input: histIDs[i]})
	}
	rep.Coverage["traces_validated_against_impl"] = len(hists)
	rep.Coverage["walks"] = walks
	rep.Coverage["conformance_mismatches"] = conformMismatches
	rep.Coverage["stress_histories"] = len(stressH)
	rep.Coverage["evaluations"] = walks + len(stressH)
	rep.Coverage["distinct_nontrivial"] = overlaps
	rep.Coverage["edges_total"] = edgesTotal
	rep.Coverage["edges_covered"] = edgesCovered
	rep.Coverage["rule"] = "every path of ChannelObjs.tla (two Channel objects of capacity 1..2 created, used and closed by one coroutine, every step's result and len/cap/isClosed of every object compared); controlled-scheduler walks over the mechanism graph (every step forced at the hooks' yield points, outcome compared with the model's edges), histories of all walks and of free-running -race stress validated against ChannelRef by TLC; non-trivial = walks in which a close step ran while a send was in flight"
	if len(samples) == 0 {
		samples = append(samples, "none")
	}
	rep.Coverage["samples"] = samples
	if edgesTotal > 0 && float64(edgesCovered)/float64(edgesTotal) < 0.25 {
		rep.Infraf("edge coverage too low: %d/%d", edgesCovered, edgesTotal)
	}
	return rep
}

// ---------------------------------------------------------------- free-running stress (subprocess, -race)

func c09Stress(c *Ctx, rep *kf.Report) ([]*history, string) {
	bin := strings.TrimSuffix(c.Self, "vcheck") + "vcheck-race"
	if _, err := os.Stat(bin); err != nil {
		rep.Infraf("race binary missing: %v", err)
		return nil, ""
	}
	n := c.Pick(300, 4000)
	cmd := exec.Command(bin, "-worker", "c09stress")
	cmd.Env = append(os.Environ(), fmt.Sprintf("VERIF_N=%d", n), fmt.Sprintf("VERIF_SEED=%d", c.Seed), "GORACE=halt_on_error=1 exitcode=66")
	var out, errb bytes.Buffer
	cmd.Stdout = &out
	cmd.Stderr = &errb
	t := time.AfterFunc(10*time.Minute, func() { cmd.Process.Kill() })
	err := cmd.Run()
	t.Stop()
	var hs []*history
	for _, line := range strings.Split(out.String(), "\n") {
		if !strings.HasPrefix(line, "{") {
			continue
		}
		var h history
		if json.Unmarshal([]byte(line), &h) == nil {
			hs = append(hs, &h)
		}
	}
	if err != nil {
		tail := errb.String()
		if len(tail) > 3000 {
			tail = tail[:3000]
		}
		if strings.Contains(tail, "DATA RACE") || strings.Contains(tail, "panic") || strings.Contains(tail, "fatal error") {
			return hs, tail
		}
		rep.Infraf("stress worker failed: %v\n%s", err, tail)
	}
	return hs, ""
}

// c09StressWorker runs free (no gates) configurations and prints one history per line.
func c09StressWorker() {
	n, _ := strconv.Atoi(os.Getenv("VERIF_N"))
	seed, _ := strconv.ParseInt(os.Getenv("VERIF_SEED"), 10, 64)
	rng := rand.New(rand.NewSource(seed))
	freeRun.Store(true)
	for i := 0; i < n; i++ {
		runtime.GOMAXPROCS(1 + rng.Intn(16))
		cfg := c09Cfg{Cap: rng.Intn(5), NMsg: 1 + rng.Intn(4), NRecv: 1 + rng.Intn(4)}
		for j := 0; j < 1+rng.Intn(3); j++ {
			cfg.Prod = append(cfg.Prod, fmt.Sprintf("p%d", j+1))
		}
		for j := 0; j < 1+rng.Intn(3); j++ {
			cfg.Cons = append(cfg.Cons, fmt.Sprintf("c%d", j+1))
		}
		cfg.Closers = []string{"k1"}
		if rng.Intn(4) == 0 {
			cfg.Closers = append(cfg.Closers, "k2")
		}
		w := newC09World(cfg)
		done := make(chan struct{})
		go func() { w.wg.Wait(); close(done) }()
		select {
		case <-done:
		case <-time.After(50 * time.Millisecond):
		}
		for _, p := range w.procs {
		drain:
			for {
				select {
				case e := <-p.events:
					if e.kind == "panic" {
						fmt.Fprintln(os.Stderr, "panic in", p.name, e.val)
						os.Exit(3)
					}
				default:
					break drain
				}
			}
		}
		b, _ := json.Marshal(w.hist.snapshot())
		fmt.Println(string(b))
	}
}

var _ = sort.Strings
