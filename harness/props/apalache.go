package props

import (
	"bytes"
	"os"
	"os/exec"
	"path/filepath"
	"strings"
	"time"

	"verif/kf"
)

// apalacheInductive runs the three Apalache queries of an inductive-invariant argument in a scratch directory:
// Init => IndInv (length 0), IndInv /\ Next => IndInv' (length 1 from IndInit), IndInv => Goal (length 0 from IndInit).
// A failed or unavailable Apalache is an infrastructure note, never a violation: the claim stays at the TLC level.
func apalacheInductive(rep *kf.Report, specDir, module, initOp, indInit, indInv, goal string) bool {
	dir, err := os.MkdirTemp("", "verif-apalache-")
	if err != nil {
		return false
	}
	defer os.RemoveAll(dir)
	src, err := os.ReadFile(filepath.Join(specDir, module))
	if err != nil {
		rep.Infraf("apalache: %v", err)
		return false
	}
	os.WriteFile(filepath.Join(dir, module), src, 0o644)
	run := func(args ...string) bool {
		cmd := exec.Command("apalache-mc", append(append([]string{"check"}, args...), module)...)
		cmd.Dir = dir
		var ob bytes.Buffer
		cmd.Stdout, cmd.Stderr = &ob, &ob
		if err := cmd.Start(); err != nil {
			return false
		}
		done := make(chan error, 1)
		go func() { done <- cmd.Wait() }()
		select {
		case <-done:
		case <-time.After(5 * time.Minute):
			cmd.Process.Kill()
			<-done
			return false
		}
		return strings.Contains(ob.String(), "The outcome is: NoError")
	}
	return run("--init="+initOp, "--inv="+indInv, "--length=0") &&
		run("--init="+indInit, "--inv="+indInv, "--length=1") &&
		run("--init="+indInit, "--inv="+goal, "--length=0")
}
