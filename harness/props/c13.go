package props

import (
	"encoding/json"
	"fmt"
	"net/http"
	"net/http/httptest"
	"sort"
	"strings"

	"verif/graph"
	"verif/kf"
	"verif/rt"
	"verif/tlc"
)

func init() { Registry["C13"] = C13 }

// ---- recorder that counts header commits on the "underlying connection"
type commitRec struct {
	rec     *httptest.ResponseRecorder
	commits int
	code    int
	hdr     http.Header
}

func (c *commitRec) Header() http.Header { return c.rec.Header() }
func (c *commitRec) WriteHeader(code int) {
	c.commits++
	if c.commits == 1 {
		c.code = code
		c.hdr = c.rec.Header().Clone()
	}
	c.rec.WriteHeader(code)
}
func (c *commitRec) Write(p []byte) (int, error) {
	if c.commits == 0 { // implicit commit by net/http
		c.WriteHeader(200)
	}
	return c.rec.Write(p)
}

type c13Obs struct {
	Commits int      `json:"commits"`
	Status  int      `json:"status"` // 0 while uncommitted
	XA      string   `json:"xa"`
	CT      string   `json:"ct"`
	Loc     string   `json:"loc"`
	Ck      []string `json:"ck"`
	Body    string   `json:"body"`
}

// cookiePairs keeps name=value of each Set-Cookie header (attributes are outside the property).
func cookiePairs(vs []string) []string {
	out := []string{}
	for _, v := range vs {
		if i := strings.Index(v, ";"); i >= 0 {
			v = v[:i]
		}
		out = append(out, v)
	}
	return out
}

func ctName(v string) string {
	switch v {
	case "":
		return ""
	case "text/html; charset=utf-8":
		return "html"
	case "application/json; charset=utf-8":
		return "json"
	}
	return v
}

func (c *commitRec) observe() c13Obs {
	o := c13Obs{Commits: c.commits, Body: c.rec.Body.String(), Ck: []string{}}
	if c.commits > 0 {
		o.Status = c.code
		o.XA = c.hdr.Get("X-A")
		o.CT = ctName(c.hdr.Get("Content-Type"))
		o.Loc = c.hdr.Get("Location")
		o.Ck = append(o.Ck, cookiePairs(c.hdr.Values("Set-Cookie"))...)
	}
	return o
}

// client view after the handler returned
func (c *commitRec) client() c13Obs {
	res := c.rec.Result()
	o := c13Obs{Commits: c.commits, Status: res.StatusCode, Body: c.rec.Body.String(), Ck: []string{}}
	o.XA = res.Header.Get("X-A")
	o.CT = ctName(res.Header.Get("Content-Type"))
	o.Loc = res.Header.Get("Location")
	o.Ck = append(o.Ck, cookiePairs(res.Header.Values("Set-Cookie"))...)
	return o
}

type c13State struct {
	Committed bool `json:"committed"`
	Pstatus   int  `json:"pstatus"`
	Phdr      struct{ Xa, Ct, Loc string }
	Pck       []string
	Wstatus   int
	Whdr      struct{ Xa, Ct, Loc string }
	Wck       []string
	Body      []string
	Commits   int
	N         int
	Ended     bool
}

type c13Act struct{ Op, A, B string }

var c13Alphabet = []c13Act{
	{"status", "200", ""}, {"status", "404", ""}, {"status", "500", ""}, {"header", "X-A", "1"}, {"header", "X-A", "2"},
	{"cookie", "c", "1"}, {"write", "a", ""}, {"write", "b", ""}, {"json", "", ""},
	{"html", "h", ""}, {"html", "h", "201"}, {"redirect", "/u", ""}, {"redirect", "/u", "301"},
	{"noContent", "", ""}, {"noContent", "205", ""}, {"writeHeader", "202", ""},
}

func c13Stmt(a c13Act) string {
	switch a.Op {
	case "status", "noContent", "writeHeader":
		return fmt.Sprintf("$res->%s(%s);", a.Op, a.A)
	case "header":
		return fmt.Sprintf("$res->header('%s', '%s');", a.A, a.B)
	case "cookie":
		return fmt.Sprintf("$res->cookie('%s', '%s', ['path' => '/']);", a.A, a.B)
	case "write":
		return fmt.Sprintf("$res->write('%s');", a.A)
	case "json":
		return `$res->json(["k" => 1]);`
	case "html", "redirect":
		if a.B == "" {
			return fmt.Sprintf("$res->%s('%s');", a.Op, a.A)
		}
		return fmt.Sprintf("$res->%s('%s', %s);", a.Op, a.A, a.B)
	}
	panic("op " + a.Op)
}

func c13BodyTok(t string) string {
	if t == "j" {
		return `{"k":1}`
	}
	return t
}

func c13Expect(s c13State) c13Obs {
	o := c13Obs{Ck: []string{}}
	for _, t := range s.Body {
		o.Body += c13BodyTok(t)
	}
	if s.Ended {
		// client view
		o.Commits = -1 // compared as <= 1
		if s.Committed {
			o.Status, o.XA, o.CT, o.Loc = s.Wstatus, s.Whdr.Xa, s.Whdr.Ct, s.Whdr.Loc
			o.Ck = append(o.Ck, s.Wck...)
		} else {
			o.Status, o.XA, o.CT, o.Loc = s.Pstatus, s.Phdr.Xa, s.Phdr.Ct, s.Phdr.Loc
			o.Ck = append(o.Ck, s.Pck...)
		}
		return o
	}
	o.Commits = s.Commits
	if s.Committed {
		o.Status, o.XA, o.CT, o.Loc = s.Wstatus, s.Whdr.Xa, s.Whdr.Ct, s.Whdr.Loc
		o.Ck = append(o.Ck, s.Wck...)
	}
	return o
}

func c13Equal(exp, got c13Obs) bool {
	if exp.Commits == -1 {
		if got.Commits > 1 {
			return false
		}
		got.Commits = -1
	}
	return jsonStr(exp) == jsonStr(got)
}

// C13 drives every behaviour of spec/Response.tla through the real Server / Response objects.
func C13(c *Ctx) *kf.Report {
	rep := &kf.Report{Property: "C13", Level: "model_checking", Coverage: map[string]any{}}
	rep.Assumptions = []string{
		"TLC 1.8 and the CommunityModules Json module print the Ref layer's state graph faithfully",
		"httptest.ResponseRecorder wrapped by a commit counter stands for the underlying connection (first WriteHeader wins, header map snapshotted at commit)",
		"operation arguments are the 16 concrete operations of Response.tla!Ops",
	}
	maxOps := c.Pick(3, 4)
	// 1. model check both layers and print the Ref graph
	res := runTLC(rep, tlc.Run{SpecDir: c.SpecDir(), Module: "Response", Cfg: "Response.cfg",
		Consts: map[string]string{"MAXOPS": fmt.Sprint(maxOps), "DEV": "{}", "EMIT": "TRUE"}})
	if res == nil {
		return rep
	}
	addTLC(rep, res)
	if res.Violated != "" {
		rep.Infraf("spec Response: %s violated with Deviations={} (spec bug)\n%s", res.Violated, res.Tail(40))
		return rep
	}
	// 1b. the named deviation must be a counterexample to Refines (the spec can tell the defect apart)
	dev := runTLC(rep, tlc.Run{SpecDir: c.SpecDir(), Module: "Response", Cfg: "Response.cfg",
		Consts: map[string]string{"MAXOPS": "2", "DEV": `{"html-default-status"}`, "EMIT": "FALSE"}})
	if dev == nil {
		return rep
	}
	if dev.Violated != "Refines" {
		rep.Infraf("spec Response: deviation html-default-status should violate Refines, got %q", dev.Violated)
	}
	rep.Coverage["deviation_counterexample"] = dev.Violated
	// 1c. (thorough) unbounded: Apalache discharges the inductive invariant of the commit mechanism reduced to its deciding
	// variables (ResponseInd.tla); ImplIndInv above ties that reduction to the full Impl layer within the TLC bound
	if c.Thorough() {
		ok := apalacheInductive(rep, c.SpecDir(), "ResponseInd.tla", "Init", "IndInit", "IndInv", "CommitOnce")
		rep.Coverage["apalache_inductive_commit_once"] = ok
	}
	g, err := graph.Build(res.Tagged["INIT"], res.Tagged["EDGE"])
	if err != nil {
		rep.Infraf("graph: %v", err)
		return rep
	}
	rep.Coverage["graph_states"] = len(g.States)
	rep.Coverage["graph_edges"] = g.NEdges

	// 2. real server + handler interpreting op codes
	var sb strings.Builder
	restore := rt.CaptureOutput(&sb)
	defer restore()
	sess := rt.NewSession()
	var queue []int
	var cur *commitRec
	var steps []c13Obs
	sess.VM.RegisterFunction("verif_next", func() int {
		steps = append(steps, cur.observe())
		if len(queue) == 0 {
			return -1
		}
		op := queue[0]
		queue = queue[1:]
		return op
	})
	var src strings.Builder
	src.WriteString("use Net\\Http\\Server;\n$server = new Server('127.0.0.1', 0);\n$server->get('/ops', function ($req, $res) {\n  $op = verif_next();\n  while ($op >= 0) {\n")
	for i, a := range c13Alphabet {
		kw := "elseif"
		if i == 0 {
			kw = "if"
		}
		fmt.Fprintf(&src, "    %s ($op == %d) { %s }\n", kw, i, c13Stmt(a))
	}
	src.WriteString("    $op = verif_next();\n  }\n});\n")
	r := sess.Exec(src.String(), "/verif-virtual/c13.zy")
	if r.ParseErr != "" || r.Uncaught != "" || r.Panic != "" {
		rep.Infraf("C13 setup script failed: %+v", r)
		return rep
	}
	sv, _ := sess.Var("server").(interface{ GetSource() any })
	if sv == nil {
		rep.Infraf("C13: $server not found")
		return rep
	}
	mux, _ := sv.GetSource().(*http.ServeMux)
	if mux == nil {
		rep.Infraf("C13: server source is %T", sv.GetSource())
		return rep
	}
	opIndex := map[string]int{}
	for i, a := range c13Alphabet {
		opIndex[jsonStr(a)] = i
	}

	paths, stepsCompared := 0, 0
	nontrivial := map[string]bool{}
	var samples []any
	runPath := func(path []graph.Edge) {
		paths++
		var acts []c13Act
		queue = queue[:0]
		for _, e := range path {
			var a c13Act
			must(json.Unmarshal(e.Act, &a))
			acts = append(acts, a)
			if a.Op == "end" {
				break
			}
			i, ok := opIndex[jsonStr(a)]
			if !ok {
				rep.Infraf("unknown op %s", e.Act)
				return
			}
			queue = append(queue, i)
		}
		ids := make([]string, len(acts))
		for i, a := range acts {
			ids[i] = a.Op + a.A + a.B
			if a.Op == "header" {
				ids[i] = "header" + a.B
			}
		}
		id := "C13/ops=" + strings.ReplaceAll(strings.Join(ids, ","), "/", "")
		cur = &commitRec{rec: httptest.NewRecorder()}
		steps = steps[:0]
		var pan any
		func() {
			defer func() { pan = recover() }()
			mux.ServeHTTP(cur, httptest.NewRequest("GET", "/ops", nil))
		}()
		if pan != nil {
			rep.Add(kf.Mismatch{ID: id, Expected: "no panic", Observed: fmt.Sprint(pan), ObsKey: "panic", Input: acts})
			return
		}
		// steps[0] = initial observation, steps[i] = after op i
		for i, e := range path {
			var st c13State
			must(json.Unmarshal(e.ToState, &st))
			exp := c13Expect(st)
			var got c13Obs
			if st.Ended {
				got = cur.client()
			} else {
				if i+1 >= len(steps) {
					rep.Infraf("C13 %s: handler executed %d steps, path has %d", id, len(steps)-1, len(path))
					return
				}
				got = steps[i+1]
			}
			stepsCompared++
			if !c13Equal(exp, got) {
				rep.Add(kf.Mismatch{ID: id, Expected: exp, Observed: got,
					ObsKey: fmt.Sprintf("step%d:status=%d", i+1, got.Status), Input: acts,
					Detail: map[string]any{"step": i + 1, "spec_state": st}})
				return
			}
		}
		// non-trivial: a status/header op before the commit and some op after the commit
		last := path[len(path)-1]
		var st c13State
		json.Unmarshal(last.ToState, &st)
		if st.Committed && st.N >= 3 {
			nontrivial[id] = true
		}
		if len(samples) < 3 && len(path) == maxOps+1 && paths%97 == 0 {
			samples = append(samples, map[string]any{"ops": acts, "client": cur.client()})
		}
	}
	g.AllPaths(maxOps+1, func(_ string, path []graph.Edge) bool {
		runPath(path)
		return len(rep.Infra) == 0
	})
	exhaustivePaths := paths
	// 3. seeded longer sequences: simulation subgraph with larger MaxOps
	simOps := c.Pick(8, 12)
	sim := runTLC(rep, tlc.Run{SpecDir: c.SpecDir(), Module: "Response", Cfg: "Response.cfg",
		Consts:   map[string]string{"MAXOPS": fmt.Sprint(simOps), "DEV": "{}", "EMIT": "TRUE"},
		Simulate: fmt.Sprintf("num=%d", c.Pick(300, 2000)), Depth: simOps + 2, Seed: c.Seed, Workers: 1})
	if sim != nil {
		sg, err := graph.Build(sim.Tagged["INIT"], sim.Tagged["EDGE"])
		if err != nil {
			rep.Infraf("sim graph: %v", err)
		} else {
			rng := c.Rng()
			for i := 0; i < c.Pick(2000, 20000); i++ {
				_, p := sg.RandomPath(rng, simOps+1)
				if len(p) == 0 {
					continue
				}
				// only complete behaviours (ending in "end") are replayed
				var a c13Act
				json.Unmarshal(p[len(p)-1].Act, &a)
				if a.Op != "end" {
					continue
				}
				runPath(p)
			}
			rep.Coverage["seeded_paths"] = paths - exhaustivePaths
			rep.Coverage["sim_graph_edges"] = sg.NEdges
		}
	}
	c13Middleware(c, rep, sess)
	c13Groups(c, rep)
	rep.Coverage["traces_validated_against_impl"] = paths
	rep.Coverage["evaluations"] = stepsCompared
	rep.Coverage["distinct_nontrivial"] = len(nontrivial)
	rep.Coverage["rule"] = fmt.Sprintf("every maximal path of the Ref state graph with MaxOps=%d (all op sequences of length <= %d over 16 operations, each followed by end) replayed through the real Server/Response objects, projection compared after every step; plus seeded walks of length <= %d; non-trivial = committed behaviours with >= 3 steps", maxOps, maxOps, simOps)
	rep.Coverage["exhaustive"] = true
	rep.Coverage["exhaustive_paths"] = exhaustivePaths
	sort.Slice(samples, func(i, j int) bool { return jsonStr(samples[i]) < jsonStr(samples[j]) })
	if len(samples) == 0 {
		samples = append(samples, "no sample recorded")
	}
	rep.Coverage["samples"] = samples
	return rep
}
