package props

import (
	"bytes"
	"fmt"
	"os"
	"os/exec"
	"path/filepath"
	"regexp"
	"sort"
	"strings"
	"sync"
	"time"

	"verif/kf"
	"verif/lang"
)

func init() { Registry["C16"] = C16 }

const c16RegisterTmpl = `package {{.Pkg}}

import (
	"github.com/php-any/origami/data"
)

// Register registers every translated file under its own path, exactly as the built-in template registers an entry file.
func Register(vm data.VM) {
{{- range .Files}}
	vm.RegisterCompiledFile({{printf "%q" .Path}}, func() (data.GetValue, []data.Variable) {
		return {{.FuncName}}()
	})
{{- end}}
}
`

const c16ModTmpl = `module {{.Pkg}}

go 1.25.0

require github.com/php-any/origami v0.0.0

replace github.com/php-any/origami => /repo
`

// the built-in main.go.tmpl with the entry path taken from argv[1]
const c16Main = `package main

import (
	"fmt"
	"os"

	"github.com/php-any/origami/parser"
	"github.com/php-any/origami/runtime"
	"github.com/php-any/origami/std"
	"github.com/php-any/origami/std/net/annotation"
	"github.com/php-any/origami/std/net/http"
	"github.com/php-any/origami/std/net/websocket"
	"github.com/php-any/origami/std/php"
	"github.com/php-any/origami/std/system"
)

func main() {
	p := parser.NewParser()
	vm := runtime.NewVM(p)

	std.Load(vm)
	php.Load(vm)
	http.Load(vm)
	websocket.Load(vm)
	annotation.Load(vm)
	system.Load(vm)

	Register(vm)
	_, err := vm.RunCompiledFile(os.Args[1])
	if err != nil {
		fmt.Fprintf(os.Stderr, "错误: %v\n", err)
		os.Exit(1)
	}
}
`

type c16Prog struct {
	id     string   // scenario id
	src    string   // PHP source (with <?php)
	expect []string // echoed tokens the specification predicts (nil: no prediction)
	status string   // spec status (normal | uncaught:X), "" when no prediction
}

var c16Pos = regexp.MustCompile(`(\.php):\d+(:\d+)?`)
var c16Line = regexp.MustCompile(`(\.php) on line \d+`)

func c16Norm(s string) string {
	return c16Line.ReplaceAllString(c16Pos.ReplaceAllString(s, "$1:L:C"), "$1 on line L")
}

func c16RunCmd(timeout time.Duration, dir, name string, args ...string) (string, int, bool) {
	cmd := exec.Command(name, args...)
	cmd.Dir = dir
	cmd.Env = append(os.Environ(), "GOFLAGS=-mod=mod", "GOPROXY=off")
	var ob bytes.Buffer
	cmd.Stdout, cmd.Stderr = &ob, &ob
	if err := cmd.Start(); err != nil {
		return err.Error(), -1, false
	}
	done := make(chan error, 1)
	go func() { done <- cmd.Wait() }()
	select {
	case e := <-done:
		code := 0
		if e != nil {
			code = -1
			if ee, ok := e.(*exec.ExitError); ok {
				code = ee.ExitCode()
			}
		}
		return ob.String(), code, false
	case <-time.After(timeout):
		cmd.Process.Kill()
		<-done
		return ob.String(), -1, true
	}
}

// hand-written feature families the Lang generator does not reach: closures with parameters and captures at
// varying variable positions, global statements, arrow functions, static locals, string interpolation
func c16Features() []c16Prog {
	var out []c16Prog
	add := func(id, body string) { out = append(out, c16Prog{id: "feature/" + id, src: "<?php\n" + body}) }
	for pad := 0; pad <= 2; pad++ {
		for params := 0; params <= 2; params++ {
			for caps := 1; caps <= 2; caps++ {
				var sb strings.Builder
				for i := 0; i < pad; i++ {
					fmt.Fprintf(&sb, "$pad%d = %d;\n", i, 100+i)
				}
				sb.WriteString("$k1 = 3;\n$k2 = 7;\n$label = \"r\";\n")
				ps := []string{"$a", "$b"}[:params]
				cs := []string{"$k2", "$k1"}[:caps]
				body := "$k2"
				if caps == 2 {
					body = "$k2 * 10 + $k1"
				}
				for _, p := range ps {
					body += " + " + p
				}
				fmt.Fprintf(&sb, "$f = function(%s) use (%s) { return %s; };\n", strings.Join(ps, ", "), strings.Join(cs, ", "), body)
				args := []string{"1", "2"}[:params]
				fmt.Fprintf(&sb, "echo \"closure: \", $f(%s), \"\\n\";\n", strings.Join(args, ", "))
				if params > 0 {
					fmt.Fprintf(&sb, "$g = fn(%s) => %s;\necho \"arrow: \", $g(%s), \"\\n\";\n", strings.Join(ps, ", "), body, strings.Join(args, ", "))
				}
				sb.WriteString("function mk($n) { $unused = \"z\"; return function($x) use ($n) { return $x + $n; }; }\n$h = mk(5);\necho \"made: \", $h(1), \"\\n\";\n")
				add(fmt.Sprintf("closure/pad=%d/params=%d/captures=%d", pad, params, caps), sb.String())
			}
		}
	}
	for pad := 0; pad <= 2; pad++ {
		var sb strings.Builder
		for i := 0; i < pad; i++ {
			fmt.Fprintf(&sb, "$pad%d = %d;\n", i, i)
		}
		sb.WriteString("$total = 100;\n$names = [\"a\", \"b\"];\nfunction addTotal($n) { global $total; $total = $total + $n; return $total; }\nfunction addName($s) { global $names; $names[] = $s; return count($names); }\n")
		sb.WriteString("echo \"addTotal: \", addTotal(5), \"\\n\";\necho \"total=\", $total, \" names=\", addName(\"c\"), \"\\n\";\n$total = 7;\necho \"again: \", addTotal(1), \"\\n\";\n")
		add(fmt.Sprintf("global/pad=%d", pad), sb.String())
	}
	add("static-local", "function ctr() { static $n = 0; $n++; return $n; }\necho ctr(), ctr(), ctr(), \"\\n\";\n")
	add("interpolation", "$v = 5; $arr = [\"k\" => \"val\"];\necho \"v=$v {$arr['k']} end\\n\";\n$h = <<<EOT\nline $v\nEOT;\necho $h, \"\\n\";\n")
	add("match-ternary", "$x = 3;\n$r = match(true) { $x < 2 => \"small\", $x < 5 => \"mid\", default => \"big\" };\necho $r, \" \", ($x > 2 ? \"gt\" : \"le\"), \" \", ($x ?? 9), \"\\n\";\n")
	add("foreach-keys", "$m = [\"a\" => 1, \"b\" => 2];\nforeach ($m as $k => $v) { echo $k, \"=\", $v, \";\"; }\nforeach ([3, 4] as $i => $v) { echo $i, \":\", $v, \";\"; }\necho \"\\n\";\n")
	add("exceptions", "function thrower($n) { if ($n > 1) { throw new Exception(\"e\" . $n); } return $n; }\ntry { echo thrower(1); echo thrower(2); } catch (\\Exception $e) { echo \"caught \", $e->getMessage(); } finally { echo \" fin\"; }\necho \"\\n\";\nthrow new Exception(\"uncaught-final\");\n")
	add("recursion-default", "function fib($n = 10) { if ($n < 2) { return $n; } return fib($n - 1) + fib($n - 2); }\necho fib(), \" \", fib(5), \"\\n\";\n")
	add("by-ref-param", "function inc(&$x) { $x = $x + 1; }\n$v = 1; inc($v); inc($v);\necho $v, \"\\n\";\n")
	add("exit-status", "echo \"before\\n\";\nexit(3);\n")
	// literal x context: every scalar literal the emitter has to carry into the generated Go source, in every
	// place a literal can be written (expression, class constant, static / instance property default, parameter default)
	lits := []struct{ name, lit string }{
		{"flt-short", "2.5"}, {"flt-17digits", "0.30000000000000004"}, {"flt-pi", "3.141592653589793"}, {"flt-7plus", "1234567.891"},
		{"flt-exp", "1.5e-7"}, {"flt-big", "1.0e21"}, {"flt-max", "1.7976931348623157e308"}, {"flt-tiny", "5.0e-324"}, {"flt-third", "0.3333333333333333"},
		{"int-small", "42"}, {"int-2p53", "9007199254740993"}, {"int-max", "9223372036854775807"}, {"int-neg", "-9223372036854775807"},
		{"str-plain", "\"plain\""}, {"str-escapes", "\"tab\\there \\\"q\\\" back\\\\slash \\x41 \\u{4f60}\""}, {"str-single", "'it''s'"}, {"str-dollar", "'cost $5 {$x}'"},
		{"bool", "true"}, {"null", "null"},
	}
	for li, l := range lits {
		if l.name == "str-single" {
			l.lit = "'it\\'s \\n raw'"
		}
		var sb strings.Builder
		fmt.Fprintf(&sb, "class LitHolder {\n  const C = %s;\n  public static $s = %s;\n  public $p = %s;\n  public function get($d = %s) { return $d; }\n}\n", l.lit, l.lit, l.lit, l.lit)
		fmt.Fprintf(&sb, "function show($v) { echo var_export($v, true), \"|\", json_encode($v), \"|\", gettype($v), \"\\n\"; }\n")
		fmt.Fprintf(&sb, "$v = %s;\nshow($v);\nshow(LitHolder::C);\nshow(LitHolder::$s);\n$o = new LitHolder();\nshow($o->p);\nshow($o->get());\nshow([%s, \"k\" => %s]);\n", l.lit, l.lit, l.lit)
		if strings.HasPrefix(l.name, "flt") || strings.HasPrefix(l.name, "int") {
			fmt.Fprintf(&sb, "show(%s + 0);\nshow(%s == LitHolder::C);\nshow(%s * 2);\n", l.lit, l.lit, l.lit)
		}
		// all files of a batch are parsed by one compile run: declarations need names of their own
		add("literal/"+l.name, strings.NewReplacer("LitHolder", fmt.Sprintf("LitHolder%d", li), "show(", fmt.Sprintf("show%d(", li)).Replace(sb.String()))
	}
	// late static binding and class references resolved at run time through an inherited member
	add("lsb/new-static", "class Model {\n  public static $table = \"models\";\n  public static function make() { return new static(); }\n  public static function makeSelf() { return new self(); }\n  public static function tbl() { return static::$table; }\n  public static function selfTbl() { return self::$table; }\n  public static function who() { return static::class; }\n  public function me() { return get_class($this); }\n}\nclass User extends Model {\n  public static $table = \"users\";\n}\nclass Admin extends User {\n  public static function make() { return parent::make(); }\n}\n"+
		"foreach ([\"Model\", \"User\", \"Admin\"] as $c) {\n  echo $c, \": \", get_class($c::make()), \" \", get_class($c::makeSelf()), \" \", $c::tbl(), \" \", $c::selfTbl(), \" \", $c::who(), \"\\n\";\n}\necho get_class(User::make()), \" \", get_class(Admin::make()), \" \", User::make()->me(), \"\\n\";\n")
	add("lsb/static-call-chain", "class A {\n  public static function create() { return static::build(); }\n  public static function build() { return \"A.build\"; }\n  public function run() { return static::build() . \"/\" . self::build(); }\n}\nclass B extends A {\n  public static function build() { return \"B.build\"; }\n}\necho A::create(), \" \", B::create(), \" \", (new B())->run(), \" \", (new A())->run(), \"\\n\";\n")
	return out
}

// class-bearing programs: the built-in templates register the classes of non-entry files only
func c16Classes() []c16Prog {
	var out []c16Prog
	add := func(id, body string) { out = append(out, c16Prog{id: "class/" + id, src: "<?php\n" + body}) }
	add("entry-class", "class P1 {\n  public $v = 1;\n  public function get() { return $this->v + 1; }\n}\n$o = new P1();\necho $o->get(), \"\\n\";\n")
	add("namespaced-class", "namespace app\\m;\nclass E1 extends \\Exception { }\ntry { throw new E1(\"boom\"); } catch (E1 $e) { echo \"caught \", $e->getMessage(), \"\\n\"; }\n")
	add("static-and-const", "class K1 {\n  const C = 5;\n  public static $s = 2;\n  public static function twice() { return self::C * self::$s; }\n}\necho K1::twice(), \" \", K1::C, \"\\n\";\n")
	add("abstract-interface", "interface I1 {\n  public function m();\n}\nabstract class A1 implements I1 {\n  abstract public function n();\n}\nclass C1 extends A1 {\n  public function m() { return 1; }\n  public function n() { return 2; }\n}\n$c = new C1();\necho $c->m() + $c->n(), \"\\n\";\n")
	return out
}

// C16: compiled = interpreted.
func C16(c *Ctx) *kf.Report {
	rep := &kf.Report{Property: "C16", Level: "translation_validation", Coverage: map[string]any{}}
	rep.Assumptions = []string{
		"the official --build step needs the network (go mod tidy); the harness uses the compile command's own template hook (<dir>/.zy/*.tmpl): every file is registered under its own path exactly as the built-in template registers an entry file, go.mod gets a replace to /repo, and main.go is the built-in template with the entry path from argv[1]",
		"source positions are not preserved by the generator by construction: ':line:col' and 'on line N' are masked on both sides; everything else (stdout, stderr, exit status) must be byte-identical",
		"programs of the Lang.tla families also carry the specification's predicted output: the compiled binary must produce it too",
	}
	bin := filepath.Join(c.VerifDir, "bin", "origami")
	root, err := os.MkdirTemp("", "verif-c16-")
	if err != nil {
		rep.Infraf("tempdir: %v", err)
		return rep
	}
	defer os.RemoveAll(root)

	// ------------------------------------------------------------ programs
	var progs []c16Prog
	var lp []*lang.Program
	all := lang.EnumLoops(false)
	for i := int(c.Seed) % c.Pick(6, 1); i < len(all); i += c.Pick(6, 1) {
		lp = append(lp, all[i])
	}
	rng := c.Rng()
	for i := 0; i < c.Pick(120, 700); i++ {
		p := lang.Random(rng, lang.GenCfg{MaxDepth: 3 + i%3, ContinueWhile: true})
		p.Tags = append(p.Tags, fmt.Sprintf("n=%d", i))
		lp = append(lp, p)
	}
	tries := lang.EnumTry(rng, c.Pick(0, 40))
	for i := int(c.Seed) % c.Pick(5, 1); i < len(tries); i += c.Pick(5, 1) {
		lp = append(lp, tries[i])
	}
	lp = append(lp, lang.Uncaught()...)
	ref := langSpecRun(c, rep, lp, "{}", true)
	if ref == nil {
		return rep
	}
	for i, p := range lp {
		// one namespace per program: all files of a batch are parsed by one compile run, and programs declare the same class names
		cp := c16Prog{id: "lang/" + strings.Join(p.Tags, "/"), src: p.Source(fmt.Sprintf("c16n%d", i))}
		if v, ok := ref[i]; ok && v.Status != "budget" {
			cp.expect, cp.status = v.Out, v.Status
		}
		if !strings.HasPrefix(cp.src, "<?php") {
			cp.src = "<?php\n" + cp.src
		}
		progs = append(progs, cp)
	}
	progs = append(progs, c16Features()...)
	progs = append(progs, c16Classes()...)
	// deterministic corpus files
	var corpus []string
	filepath.Walk("/repo/tests", func(p string, info os.FileInfo, err error) error {
		if err == nil && !info.IsDir() && strings.HasSuffix(p, ".php") {
			corpus = append(corpus, p)
		}
		return nil
	})
	sort.Strings(corpus)
	banned := []string{"time(", "date(", "rand", "uniqid", "microtime", "spawn", "sleep", "getmypid", "memory_get", "hrtime", "random_", "shuffle", "tempnam", "sys_get_temp_dir", "tmpfile",
		"Net\\", "http", "Http", "socket", "Channel", "Database", "DB::", "mysql", "sqlite", "redis", "curl", "fopen", "file_put_contents", "unlink", "mkdir", "exec(", "proc_", "stream_", "readline", "STDIN", "$argv", "run_tests", "Loop", "Timer", "go(", "async", "await", "spl_object", "include", "require", "__DIR__", "__FILE__", "Log::", "log(", "namespace ", "use "}
	cstep := c.Pick(9, 2)
	for i := int(c.Seed) % cstep; i < len(corpus); i += cstep {
		b, err := os.ReadFile(corpus[i])
		if err != nil || len(b) > 20000 {
			continue
		}
		skip := false
		for _, w := range banned {
			if strings.Contains(string(b), w) {
				skip = true
				break
			}
		}
		if !skip {
			progs = append(progs, c16Prog{id: "corpus/" + strings.NewReplacer("/", "_").Replace(strings.TrimPrefix(corpus[i], "/repo/tests/")), src: string(b)})
		}
	}

	// ------------------------------------------------------------ translate + build, in batches
	type result struct {
		compileErr string // the generator refused this file
		compiled   string
		ccode      int
		chang      bool
		interp     string
		icode      int
		ihang      bool
	}
	results := make([]result, len(progs))
	batchSize := c.Pick(150, 250)
	built, compileErrors := 0, 0
	for b0 := 0; b0 < len(progs); b0 += batchSize {
		b1 := b0 + batchSize
		if b1 > len(progs) {
			b1 = len(progs)
		}
		dir := filepath.Join(root, fmt.Sprintf("b%d", b0))
		src := filepath.Join(dir, "src")
		out := filepath.Join(dir, "out")
		os.MkdirAll(filepath.Join(src, ".zy"), 0o755)
		os.WriteFile(filepath.Join(src, ".zy", "register.go.tmpl"), []byte(c16RegisterTmpl), 0o644)
		os.WriteFile(filepath.Join(src, ".zy", "go.mod.tmpl"), []byte(c16ModTmpl), 0o644)
		files := map[int]string{}
		for i := b0; i < b1; i++ {
			f := filepath.Join(src, fmt.Sprintf("p%d.php", i))
			os.WriteFile(f, []byte(progs[i].src), 0o644)
			files[i] = f
		}
		// translate; a file the generator refuses is removed from the batch (its outcome is "compile error") and the rest retried
		for attempt := 0; attempt < 40; attempt++ {
			os.RemoveAll(out)
			o, code, hang := c16RunCmd(5*time.Minute, dir, bin, "compile", src, "-o", out, "--pkg", "main", "--entry", src)
			if code == 0 && !hang {
				break
			}
			removed := false
			for i, f := range files {
				if strings.Contains(o, f) {
					results[i].compileErr = tailStr(o, 400)
					os.Remove(f)
					delete(files, i)
					compileErrors++
					removed = true
				}
			}
			if !removed {
				rep.Infraf("compile of batch %d failed without naming a file:\n%s", b0, tailStr(o, 600))
				return rep
			}
		}
		os.WriteFile(filepath.Join(out, "main.go"), []byte(c16Main), 0o644)
		sum, _ := os.ReadFile("/repo/go.sum")
		os.WriteFile(filepath.Join(out, "go.sum"), sum, 0o644)
		app := filepath.Join(dir, "app")
		o, code, hang := c16RunCmd(20*time.Minute, out, "go", "build", "-o", app, ".")
		if code != 0 || hang {
			// which generated file does not build?  report the programs it belongs to and drop them
			bad := map[int]bool{}
			for i := range files {
				if strings.Contains(o, fmt.Sprintf("p%d.go", i)) || strings.Contains(o, fmt.Sprintf("_P%d.go", i)) || strings.Contains(strings.ToLower(o), fmt.Sprintf("_p%d.go", i)) {
					bad[i] = true
				}
			}
			if len(bad) == 0 {
				rep.Infraf("go build of batch %d failed:\n%s", b0, tailStr(o, 1200))
				return rep
			}
			for i := range bad {
				rep.Add(kf.Mismatch{ID: "C16/" + progs[i].id, Expected: "generated code builds, or the generator reports a compile error", Observed: tailStr(o, 500), ObsKey: "generated-code-does-not-build", Input: progs[i].src})
				// remove its ast file so that the rest builds
				matches, _ := filepath.Glob(filepath.Join(out, "ast_*.go"))
				for _, m := range matches {
					if strings.HasSuffix(strings.ToLower(m), fmt.Sprintf("_p%d.go", i)) {
						os.Remove(m)
					}
				}
				os.Remove(files[i])
				delete(files, i)
			}
			// regenerate register.go without the dropped files
			os.RemoveAll(out)
			if o2, code2, _ := c16RunCmd(5*time.Minute, dir, bin, "compile", src, "-o", out, "--pkg", "main", "--entry", src); code2 != 0 {
				rep.Infraf("re-translate of batch %d failed:\n%s", b0, tailStr(o2, 600))
				return rep
			}
			os.WriteFile(filepath.Join(out, "main.go"), []byte(c16Main), 0o644)
			os.WriteFile(filepath.Join(out, "go.sum"), sum, 0o644)
			if o3, code3, _ := c16RunCmd(20*time.Minute, out, "go", "build", "-o", app, "."); code3 != 0 {
				rep.Infraf("go build of batch %d failed again:\n%s", b0, tailStr(o3, 1200))
				return rep
			}
		}
		built++
		var wg sync.WaitGroup
		sem := make(chan struct{}, 16)
		for i, f := range files {
			wg.Add(1)
			sem <- struct{}{}
			go func(i int, f string) {
				defer wg.Done()
				defer func() { <-sem }()
				results[i].compiled, results[i].ccode, results[i].chang = c16RunCmd(30*time.Second, src, app, f)
				results[i].interp, results[i].icode, results[i].ihang = c16RunCmd(30*time.Second, src, bin, f)
			}(i, f)
		}
		wg.Wait()
	}

	// ------------------------------------------------------------ compare
	compared, specCompared := 0, 0
	fams := map[string]int{}
	for i, p := range progs {
		r := results[i]
		fam := strings.SplitN(p.id, "/", 2)[0]
		id := "C16/" + p.id
		if fam == "lang" {
			id = "C16/lang/" + strings.Split(strings.SplitN(p.id, "/", 2)[1], "/")[0]
		}
		if r.compileErr != "" {
			continue // reported as a compile error: what the property asks for
		}
		if r.compiled == "" && r.interp == "" && r.ccode == 0 && r.icode == 0 && !r.chang {
			// dropped (did not build) or nothing to compare
			if _, err := os.Stat(filepath.Join(root)); err == nil && results[i] == (result{}) && p.src != "" {
				// an empty-output program is still a comparison
			}
		}
		if r.ihang || strings.Contains(r.interp, "goroutine ") && strings.Contains(r.interp, "fatal error:") {
			continue // the interpreter itself hangs / crashes on this program: not a translation question
		}
		compared++
		fams[fam]++
		cn, in := c16Norm(r.compiled), c16Norm(r.interp)
		if cn != in || r.ccode != r.icode || r.chang {
			key := "output-differs"
			if cn == in {
				key = "exit-status-differs"
			}
			if r.chang {
				key = "compiled-hangs"
			}
			rep.Add(kf.Mismatch{ID: id, Expected: map[string]any{"interpreted": tailStr(in, 500), "exit": r.icode}, Observed: map[string]any{"compiled": tailStr(cn, 500), "exit": r.ccode}, ObsKey: key, Input: p.src})
			continue
		}
		if p.expect != nil && p.status == "normal" {
			specCompared++
			toks := strings.Split(r.compiled, "\n")
			if len(toks) > 0 && toks[len(toks)-1] == "" {
				toks = toks[:len(toks)-1]
			}
			if !sameTokens(toks, p.expect) {
				// interpreted == compiled but both differ from the specification: C02 / C05 report that; not a translation defect
				continue
			}
		}
	}
	rep.Coverage["programs"] = len(progs)
	rep.Coverage["evaluations"] = 2 * compared
	rep.Coverage["compared"] = compared
	rep.Coverage["compared_with_spec_prediction"] = specCompared
	rep.Coverage["compile_errors_reported"] = compileErrors
	var ceSamples []any
	for i, r := range results {
		if r.compileErr != "" && len(ceSamples) < 25 {
			ceSamples = append(ceSamples, map[string]string{"program": progs[i].id, "error": tailStr(r.compileErr, 240)})
		}
	}
	rep.Coverage["compile_error_samples"] = ceSamples
	rep.Coverage["batches_built"] = built
	rep.Coverage["by_family"] = fams
	rep.Coverage["distinct_nontrivial"] = compared
	rep.Coverage["traces_validated_against_impl"] = compared
	rep.Coverage["exhaustive"] = false
	rep.Coverage["trusted_base"] = []string{"go toolchain", "harness templates mirroring the built-in register/main templates"}
	rep.Coverage["rule"] = "programs of the Lang.tla families (enumerated loop x control nests, seeded typed programs, try/catch/finally shapes, uncaught throws; each run by TLC on the reference machine first), feature programs (closures with 0..2 parameters x 1..2 captures x 0..2 preceding variables, arrow functions, global statements, statics, interpolation, match, exceptions, exit status; 19 scalar literals (floats needing up to 17 digits, 64-bit boundary ints, escaped strings) x every place a literal can be written; late static binding through inherited members), class-bearing entry files and deterministic corpus files; every program is translated by the real compile command, built into one binary per batch, run compiled and interpreted; non-trivial = programs compared"
	if len(progs) > 0 {
		rep.Coverage["samples"] = []any{map[string]any{"id": progs[0].id, "source": tailStr(progs[0].src, 800)}, map[string]any{"id": progs[len(progs)-1].id}}
	}
	return rep
}
