package props

import (
	"bytes"
	"encoding/json"
	"fmt"
	"io"
	"os"
	"os/exec"
	"path/filepath"
	"regexp"
	"sort"
	"strings"
	"sync"
	"time"

	"github.com/php-any/origami/data"

	"verif/graph"
	"verif/kf"
	"verif/lang"
	"verif/rt"
	"verif/tlc"
)

func init() {
	Registry["C20"] = C20
	Workers["c20seq"] = c20SeqWorker
}

// c20SeqWorker runs the files named in VERIF_FILES (JSON list) one after the other, each on a freshly created
// parser + VM, the way the CLI runs one file (LoadAndRun, uncaught control printed by the parser's printer),
// and prints a JSON list of what each wrote to stdout+stderr.
func c20SeqWorker() {
	var files []string
	json.Unmarshal([]byte(os.Getenv("VERIF_FILES")), &files)
	realOut := os.Stdout
	var outs []string
	for _, f := range files {
		r, w, _ := os.Pipe()
		oldOut, oldErr := os.Stdout, os.Stderr
		os.Stdout, os.Stderr = w, w
		done := make(chan string)
		go func() { b, _ := io.ReadAll(r); done <- string(b) }()
		func() {
			defer func() {
				if rec := recover(); rec != nil {
					fmt.Fprintf(w, "\n[go-panic] %v\n", rec)
				}
			}()
			vm, p := rt.NewVM()
			vm.SetThrowControl(func(acl data.Control) { p.ShowControl(acl) })
			_, acl := vm.LoadAndRun(f)
			if acl != nil {
				vm.ThrowControl(acl)
			}
		}()
		w.Close()
		os.Stdout, os.Stderr = oldOut, oldErr
		outs = append(outs, <-done)
	}
	b, _ := json.Marshal(outs)
	fmt.Fprintf(realOut, "\x01C20-RESULT %s\n", b)
}

// c20Seq runs the files in one fresh worker process and returns their outputs.
func c20Seq(self string, files []string) ([]string, string) {
	fj, _ := json.Marshal(files)
	cmd := exec.Command(self, "-worker", "c20seq")
	cmd.Env = append(os.Environ(), "VERIF_FILES="+string(fj))
	var ob, eb bytes.Buffer
	cmd.Stdout, cmd.Stderr = &ob, &eb
	if err := cmd.Start(); err != nil {
		return nil, err.Error()
	}
	done := make(chan error, 1)
	go func() { done <- cmd.Wait() }()
	select {
	case <-done:
	case <-time.After(60 * time.Second):
		cmd.Process.Kill()
		<-done
		return nil, "hang"
	}
	for _, l := range strings.Split(ob.String(), "\n") {
		if strings.HasPrefix(l, "\x01C20-RESULT ") {
			var outs []string
			if json.Unmarshal([]byte(l[len("\x01C20-RESULT "):]), &outs) == nil {
				return outs, ""
			}
		}
	}
	return nil, "no result: " + tailStr(ob.String()+eb.String(), 400)
}

// touch / observe programs per slot of ProcState.tla; @DIR@ is the scratch directory
var c20Touch = map[string]string{
	"nothing":           "$unused = 1;\n",
	"function":          "function c20f() { return 1; }\n",
	"class":             "class C20K { }\n",
	"constant":          "define(\"C20C\", 5);\n",
	"global-var":        "$c20g = 5;\nfunction c20t() { global $c20g; $c20g = 6; }\nc20t();\n",
	"static-prop":       "class C20SP {\n  public static $n = 0;\n}\nC20SP::$n = 7;\n",
	"static-local":      "function c20ctr() { static $n = 0; $n++; return $n; }\nc20ctr(); c20ctr();\n",
	"ini":               "ini_set(\"precision\", \"5\");\nini_set(\"c20.custom\", \"A\");\n",
	"ob-stack":          "ob_start();\necho \"buffered-by-A\";\n",
	"output-flag":       "echo \"A-output\\n\";\n",
	"include-once":      "include_once \"@DIR@/lib.php\";\n",
	"autoloader":        "spl_autoload_register(function($c) { echo \"[A-autoload:\", $c, \"]\"; });\n",
	"error-handler":     "set_error_handler(function($no, $str) { echo \"[A-error-handler]\"; return true; });\n",
	"exception-handler": "set_exception_handler(function($e) { echo \"[A-exception-handler]\"; });\n",
	"shutdown-fn":       "register_shutdown_function(function() { echo \"[A-shutdown]\"; });\n",
	"timezone":          "date_default_timezone_set(\"Asia/Tokyo\");\n",
	"locale":            "setlocale(LC_ALL, \"C\");\n",
	"superglobal":       "$_GET[\"c20k\"] = \"A\";\n$_SERVER[\"C20S\"] = \"A\";\n",
	"env":               "putenv(\"C20ENV=A\");\n",
	"class-case":        "class C20Tally {\n  public static $n = 40;\n  public static function who() { self::$n++; return \"A:\" . self::$n; }\n}\necho c20tally::who();\n$t = new c20TALLY();\n",
	"interface":         "interface C20Iface { }\nclass C20Impl implements c20iface { }\necho (new C20Impl()) instanceof C20IFACE ? \"y\" : \"n\";\n",
	"trait":             "trait C20Tr {\n  public function hi() { return \"A\"; }\n}\nclass C20UsesTr {\n  use C20Tr;\n}\necho (new C20UsesTr())->hi();\n",
	"included-file":     "include \"@DIR@/lib.php\";\necho c20lib();\n",
}
var c20Observe = map[string]string{
	"function":          "echo function_exists(\"c20f\") ? \"yes\" : \"no\";\n",
	"class":             "echo class_exists(\"C20K\") ? \"yes\" : \"no\";\n",
	"constant":          "echo defined(\"C20C\") ? \"yes\" : \"no\";\n",
	"global-var":        "function c20o() { global $c20g; echo isset($c20g) ? \"set\" : \"unset\"; }\nc20o();\n",
	"static-prop":       "class C20SP {\n  public static $n = 0;\n}\necho C20SP::$n;\n",
	"static-local":      "function c20ctr() { static $n = 0; $n++; return $n; }\necho c20ctr();\n",
	"ini":               "echo ini_get(\"precision\"), \"|\", ini_get(\"c20.custom\");\n",
	"ob-stack":          "echo ob_get_level(), \"|visible\";\n",
	"output-flag":       "abstract class C20Shape {\n    final abstract function area();\n}\necho \"unreachable\\n\";\n",
	"include-once":      "include_once \"@DIR@/lib.php\";\necho function_exists(\"c20lib\") ? \"yes\" : \"no\";\n",
	"autoloader":        "echo class_exists(\"C20Missing\") ? \"yes\" : \"no\";\n",
	"error-handler":     "trigger_error(\"b-warning\", E_USER_WARNING);\necho \"after\";\n",
	"exception-handler": "echo \"before\";\nthrow new Exception(\"b-uncaught\");\n",
	"shutdown-fn":       "echo \"b-done\";\n",
	"timezone":          "echo date_default_timezone_get();\n",
	"locale":            "echo json_encode(setlocale(LC_ALL, 0));\n",
	"superglobal":       "echo isset($_GET[\"c20k\"]) ? \"get-set\" : \"get-unset\", \"|\", isset($_SERVER[\"C20S\"]) ? \"server-set\" : \"server-unset\";\n",
	"env":               "echo json_encode(getenv(\"C20ENV\"));\n",
	"class-case":        "class C20TALLY {\n  public static $n = 2;\n  public static function who() { self::$n++; return \"B:\" . self::$n; }\n}\necho c20tally::who(), \"|\", get_class(new c20Tally());\n",
	"interface":         "echo interface_exists(\"C20Iface\", false) ? \"yes\" : \"no\", \"|\", interface_exists(\"c20iface\", false) ? \"yes\" : \"no\";\n",
	"trait":             "trait C20Tr {\n  public function hi() { return \"B\"; }\n}\nclass C20UsesTr {\n  use C20Tr;\n}\necho (new C20UsesTr())->hi();\n",
	"included-file":     "include \"@DIR@/lib.php\";\necho function_exists(\"c20lib\") ? \"yes\" : \"no\";\n",
}

// programs whose output depends on an enumeration order or a lookup among several candidates
var c20TS = regexp.MustCompile(`\d{4}-\d{2}-\d{2} \d{2}:\d{2}:\d{2}`)

var c20OrderPrograms = map[string]string{
	"object-default-props": "class P1 {\n  public $zeta = 1;\n  public $alpha = 2;\n  public $mid = 3;\n  public $beta = 4;\n  public $omega = 5;\n  public $kappa = 6;\n}\n$o = new P1();\nforeach ($o as $k => $v) { echo $k, \"=\", $v, \",\"; }\necho \"\\n\", json_encode($o), \"\\n\", var_export($o, true), \"\\n\";\n",
	"inherited-props":      "class B1 {\n  public $b1 = 1;\n  public $b2 = 2;\n  public $b3 = 3;\n}\nclass C1 extends B1 {\n  public $c1 = 4;\n  public $c2 = 5;\n  public $c3 = 6;\n}\n$o = new C1();\necho json_encode($o), \"\\n\";\nforeach ($o as $k => $v) { echo $k, \",\"; }\necho \"\\n\";\n",
	"dynamic-props":        "class D1 { }\n$o = new D1();\n$o->z = 1; $o->a = 2; $o->m = 3; $o->b = 4; $o->y = 5;\nunset($o->m);\n$o->m = 6;\necho json_encode($o), \"\\n\";\nforeach ($o as $k => $v) { echo $k, \",\"; }\necho \"\\n\";\n",
	"keyed-array":          "$m = [];\n$m[\"z\"] = 1; $m[\"a\"] = 2; $m[\"m\"] = 3; $m[\"b\"] = 4; $m[\"y\"] = 5; $m[\"c\"] = 6;\nunset($m[\"a\"]);\n$m[\"a\"] = 7;\necho json_encode($m), \"\\n\";\nforeach ($m as $k => $v) { echo $k, \"=\", $v, \",\"; }\necho \"\\n\", implode(\",\", array_keys($m)), \"\\n\";\n",
	"json-decode-order":    "$d = json_decode('{\"z\":1,\"a\":2,\"m\":{\"y\":1,\"b\":2,\"x\":3},\"b\":4,\"q\":5,\"c\":6}', true);\necho json_encode($d), \"\\n\";\nforeach ($d as $k => $v) { echo $k, \",\"; }\n$o = json_decode('{\"z\":1,\"a\":2,\"m\":3,\"b\":4,\"q\":5}');\necho \"\\n\", json_encode($o), \"\\n\";\n",
	"class-lookup-case":    "class MixedCase { public function who() { return \"MixedCase\"; } }\nclass MIXEDCASE2 { public function who() { return \"MIXEDCASE2\"; } }\n$a = new mixedcase();\n$b = new mixedcase2();\necho $a->who(), \",\", $b->who(), \"\\n\";\necho get_class($a), \"\\n\";\n",
	"methods-and-statics":  "class M1 {\n  public static $s1 = 1;\n  public static $s2 = 2;\n  public static $s3 = 3;\n  const K1 = 1;\n  const K2 = 2;\n  public function ma() { }\n  public function mz() { }\n  public function mb() { }\n  public function my() { }\n}\necho json_encode(new M1()), \"\\n\";\n$r = new ReflectionClass(\"M1\");\necho json_encode($r->getMethods()), \"\\n\";\n\n",
	"trait-props":          "trait T1 {\n  public $t1z = 1;\n  public $t1a = 2;\n  public $t1m = 3;\n  public $t1b = 4;\n  public function tm1() { }\n  public function tm0() { }\n}\ntrait T2 {\n  public $t2y = 5;\n  public $t2c = 6;\n  public $t2q = 7;\n  public static $ts2 = 1;\n  public static $ts1 = 2;\n}\nclass U1 {\n  use T1, T2;\n  public $own2 = 8;\n  public $own1 = 9;\n}\n$o = new U1();\nforeach ($o as $k => $v) { echo $k, \"=\", $v, \",\"; }\necho \"\\n\", json_encode($o), \"\\n\", var_export($o, true), \"\\n\";\n",
	"array-functions":      "$s = [\"z\" => 1, \"a\" => 2, \"m\" => 1, \"b\" => 3, \"y\" => 2, \"c\" => 5, \"x\" => 4];\n$t = [\"m\" => 9, \"q\" => 8, \"a\" => 7, \"r\" => 6];\nfunction kv($a) { $o = \"\"; foreach ($a as $k => $v) { $o = $o . $k . \"=\" . (is_array($v) ? json_encode($v) : $v) . \",\"; } return $o; }\necho kv(array_merge($s, $t)), \"\\n\", kv(array_replace($s, $t)), \"\\n\", implode(\",\", array_values($s)), \"\\n\", kv(array_unique($s)), \"\\n\", kv(array_filter($s)), \"\\n\", kv(array_slice($s, 2, 3)), \"\\n\", kv(array_flip($s)), \"\\n\", kv(array_merge_recursive([\"p\" => $s], [\"p\" => $t])), \"\\n\", kv(array_replace_recursive([\"p\" => $s], [\"p\" => $t])), \"\\n\", kv(array_combine(array_keys($s), array_values($s))), \"\\n\", strtr(\"zambyx\", $s), \"\\n\", kv(array_intersect($s, [1, 2])), \"\\n\", kv(array_diff($s, [1])), \"\\n\", kv(array_fill_keys(array_keys($s), 0)), \"\\n\", var_export($s, true), \"\\n\", serialize($s), \"\\n\";\n[\"b\" => $bb, \"z\" => $zz] = $s;\necho $bb, $zz, \"\\n\";\n",
	"object-ids":           "class I1 { }\n$a = new I1(); $b = new I1();\necho spl_object_id($a), \",\", spl_object_id($b), \"\\n\";\nvar_dump($b);\n",
	"serialize-object":     "class S1 {\n  public $q = 1;\n  public $a = \"x\";\n  public $n = [3 => 1, \"k\" => 2];\n  public $b = 1.5;\n}\necho serialize(new S1()), \"\\n\", json_encode(unserialize(serialize([\"z\" => 1, \"a\" => [\"y\" => 2, \"b\" => 3]]))), \"\\n\";\n",
}

type c20Edge struct {
	From []struct {
		K string
		V int
	}
	Act struct {
		Op string
		K  string
		V  int
	}
	To []struct {
		K string
		V int
	}
}

// C20: determinism and no leakage between VMs.
func C20(c *Ctx) *kf.Report {
	rep := &kf.Report{Property: "C20", Level: "model_checking", Coverage: map[string]any{}}
	rep.Assumptions = []string{
		"a fresh VM is what the CLI creates for one file: parser + VM + standard library, LoadAndRun, uncaught controls printed by the parser's printer; (A;B) histories run in one fresh worker process per pair",
		"repetition detects a 2-way order dependence that surfaces with probability p per run with probability 1-(1-p)^n; n is chosen per program family (20 for enumeration-order programs, 5 for corpus files, 3 for generated programs)",
		"log timestamps (YYYY-MM-DD hh:mm:ss) in outputs are masked; corpus files that use time, randomness, processes, network, sleeping or files outside the repository are excluded by a keyword list",
	}
	dir, err := os.MkdirTemp("", "verif-c20-")
	if err != nil {
		rep.Infraf("tempdir: %v", err)
		return rep
	}
	defer os.RemoveAll(dir)
	write := func(name, src string) string {
		f := filepath.Join(dir, name)
		os.WriteFile(f, []byte("<?php\n"+strings.ReplaceAll(src, "@DIR@", dir)), 0o644)
		return f
	}
	os.WriteFile(filepath.Join(dir, "lib.php"), []byte("<?php\nfunction c20lib() { return 1; }\n"), 0o644)
	evals := 0

	// ------------------------------------------------------------ 1. OrderedMap.tla: every path on data.OrderedMap and through scripts
	res := runTLC(rep, tlc.Run{SpecDir: c.SpecDir(), Module: "OrderedMap", Cfg: "OrderedMap.cfg", Workers: 8, Timeout: 10 * time.Minute})
	if res == nil {
		return rep
	}
	addTLC(rep, res)
	if res.Violated != "" {
		rep.Infraf("spec OrderedMap: %s violated\n%s", res.Violated, res.Tail(20))
		return rep
	}
	g, gerr := graph.Build([]json.RawMessage{json.RawMessage("[]")}, res.Tagged["EDGE"])
	if gerr != nil {
		rep.Infraf("graph: %v", gerr)
		return rep
	}
	nEdges := len(res.Tagged["EDGE"])
	rng := c.Rng()
	render := func(st []struct {
		K string
		V int
	}) string {
		var sb strings.Builder
		for _, e := range st {
			fmt.Fprintf(&sb, "%s=%d,", e.K, e.V)
		}
		return sb.String()
	}
	edgesCovered := map[string]bool{}
	walks := c.Pick(300, 3000)
	var walkScripts []string
	var walkExpect [][]string
	for w := 0; w < walks; w++ {
		_, path := g.RandomPath(rng, 14)
		om := data.NewOrderedMap()
		var arr, obj strings.Builder
		arr.WriteString("$m = [];\n")
		obj.WriteString("class C20W { }\n$o = new C20W();\n")
		var expect []string
		for _, ge := range path {
			var e c20Edge
			must(json.Unmarshal(ge.Act, &e.Act))
			must(json.Unmarshal(ge.ToState, &e.To))
			edgesCovered[ge.From+"|"+string(ge.Act)] = true
			switch e.Act.Op {
			case "set":
				om.Set(e.Act.K, data.NewIntValue(e.Act.V))
				fmt.Fprintf(&arr, "$m[\"%s\"] = %d;\n", e.Act.K, e.Act.V)
				fmt.Fprintf(&obj, "$o->%s = %d;\n", e.Act.K, e.Act.V)
			case "delete":
				om.Delete(e.Act.K)
				fmt.Fprintf(&arr, "unset($m[\"%s\"]);\n", e.Act.K)
				fmt.Fprintf(&obj, "unset($o->%s);\n", e.Act.K)
			}
			want := render(e.To)
			expect = append(expect, want)
			var got strings.Builder
			om.Range(func(k string, v data.Value) bool { fmt.Fprintf(&got, "%s=%s,", k, v.AsString()); return true })
			var got2 strings.Builder
			for i := 0; i < om.Len(); i++ {
				k, v, _ := om.GetByIndex(i)
				fmt.Fprintf(&got2, "%s=%s,", k, v.AsString())
			}
			evals++
			if got.String() != want || got2.String() != want {
				rep.Add(kf.Mismatch{ID: fmt.Sprintf("C20/orderedmap/go/op=%s", e.Act.Op), Expected: want, Observed: map[string]string{"Range": got.String(), "GetByIndex": got2.String()}, ObsKey: "order-differs", Input: map[string]any{"path_len": len(path), "last_action": e.Act}})
				break
			}
			arr.WriteString("foreach ($m as $k => $v) { echo $k, \"=\", $v, \",\"; } echo \"\\n\";\n")
			obj.WriteString("foreach ($o as $k => $v) { echo $k, \"=\", $v, \",\"; } echo \"\\n\";\n")
		}
		if w < c.Pick(60, 400) && len(path) > 0 {
			walkScripts = append(walkScripts, arr.String(), obj.String())
			walkExpect = append(walkExpect, expect, expect)
		}
	}
	var jobs []Job
	for _, s := range walkScripts {
		jobs = append(jobs, Job{Src: s})
	}
	rs, err := RunJobs(c.Self, jobs, 0, 20*time.Second)
	if err != nil {
		rep.Infraf("pool: %v", err)
		return rep
	}
	for i, r := range rs {
		evals++
		got := strings.Split(r.Out, "\n") // one line per step; an empty map prints an empty line
		if len(got) > 0 && got[len(got)-1] == "" {
			got = got[:len(got)-1]
		}
		if r.Hang || r.Died || r.Panic != "" || r.ParseErr != "" || r.Uncaught != "" {
			rep.Add(kf.Mismatch{ID: "C20/orderedmap/script/kind=crash", Expected: "enumerations", Observed: tailStr(r.Panic+r.ParseErr+r.Uncaught+r.Stderr, 300), ObsKey: "crash", Input: walkScripts[i]})
			continue
		}
		kind := []string{"array", "object"}[i%2]
		for j, want := range walkExpect[i] {
			if j >= len(got) || got[j] != want {
				g := "(missing)"
				if j < len(got) {
					g = got[j]
				}
				// is the only difference that deleted keys are still listed (with an empty value)?
				key := "order-differs"
				var kept []string
				for _, ent := range strings.Split(strings.TrimSuffix(g, ","), ",") {
					if !strings.HasSuffix(ent, "=") {
						kept = append(kept, ent)
					}
				}
				if strings.Join(kept, ",")+"," == want || (want == "" && len(kept) == 0) {
					key = "deleted-key-still-listed"
				}
				rep.Add(kf.Mismatch{ID: "C20/orderedmap/script/kind=" + kind, Expected: want, Observed: g, ObsKey: key, Input: walkScripts[i]})
				break
			}
		}
	}
	rep.Coverage["orderedmap_edges"] = nEdges
	rep.Coverage["orderedmap_edges_walked"] = len(edgesCovered)
	rep.Coverage["orderedmap_walks"] = walks

	// ------------------------------------------------------------ 1b. OrderedOps.tla: array functions as functions of the entry sequence
	if !c20Ops(c, rep, &evals) {
		return rep
	}

	// ------------------------------------------------------------ 2. ProcState.tla: (A;B) vs (B)
	pres := runTLC(rep, tlc.Run{SpecDir: c.SpecDir(), Module: "ProcState", Cfg: "ProcState.cfg", Workers: 4, Timeout: 10 * time.Minute,
		Consts: map[string]string{"PROC": "{}", "EMIT": "TRUE", "INV": "FreshVMIndependence"}})
	if pres == nil {
		return rep
	}
	addTLC(rep, pres)
	if pres.Violated != "" {
		rep.Infraf("spec ProcState: %s violated\n%s", pres.Violated, pres.Tail(20))
		return rep
	}
	// the deviation layer: slots the pinned implementation keeps at process level; the model then predicts which pairs differ
	const c20ProcScoped = `{"ini", "ob-stack", "include-once", "included-file", "autoloader", "superglobal"}`
	dres := runTLC(rep, tlc.Run{SpecDir: c.SpecDir(), Module: "ProcState", Cfg: "ProcState.cfg", Workers: 4, Timeout: 10 * time.Minute,
		Consts: map[string]string{"PROC": c20ProcScoped, "EMIT": "TRUE", "INV": ""}})
	if dres == nil {
		return rep
	}
	predicted := map[string]bool{}
	for _, raw := range dres.Tagged["CASE"] {
		var p struct{ Touch, Observe, Sees string }
		must(json.Unmarshal(raw, &p))
		if p.Sees != "init" {
			predicted[p.Observe+"|"+p.Touch] = true
		}
	}
	type pair struct {
		Touch, Observe string
		Natural        bool
	}
	var pairs []pair
	for _, raw := range pres.Tagged["CASE"] {
		var p pair
		must(json.Unmarshal(raw, &p))
		if _, ok := c20Touch[p.Touch]; !ok {
			rep.Infraf("no touch program for slot %q", p.Touch)
			return rep
		}
		if _, ok := c20Observe[p.Observe]; !ok {
			rep.Infraf("no observe program for slot %q", p.Observe)
			return rep
		}
		pairs = append(pairs, p)
	}
	sort.Slice(pairs, func(a, b int) bool { return pairs[a].Observe+"|"+pairs[a].Touch < pairs[b].Observe+"|"+pairs[b].Touch })
	for k, v := range c20Touch {
		write("touch-"+k+".php", v)
	}
	for k, v := range c20Observe {
		write("observe-"+k+".php", v)
	}
	pairOut := make([]string, len(pairs))
	pairErr := make([]string, len(pairs))
	var wg sync.WaitGroup
	sem := make(chan struct{}, 16)
	for i, p := range pairs {
		wg.Add(1)
		sem <- struct{}{}
		go func(i int, p pair) {
			defer wg.Done()
			defer func() { <-sem }()
			outs, e := c20Seq(c.Self, []string{filepath.Join(dir, "touch-"+p.Touch+".php"), filepath.Join(dir, "observe-"+p.Observe+".php")})
			if e != "" || len(outs) != 2 {
				pairErr[i] = e
				return
			}
			pairOut[i] = outs[1]
		}(i, p)
	}
	wg.Wait()
	alone := map[string]string{}
	for i, p := range pairs {
		if p.Touch == "nothing" {
			alone[p.Observe] = pairOut[i]
		}
	}
	leaks := 0
	for i, p := range pairs {
		evals++
		id := fmt.Sprintf("C20/leak/observe=%s/touch=%s", p.Observe, p.Touch)
		if pairErr[i] != "" {
			rep.Add(kf.Mismatch{ID: id + "/kind=crash", Expected: "both programs run", Observed: pairErr[i], ObsKey: "crash", Input: map[string]string{"A": c20Touch[p.Touch], "B": c20Observe[p.Observe]}})
			continue
		}
		if p.Touch == "nothing" || p.Natural {
			continue
		}
		if pairOut[i] != alone[p.Observe] {
			leaks++
			if predicted[p.Observe+"|"+p.Touch] {
				id = "C20/leak/deviation=process-scoped/slot=" + p.Touch
			}
			rep.Add(kf.Mismatch{ID: id, Expected: map[string]string{"B alone": alone[p.Observe]}, Observed: map[string]string{"B after A": pairOut[i]}, ObsKey: "differs", Input: map[string]string{"A": c20Touch[p.Touch], "B": c20Observe[p.Observe]}})
		}
	}
	rep.Coverage["vm_pairs"] = len(pairs)

	// ------------------------------------------------------------ 3. repetition: same program, fresh processes and fresh VMs
	type prog struct {
		name, file string
		n          int
	}
	var progs []prog
	for k, v := range c20OrderPrograms {
		progs = append(progs, prog{"order:" + k, write("order-"+k+".php", v), 20})
	}
	grng := c.Rng()
	for i := 0; i < c.Pick(60, 600); i++ {
		p := lang.Random(grng, lang.GenCfg{MaxDepth: 3, ContinueWhile: true})
		progs = append(progs, prog{fmt.Sprintf("gen:%d", i), write(fmt.Sprintf("gen-%d.php", i), p.Source("")), 3})
	}
	var corpus []string
	for _, root := range []string{"/repo/tests", "/repo/examples"} {
		filepath.Walk(root, func(p string, info os.FileInfo, err error) error {
			if err == nil && !info.IsDir() && (strings.HasSuffix(p, ".php") || strings.HasSuffix(p, ".zy")) {
				corpus = append(corpus, p)
			}
			return nil
		})
	}
	sort.Strings(corpus)
	banned := []string{"time(", "date(", "rand", "uniqid", "microtime", "spawn", "sleep", "getmypid", "memory_get", "hrtime", "random_", "shuffle", "tempnam", "sys_get_temp_dir", "tmpfile",
		"Net\\", "http", "Http", "socket", "Channel", "Database", "DB::", "mysql", "sqlite", "redis", "curl", "fopen", "file_put_contents", "unlink", "mkdir", "exec(", "proc_", "stream_", "readline", "STDIN", "$argv", "run_tests", "Loop", "Timer", "go(", "async", "await", "exit(", "die(", "spl_object", "include", "require"}
	step := c.Pick(5, 1)
	used := 0
	for i := int(c.Seed) % step; i < len(corpus); i += step {
		b, err := os.ReadFile(corpus[i])
		if err != nil {
			continue
		}
		skip := false
		for _, w := range banned {
			if strings.Contains(string(b), w) {
				skip = true
				break
			}
		}
		if skip {
			continue
		}
		used++
		progs = append(progs, prog{"corpus:" + strings.TrimPrefix(corpus[i], "/repo/"), corpus[i], 5})
	}
	sort.Slice(progs, func(a, b int) bool { return progs[a].name < progs[b].name })
	bin := filepath.Join(c.VerifDir, "bin", "origami")
	type rep2 struct {
		procOuts []string
		vmOuts   []string
		err      string
	}
	results := make([]rep2, len(progs))
	for i, p := range progs {
		wg.Add(1)
		sem <- struct{}{}
		go func(i int, p prog) {
			defer wg.Done()
			defer func() { <-sem }()
			// fresh processes (the CLI)
			for k := 0; k < p.n; k++ {
				cmd := exec.Command(bin, p.file)
				var ob bytes.Buffer
				cmd.Stdout, cmd.Stderr = &ob, &ob
				cmd.Dir = filepath.Dir(p.file)
				if err := cmd.Start(); err != nil {
					results[i].err = err.Error()
					return
				}
				done := make(chan error, 1)
				go func() { done <- cmd.Wait() }()
				select {
				case e := <-done:
					code := 0
					if e != nil {
						if ee, ok := e.(*exec.ExitError); ok {
							code = ee.ExitCode()
						}
					}
					results[i].procOuts = append(results[i].procOuts, fmt.Sprintf("exit=%d\n%s", code, c20TS.ReplaceAllString(ob.String(), "<timestamp>")))
				case <-time.After(30 * time.Second):
					cmd.Process.Kill()
					<-done
					results[i].procOuts = append(results[i].procOuts, "HANG")
				}
			}
			// fresh VMs inside one process
			files := make([]string, p.n)
			for k := range files {
				files[k] = p.file
			}
			outs, e := c20Seq(c.Self, files)
			if e != "" {
				results[i].err = "fresh-VM worker: " + e
				return
			}
			for k := range outs {
				outs[k] = c20TS.ReplaceAllString(outs[k], "<timestamp>")
			}
			results[i].vmOuts = outs
		}(i, p)
	}
	wg.Wait()
	distinctProgs, crashed := 0, 0
	for i, p := range progs {
		r := results[i]
		evals += len(r.procOuts) + len(r.vmOuts)
		kind := strings.SplitN(p.name, ":", 2)[0]
		id := fmt.Sprintf("C20/repeat/%s", strings.NewReplacer("/", "_", "*", "x").Replace(p.name))
		if kind == "gen" {
			id = "C20/repeat/gen"
		}
		src, _ := os.ReadFile(p.file)
		if r.err != "" {
			if r.err == "fresh-VM worker: hang" {
				// the program itself does not terminate in-process (e.g. reads stdin): not a determinism question
				continue
			}
			// the program takes the in-process worker down (e.g. unbounded recursion overflowing the Go stack): a crash is
			// C01 / C02's business; determinism is still judged on the fresh-process runs
			crashed++
			r.vmOuts = nil
		}
		goCrash := false
		for _, o := range r.procOuts {
			if strings.Contains(o, "goroutine ") && (strings.Contains(o, "fatal error:") || strings.Contains(o, "panic:")) {
				goCrash = true // the Go runtime's crash report contains addresses; the crash itself is C01 / C02's business
			}
		}
		if goCrash {
			crashed++
			continue
		}
		distinctProgs++
		for k := 1; k < len(r.procOuts); k++ {
			if r.procOuts[k] != r.procOuts[0] {
				rep.Add(kf.Mismatch{ID: id + "/across=processes", Expected: tailStr(r.procOuts[0], 600), Observed: tailStr(r.procOuts[k], 600), ObsKey: "output-differs", Input: tailStr(string(src), 1500)})
				break
			}
		}
		for k := 1; k < len(r.vmOuts); k++ {
			if r.vmOuts[k] != r.vmOuts[0] {
				rep.Add(kf.Mismatch{ID: id + "/across=fresh-vms", Expected: tailStr(r.vmOuts[0], 600), Observed: tailStr(r.vmOuts[k], 600), ObsKey: fmt.Sprintf("run%d-differs", k), Input: tailStr(string(src), 1500)})
				break
			}
		}
	}
	rep.Coverage["repeated_programs"] = len(progs)
	rep.Coverage["programs_crashing_the_in_process_worker"] = crashed
	rep.Coverage["corpus_files_used"] = used
	rep.Coverage["evaluations"] = evals
	rep.Coverage["traces_validated_against_impl"] = walks + len(pairs) + distinctProgs
	rep.Coverage["distinct_nontrivial"] = len(edgesCovered) + len(pairs) + distinctProgs
	rep.Coverage["leaks_observed"] = leaks
	rep.Coverage["exhaustive"] = false
	rep.Coverage["samples"] = []any{
		map[string]any{"pair": "touch=ini observe=ini", "A": c20Touch["ini"], "B": c20Observe["ini"]},
		map[string]any{"order_program": "keyed-array", "source": c20OrderPrograms["keyed-array"]},
	}
	rep.Coverage["rule"] = "OrderedMap.tla: 633 states / 7596 edges over 4 keys x 2 values, seeded walks of up to 14 steps replayed on data.OrderedMap (Range and GetByIndex after every step) and as keyed-array and object scripts; ProcState.tla: every (touch, observe) pair over 20 slots + touch=nothing, each pair in its own process on two fresh VMs; repetition: enumeration-order programs x20, generated programs x3, deterministic corpus files (quick: every 5th) x5, in fresh processes and in fresh VMs of one process; non-trivial = distinct edges walked + pairs + programs repeated"
	return rep
}

// ---------------------------------------------------------------- OrderedOps.tla

type c20KV struct {
	K string
	V int
}

type c20OpsCase struct {
	S     []c20KV
	Views map[string]json.RawMessage
}

var c20OpsViews = []struct{ name, expr string }{
	{"values", "implode(\",\", array_values($s)) . \",\""},
	{"keys", "implode(\",\", array_keys($s)) . \",\""},
	{"reverse", "kv(array_reverse($s))"},
	{"filter", "kv(array_filter($s, function($v) { return $v > 1; }))"},
	{"map", "kv(array_map(function($v) { return $v * 10; }, $s))"},
	{"unique", "kv(array_unique($s))"},
	{"slice", "kv(array_slice($s, 1, 2))"},
	{"diff_key", "kv(array_diff_key($s, $t))"},
	{"intersect_key", "kv(array_intersect_key($s, $t))"},
	{"merge", "kv(array_merge($s, $t))"},
	{"replace", "kv(array_replace($s, $t))"},
	{"key_first", "array_key_first($s)"},
	{"key_last", "array_key_last($s)"},
	{"search", "array_search(2, $s)"},
	{"ksort", "sorted($s, \"k\")"},
	{"asort", "sorted($s, \"a\")"},
}

func c20RenderView(raw json.RawMessage) string {
	var kvs []c20KV
	if json.Unmarshal(raw, &kvs) == nil && len(kvs) > 0 && kvs[0].K != "" {
		var sb strings.Builder
		for _, e := range kvs {
			fmt.Fprintf(&sb, "%s=%d,", e.K, e.V)
		}
		return sb.String()
	}
	var list []any
	if json.Unmarshal(raw, &list) == nil {
		var sb strings.Builder
		for _, x := range list {
			switch v := x.(type) {
			case float64:
				fmt.Fprintf(&sb, "%d,", int(v))
			default:
				fmt.Fprintf(&sb, "%v,", v)
			}
		}
		return sb.String()
	}
	var str string
	json.Unmarshal(raw, &str)
	return str
}

// c20Ops replays every case of OrderedOps.tla: the array functions must return what the spec computes from
// the entry sequence (same content, same order).
func c20Ops(c *Ctx, rep *kf.Report, evals *int) bool {
	res := runTLC(rep, tlc.Run{SpecDir: c.SpecDir(), Module: "OrderedOps", Cfg: "OrderedOps.cfg", Workers: 4, Timeout: 10 * time.Minute})
	if res == nil {
		return false
	}
	addTLC(rep, res)
	if res.Violated != "" {
		rep.Infraf("spec OrderedOps: %s violated\n%s", res.Violated, res.Tail(20))
		return false
	}
	var cases []c20OpsCase
	var jobs []Job
	for _, raw := range res.Tagged["CASE"] {
		var k c20OpsCase
		must(json.Unmarshal(raw, &k))
		cases = append(cases, k)
		var sb strings.Builder
		sb.WriteString("function kv($a) { $o = \"\"; foreach ($a as $k => $v) { $o = $o . $k . \"=\" . $v . \",\"; } return $o; }\n")
		sb.WriteString("function sorted($a, $how) { if ($how == \"k\") { ksort($a); } else { asort($a); } return kv($a); }\n")
		var lit []string
		for _, e := range k.S {
			lit = append(lit, fmt.Sprintf("\"%s\" => %d", e.K, e.V))
		}
		fmt.Fprintf(&sb, "$s = [%s];\n$t = [\"m\" => 9, \"q\" => 8, \"a\" => 7];\n", strings.Join(lit, ", "))
		for _, v := range c20OpsViews {
			fmt.Fprintf(&sb, "try { $r = %s; echo \"%s|\", $r, \"\\n\"; } catch (\\Throwable $e) { echo \"%s|!\", substr($e->getMessage(), 0, 60), \"\\n\"; }\n", v.expr, v.name, v.name)
		}
		sb.WriteString("echo \"after|\", kv($s), \"\\n\";\n") // none of the calls may change $s (sorted() works on a copy)
		jobs = append(jobs, Job{Src: sb.String()})
	}
	rs, err := RunJobs(c.Self, jobs, 0, 20*time.Second)
	if err != nil {
		rep.Infraf("OrderedOps pool: %v", err)
		return false
	}
	unsupported, otherKeys, otherContent := map[string]int{}, map[string]int{}, map[string]int{}
	compared := 0
	for i, k := range cases {
		r := rs[i]
		if r.Hang || r.Died || r.Panic != "" || r.ParseErr != "" {
			rep.Add(kf.Mismatch{ID: "C20/ops/kind=crash", Expected: "the script runs", Observed: map[string]any{"hang": r.Hang, "panic": tailStr(r.Panic, 200), "parse": r.ParseErr, "stderr": tailStr(r.Stderr, 200)}, ObsKey: "crash", Input: jobs[i].Src})
			continue
		}
		got := map[string]string{}
		for _, l := range strings.Split(r.Out, "\n") {
			if f := strings.SplitN(l, "|", 2); len(f) == 2 {
				got[f[0]] = f[1]
			}
		}
		var sOrig strings.Builder
		for _, e := range k.S {
			fmt.Fprintf(&sOrig, "%s=%d,", e.K, e.V)
		}
		if got["after"] != sOrig.String() {
			rep.Add(kf.Mismatch{ID: "C20/ops/view=receiver-after", Expected: sOrig.String(), Observed: got["after"], ObsKey: "receiver-changed", Input: jobs[i].Src})
		}
		for _, v := range c20OpsViews {
			o, ok := got[v.name]
			if !ok || strings.HasPrefix(o, "!") {
				unsupported[v.name]++
				continue
			}
			want := c20RenderView(k.Views[v.name])
			compared++
			*evals++
			if o == want {
				continue
			}
			// C20 prescribes the ORDER (and that it is the same in every run), not what each function does with
			// keys: compare the value sequences; a result with the same values in the same order under other keys
			// (array_reverse / array_map / array_slice renumber string keys here) is outside this property
			vals := func(x string) []string {
				var out []string
				for _, f := range strings.Split(strings.TrimSuffix(x, ","), ",") {
					if j := strings.IndexByte(f, '='); j >= 0 {
						f = f[j+1:]
					}
					out = append(out, f)
				}
				return out
			}
			a, b := vals(o), vals(want)
			if strings.Join(a, ",") == strings.Join(b, ",") {
				otherKeys[v.name]++
				continue
			}
			sa, sb2 := append([]string{}, a...), append([]string{}, b...)
			sort.Strings(sa)
			sort.Strings(sb2)
			if strings.Join(sa, ",") != strings.Join(sb2, ",") {
				otherContent[v.name]++ // a different set of entries: the function's own semantics, not enumeration order
				continue
			}
			rep.Add(kf.Mismatch{ID: "C20/ops/view=" + v.name, Expected: want, Observed: o, ObsKey: "order-differs", Input: jobs[i].Src})
		}
	}
	rep.Coverage["ops_cases"] = len(cases)
	rep.Coverage["ops_views_compared"] = compared
	rep.Coverage["ops_views_unsupported"] = unsupported
	rep.Coverage["ops_views_same_order_other_keys"] = otherKeys
	rep.Coverage["ops_views_other_entries_not_decided_here"] = otherContent
	for _, must := range []string{"values", "keys", "merge", "filter", "unique"} {
		if unsupported[must] == len(cases) && len(cases) > 0 {
			rep.Infraf("OrderedOps: view %s is never evaluated (vacuous)", must)
		}
	}
	return true
}
