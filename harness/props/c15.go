package props

import (
	"bytes"
	"encoding/json"
	"fmt"
	"strings"

	"verif/kf"
	"verif/rt"
	"verif/tlc"
)

func init() { Registry["C15"] = C15 }

type c15Act struct {
	M    string
	Args []json.RawMessage
	Res  json.RawMessage
}

type c15Edge struct {
	From json.RawMessage
	Act  c15Act
	To   json.RawMessage
}

// plain converts the spec's JSON (trees {k,v}, Null record) into plain JSON values.
func c15Plain(raw json.RawMessage) any {
	var v any
	d := json.NewDecoder(bytes.NewReader(raw))
	d.UseNumber()
	if err := d.Decode(&v); err != nil {
		return string(raw)
	}
	return c15Conv(v)
}

func c15Conv(v any) any {
	switch t := v.(type) {
	case map[string]any:
		if _, ok := t["null"]; ok {
			return nil
		}
		if k, ok := t["k"]; ok {
			if k == "n" {
				return c15Conv(t["v"])
			}
			return c15Conv(t["v"])
		}
		return t
	case []any:
		out := make([]any, len(t))
		for i := range t {
			out[i] = c15Conv(t[i])
		}
		return out
	}
	return v
}

func phpLit(v any) string {
	switch t := v.(type) {
	case nil:
		return "null"
	case json.Number:
		return t.String()
	case string:
		return `"` + strings.NewReplacer(`\`, `\\`, `"`, `\"`, `$`, `\$`).Replace(t) + `"`
	case bool:
		if t {
			return "true"
		}
		return "false"
	case []any:
		parts := make([]string, len(t))
		for i := range t {
			parts[i] = phpLit(t[i])
		}
		return "[" + strings.Join(parts, ", ") + "]"
	}
	return fmt.Sprint(v)
}

var c15Callbacks = map[string]string{
	"even":     "function ($e) { return $e % 2 == 0; }",
	"idxodd":   "function ($e, $i) { return $i % 2 == 1; }",
	"gtlen":    "function ($e, $i, $a) { return $e > $a->length; }",
	"addidx":   "function ($e, $i) { return $e + $i; }",
	"timeslen": "function ($e, $i, $a) { return $e * $a->length; }",
	"fold":     "function ($acc, $cur) { return $acc * 10 + $cur; }",
	"foldidx":  "function ($acc, $cur, $i, $a) { return $acc * 100 + $cur * 10 + $i + $a->length; }",
	"pair":     "function ($e) { return [$e, $e * 2]; }",
	"collect":  "function ($e, $i) { echo ($e * 10 + $i), \",\"; }",
}

// c15ArgList renders the argument list; omitted optionals (99 / "_") may only trail.
func c15ArgList(a c15Act) (string, string) {
	var parts, shape []string
	omitted := false
	for _, raw := range a.Args {
		v := c15Plain(raw)
		if n, ok := v.(json.Number); ok && n.String() == "99" {
			omitted = true
			shape = append(shape, "omit")
			continue
		}
		if s, ok := v.(string); ok && s == "_" {
			omitted = true
			shape = append(shape, "omit")
			continue
		}
		if omitted {
			return "", "BAD"
		}
		if s, ok := v.(string); ok && strings.HasPrefix(s, "cb:") {
			parts = append(parts, c15Callbacks[s[3:]])
			shape = append(shape, s)
			continue
		}
		parts = append(parts, phpLit(v))
		switch t := v.(type) {
		case json.Number:
			shape = append(shape, t.String())
		case string:
			shape = append(shape, "s")
		default:
			shape = append(shape, "v")
		}
	}
	return strings.Join(parts, ", "), strings.Join(shape, ",")
}

func c15Stmt(a c15Act) string {
	args, _ := c15ArgList(a)
	switch a.M {
	case "length":
		return "$x = $r->length; echo json_encode($x), \"|\", json_encode($r), \"\\n\";"
	case "forEach":
		return fmt.Sprintf("echo '\"'; $r->forEach(%s); echo '\"|', json_encode($r), \"\\n\";", args)
	}
	return fmt.Sprintf("$x = $r->%s(%s); echo json_encode($x), \"|\", json_encode($r), \"\\n\";", a.M, args)
}

func canonJSON(v any) string {
	b, _ := json.Marshal(v)
	return string(b)
}

func reparse(s string) string {
	var v any
	d := json.NewDecoder(strings.NewReader(s))
	d.UseNumber()
	if err := d.Decode(&v); err != nil {
		return "!" + s
	}
	return canonJSON(v)
}

// expected rendering of a call's result
func c15ExpRes(a c15Act) string {
	v := c15Plain(a.Res)
	if a.M == "forEach" {
		var sb strings.Builder
		for _, e := range v.([]any) {
			sb.WriteString(fmt.Sprint(e) + ",")
		}
		return canonJSON(sb.String())
	}
	return canonJSON(v)
}

type c15Case struct {
	recv  json.RawMessage
	calls []c15Edge // chain of calls on the same variable
}

// runC15Batch runs a batch of cases in one script and returns per-call (result, receiver) outputs.
func runC15Batch(cases []c15Case) ([][][2]string, rt.Result) {
	var sb strings.Builder
	for i, cs := range cases {
		fmt.Fprintf(&sb, "echo \"#%d\\n\";\n$r = %s;\n", i, phpLit(c15Plain(cs.recv)))
		for _, e := range cs.calls {
			fmt.Fprintf(&sb, "try { %s } catch (\\Throwable $t) { echo \"THROW|THROW\\n\"; }\n", c15Stmt(e.Act))
		}
	}
	r := rt.Run(sb.String(), rt.Opts{})
	out := make([][][2]string, len(cases))
	cur := -1
	for _, line := range strings.Split(r.Out, "\n") {
		if strings.HasPrefix(line, "#") {
			fmt.Sscanf(line, "#%d", &cur)
			continue
		}
		if cur < 0 || line == "" {
			continue
		}
		i := strings.LastIndex(line, "|")
		if i < 0 {
			out[cur] = append(out[cur], [2]string{"!" + line, ""})
			continue
		}
		out[cur] = append(out[cur], [2]string{line[:i], line[i+1:]})
	}
	return out, r
}

// C15: every edge of the ArrayMethods graphs is one real call; chains come from -simulate walks.
func C15(c *Ctx) *kf.Report {
	rep := &kf.Report{Property: "C15", Level: "model_checking", Coverage: map[string]any{}}
	rep.Assumptions = []string{
		"documented semantics = docs/array_methods.md read as JavaScript Array semantics (relative indexes, omitted optionals, variadic items)",
		"results and receivers are observed through json_encode; forEach through what its callback echoes",
		"string order for sort() is the lexicographic order of the renderings in the value pools",
	}
	maxLen0 := c.Pick(2, 3)
	var cases []c15Case
	for _, u := range []string{"int", "str", "nest"} {
		res := runTLC(rep, tlc.Run{SpecDir: c.SpecDir(), Module: "ArrayMethods", Cfg: "ArrayMethods.cfg",
			Consts: map[string]string{"UNIVERSE": u, "MAXLEN0": fmt.Sprint(maxLen0), "MAXLEN": "8", "MAXDEPTH": "1", "HIST": "FALSE"}})
		if res == nil {
			return rep
		}
		addTLC(rep, res)
		if res.Violated != "" {
			rep.Infraf("spec ArrayMethods(%s): %s violated\n%s", u, res.Violated, res.Tail(30))
			return rep
		}
		for _, raw := range res.Tagged["EDGE"] {
			var e c15Edge
			must(json.Unmarshal(raw, &e))
			cases = append(cases, c15Case{recv: e.From, calls: []c15Edge{e}})
		}
		// chains of calls on one variable
		sim := runTLC(rep, tlc.Run{SpecDir: c.SpecDir(), Module: "ArrayMethods", Cfg: "ArrayMethods.cfg", Workers: 1,
			Consts:   map[string]string{"UNIVERSE": u, "MAXLEN0": "3", "MAXLEN": "8", "MAXDEPTH": "4", "HIST": "TRUE"},
			Simulate: fmt.Sprintf("num=%d", c.Pick(300, 4000)), Depth: 8, Seed: c.Seed})
		if sim != nil {
			for _, raw := range sim.Tagged["WALK"] {
				var hs []struct {
					Act  c15Act
					Recv json.RawMessage
				}
				must(json.Unmarshal(raw, &hs))
				if len(hs) < 2 {
					continue
				}
				cs := c15Case{recv: hs[0].Recv}
				prev := hs[0].Recv
				for _, h := range hs[1:] {
					cs.calls = append(cs.calls, c15Edge{From: prev, Act: h.Act, To: h.Recv})
					prev = h.Recv
				}
				cases = append(cases, cs)
			}
		}
	}
	calls, chains := 0, 0
	nontrivial := map[string]bool{}
	var samples []any
	const batch = 150
	for lo := 0; lo < len(cases); lo += batch {
		hi := lo + batch
		if hi > len(cases) {
			hi = len(cases)
		}
		outs, r := runC15Batch(cases[lo:hi])
		if r.ParseErr != "" || r.Panic != "" {
			// isolate: rerun one by one
			for i := lo; i < hi; i++ {
				o1, r1 := runC15Batch(cases[i : i+1])
				if r1.ParseErr != "" || r1.Panic != "" {
					_, shape := c15ArgList(cases[i].calls[0].Act)
					rep.Add(kf.Mismatch{ID: fmt.Sprintf("C15/m=%s/args=%s/kind=crash", cases[i].calls[0].Act.M, shape), Expected: "value or catchable error",
						Observed: map[string]string{"parse": r1.ParseErr, "panic": r1.Panic}, ObsKey: "crash", Input: cases[i]})
					outs[i-lo] = nil
					continue
				}
				outs[i-lo] = o1[0]
			}
		}
		for i := lo; i < hi; i++ {
			cs := cases[i]
			got := outs[i-lo]
			if len(cs.calls) > 1 {
				chains++
			}
			for j, e := range cs.calls {
				calls++
				if j >= len(got) {
					break
				}
				expRes, expRecv := c15ExpRes(e.Act), canonJSON(c15Plain(e.To))
				gotRes, gotRecv := reparse(got[j][0]), reparse(got[j][1])
				_, shape := c15ArgList(e.Act)
				n := len(c15Plain(e.From).([]any))
				if shape != "" || n > 0 {
					nontrivial[e.Act.M+"/"+shape+"/"+fmt.Sprint(n)] = true
				}
				if gotRes == expRes && gotRecv == expRecv {
					continue
				}
				what := "result"
				if gotRes == expRes {
					what = "receiver"
				}
				pos := "first"
				if j > 0 {
					pos = "after-" + cs.calls[j-1].Act.M
				}
				rep.Add(kf.Mismatch{ID: fmt.Sprintf("C15/m=%s/args=%s/len=%d/call=%s/wrong=%s", e.Act.M, shape, n, pos, what),
					Expected: map[string]string{"result": expRes, "receiver": expRecv}, Observed: map[string]string{"result": gotRes, "receiver": gotRecv},
					ObsKey: gotRes + "|" + gotRecv, Input: map[string]any{"receiver": c15Plain(cs.recv), "calls": cs.calls[:j+1]}})
				break // later calls of the chain start from a wrong receiver
			}
			if len(samples) < 3 && len(cs.calls) > 2 && i%53 == 0 {
				samples = append(samples, map[string]any{"receiver": c15Plain(cs.recv), "calls": cs.calls, "observed": got})
			}
		}
	}
	c15Strings(c, rep)
	rep.Coverage["traces_validated_against_impl"] = len(cases)
	rep.Coverage["chains"] = chains
	rep.Coverage["evaluations"] = calls
	rep.Coverage["distinct_nontrivial"] = len(nontrivial)
	rep.Coverage["exhaustive"] = true
	rep.Coverage["rule"] = fmt.Sprintf("every edge of the ArrayMethods graphs (receivers of length 0..%d over ints / strings / nested lists x every method x argument tuples incl. omitted optionals, negative, zero, beyond-length indexes, 0..2 variadic items, callbacks using element/index/array) is one real call with result and receiver compared; chains of 4 calls on one variable from TLC -simulate; non-trivial = distinct (method, argument shape, receiver length)", maxLen0)
	if len(samples) == 0 {
		samples = append(samples, "none")
	}
	rep.Coverage["samples"] = samples
	return rep
}
