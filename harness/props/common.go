// Package props holds one driver per property. A driver runs TLC on the property's specification,
// binds the result to the real code (replay of spec behaviours and/or validation of recorded traces)
// and returns a kf.Report.
package props

import (
	"encoding/json"
	"fmt"
	"math/rand"
	"os"
	"path/filepath"
	"strings"
	"time"
	"verif/rt"

	"verif/kf"
	"verif/tlc"
)

// Ctx is the invocation context of a driver.
type Ctx struct {
	Tier     string // quick | thorough
	Seed     int64
	VerifDir string
	Self     string // path of this executable (for subprocess workers)
	Replay   string // replay file path (optional)
}

func (c *Ctx) SpecDir() string { return filepath.Join(c.VerifDir, "spec") }
func (c *Ctx) Thorough() bool  { return c.Tier == "thorough" }
func (c *Ctx) Rng() *rand.Rand { return rand.New(rand.NewSource(c.Seed*7919 + 17)) }
func (c *Ctx) Pick(q, t int) int {
	if c.Thorough() {
		return t
	}
	return q
}

// Driver is the signature of a property driver.
type Driver func(c *Ctx) *kf.Report

// Registry of drivers, filled by init() functions.
var Registry = map[string]Driver{}

// runTLC runs TLC and folds infrastructure failures into the report.
func runTLC(rep *kf.Report, r tlc.Run) *tlc.Result {
	res, err := tlc.Exec(r)
	if err != nil {
		tail := ""
		if res != nil {
			tail = res.Tail(15)
		}
		rep.Infraf("tlc %s/%s: %v\n%s", r.Module, r.Cfg, err, tail)
		return nil
	}
	if res.ExitCode != 0 && res.Violated == "" {
		rep.Infraf("tlc %s/%s exit %d:\n%s\n...\n%s", r.Module, r.Cfg, res.ExitCode, strings.Join(res.Errors, "\n"), res.Tail(12))
		return nil
	}
	return res
}

// addTLC accumulates TLC statistics into coverage.
func addTLC(rep *kf.Report, res *tlc.Result) {
	if rep.Coverage == nil {
		rep.Coverage = map[string]any{}
	}
	st, _ := rep.Coverage["states"].(int64)
	tr, _ := rep.Coverage["transitions"].(int64)
	rep.Coverage["states"] = st + res.Distinct
	rep.Coverage["transitions"] = tr + res.Generated
	w, _ := rep.Coverage["tlc_wall_s"].(float64)
	rep.Coverage["tlc_wall_s"] = w + res.Wall.Seconds()
}

func jsonStr(v any) string {
	b, _ := json.Marshal(v)
	return string(b)
}

func must(err error) {
	if err != nil {
		panic(err)
	}
}

var _ = fmt.Sprintf
var _ = os.Getenv
var _ = time.Now

func swapOutput(w *strings.Builder) func() { return rt.SwapOutput(w) }
