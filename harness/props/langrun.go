package props

import (
	"bytes"
	"encoding/json"
	"fmt"
	"strings"
	"time"

	"verif/kf"
	"verif/lang"
	"verif/tlc"
)

// langVerdict is what spec/Lang.tla prints when a program halts.
type langVerdict struct {
	Idx    int
	Status string
	Out    []string
	Steps  int
}

// langSpecRun runs all programs on the reference machine (TLC as interpreter).
func langSpecRun(c *Ctx, rep *kf.Report, progs []*lang.Program, dev string, count bool) map[int]langVerdict {
	var buf bytes.Buffer
	for _, p := range progs {
		b, _ := json.Marshal(p.JSON())
		buf.Write(b)
		buf.WriteByte('\n')
	}
	res := runTLC(rep, tlc.Run{SpecDir: c.SpecDir(), Module: "Lang", Cfg: "Lang.cfg", Timeout: 30 * time.Minute, Stack: "256m",
		Consts: map[string]string{"MAXSTEPS": "4000", "DEV": dev}, Files: map[string][]byte{"progs.ndjson": buf.Bytes()}})
	if res == nil {
		return nil
	}
	if count {
		addTLC(rep, res)
	}
	if res.Violated != "" {
		rep.Infraf("spec Lang (Dev=%s): %s violated\n%s", dev, res.Violated, res.Tail(40))
		return nil
	}
	out := map[int]langVerdict{}
	for _, raw := range res.Tagged["VERDICT"] {
		var v langVerdict
		if json.Unmarshal(raw, &v) == nil {
			out[v.Idx-1] = v
		}
	}
	return out
}

type langObs struct {
	Tokens []string
	Status string // normal | uncaught:<class> | hang | crash | parse
	Raw    JobResult
}

// langRealRun runs the unparsed programs on the real interpreter (subprocess workers).
func langRealRun(c *Ctx, progs []*lang.Program, nsOf func(i int) string) ([]langObs, []string, error) {
	jobs := make([]Job, len(progs))
	srcs := make([]string, len(progs))
	for i, p := range progs {
		srcs[i] = p.Source(nsOf(i))
		jobs[i] = Job{Src: srcs[i]}
	}
	rs, err := RunJobs(c.Self, jobs, 0, 10*time.Second)
	if err != nil {
		return nil, srcs, err
	}
	obs := make([]langObs, len(progs))
	for i, r := range rs {
		o := langObs{Raw: r, Status: "normal"}
		toks := strings.Split(r.Out, "\n")
		if len(toks) > 0 && toks[len(toks)-1] == "" {
			toks = toks[:len(toks)-1]
		}
		o.Tokens = toks
		switch {
		case r.Hang:
			o.Status = "hang"
		case r.Died || r.Panic != "":
			o.Status = "crash"
		case r.ParseErr != "":
			o.Status = "parse"
		case r.Uncaught != "":
			cls := r.UncaughtClass
			if i := strings.LastIndex(cls, "\\"); i >= 0 {
				cls = cls[i+1:]
			}
			o.Status = "uncaught:" + cls
		}
		obs[i] = o
	}
	return obs, srcs, nil
}

func sameTokens(a, b []string) bool {
	if len(a) != len(b) {
		return false
	}
	for i := range a {
		if a[i] != b[i] {
			return false
		}
	}
	return true
}

// langCompare compares real observations with the reference verdicts; programs that disagree are
// re-run on the machine with the open deviations: a disagreement the deviation layer predicts
// exactly is the named known finding, anything else is unexplained.
func langCompare(c *Ctx, rep *kf.Report, prop string, progs []*lang.Program, openDevs []string) (compared, budget int) {
	ref := langSpecRun(c, rep, progs, "{}", true)
	if ref == nil {
		return
	}
	nsOf := func(i int) string {
		if i%3 == 1 {
			return fmt.Sprintf("gen%d", c.Seed%5)
		}
		return ""
	}
	obs, srcs, err := langRealRun(c, progs, nsOf)
	if err != nil {
		rep.Infraf("script pool: %v", err)
		return
	}
	var bad []int
	for i := range progs {
		v, ok := ref[i]
		if !ok {
			rep.Infraf("%s: no verdict for program %d", prop, i)
			continue
		}
		if v.Status == "budget" {
			budget++
			continue
		}
		compared++
		if sameTokens(v.Out, obs[i].Tokens) && v.Status == obs[i].Status {
			continue
		}
		bad = append(bad, i)
	}
	if len(bad) == 0 {
		return
	}
	devSet := "{" + strings.Join(quoteAll(openDevs), ",") + "}"
	var sub []*lang.Program
	for _, i := range bad {
		sub = append(sub, progs[i])
	}
	var devRef map[int]langVerdict
	if len(openDevs) > 0 {
		devRef = langSpecRun(c, rep, sub, devSet, false)
	}
	for k, i := range bad {
		v := ref[i]
		id := prop + "/" + strings.Join(progs[i].Tags, "/")
		key := obs[i].Status
		if dv, ok := devRef[k]; ok && sameTokens(dv.Out, obs[i].Tokens) && dv.Status == obs[i].Status {
			// which single deviation explains it is not needed: the set of open deviations does
			id = prop + "/deviation=" + strings.Join(openDevs, "+") + "/" + progs[i].Tags[0]
			key = "predicted-by-deviation"
		}
		rep.Add(kf.Mismatch{ID: id, Expected: map[string]any{"out": v.Out, "status": v.Status},
			Observed: map[string]any{"out": obs[i].Tokens, "status": obs[i].Status, "uncaught": obs[i].Raw.Uncaught, "panic": obs[i].Raw.Panic, "parse": obs[i].Raw.ParseErr},
			ObsKey:   key, Input: srcs[i]})
	}
	return
}

func quoteAll(l []string) []string {
	o := make([]string, len(l))
	for i, s := range l {
		o[i] = `"` + s + `"`
	}
	return o
}
