package props

import (
	"bytes"
	"encoding/json"
	"fmt"
	"os"
	"os/exec"
	"path/filepath"
	"regexp"
	"sort"
	"strings"
	"sync"
	"time"

	"github.com/php-any/origami/lexer"
	"github.com/php-any/origami/token"

	"verif/kf"
	"verif/tlc"
)

func init() { Registry["C18"] = C18 }

type c18Tok struct {
	S   int    `json:"s"`
	E   int    `json:"e"`
	L   int    `json:"l"`
	Ns  int    `json:"ns"`
	Ne  int    `json:"ne"`
	Cls string `json:"cls"`
	Eq  bool   `json:"eq"`
}

type c18Run struct {
	Name string   `json:"name"`
	Len  int      `json:"len"`
	Toks []c18Tok `json:"toks"`
}

// blocks of "hard" content; the number of lines of each block is owned by spec/Diag.tla (PreLines)
var c18Pre = map[string]string{
	"none":                      "",
	"heredoc":                   "$h1 = <<<EOT\nh\u00e9llo {$v0} \u4f60\u597d\nsecond $v0 line\nEOT;\necho $h1, \"\\n\";\n",
	"heredoc-backslash-newline": "$h2 = <<<EOT\npart one \\\npart two \\\nend $v0\nEOT;\necho $h2, \"\\n\";\n",
	"nowdoc":                    "$n1 = <<<'EOT'\nraw $v0 {$x} \\n text\nEOT;\necho $n1, \"\\n\";\n",
	"multiline-string":          "$s1 = \"first\nsecond {$v0} \u00fc\nthird\";\n",
	"string-backslash-newline":  "$s2 = \"alpha \\\nbeta\";\necho $s2, \"\\n\";\n",
	"block-comment":             "/* commentaire \u00e9\n * \u6ce8\u91ca line\n */\n// trailing comment \u2713\n",
	"multibyte":                 "$\u540d = \"\u5024\u2713\";\necho \"\u00e9{$\u540d}\u00fc $\u540d end\", \"\\n\";\n",
	"interpolation":             "$arr = [\"k\" => \"v\"];\necho \"a {$arr['k']} b {$v0}s $v0\", \"\\n\";\n",
	"crlf":                      "$c1 = 1;\r\n$c2 = \"two\";\r\n$c3 = $c1 + 2;\r\n",
	"inline-html":               "?>\n<b>\u00e9 text</b>\n<p>line</p>\n<?php\n",
	// fully qualified names, also ones whose first segment is a reserved word (the lexer merges \kw\Name into one identifier)
	"qualified-names": "$q1 = \\strlen(\"ab\");\nif ($v0 > 99) { $q2 = new \\array\\Bag(); $q3 = \\match\\Kind::A; $q4 = \\static\\Registry::get(); $q6 = \\Some\\Deep\\name(1); }\n$q5 = \\strtoupper(\"x\");\n",
}

var c18Fault = map[string]string{
	"parse-error":        "foreach ($v0 as) { }",
	"undefined-function": "undefined_fn_c18(1, 2)",
	"uncaught-throw":     "throw new Exception(\"boom\")",
	"caught-getLine":     "try { throw new Exception(\"x\"); } catch (\\Throwable $e) { echo \"LINE=\", $e->getLine(), \"\\n\"; }",
	"undefined-method":   "(new Exception(\"m\"))->nope()",
	// constructs written over two lines: the fault is on the second
	"undefined-method-trailing-arrow":      "(new Exception(\"m\"))->\n    nope()",
	"undefined-method-leading-arrow":       "(new Exception(\"m\"))\n    ->nope()",
	"undefined-function-in-multiline-call": "strlen(\"ok\" .\n    undefined_fn_c18(2))",
}

func c18Plain(i int) string {
	switch i % 4 {
	case 0:
		return fmt.Sprintf("$v%d = %d + $v0;\n", i+1, i)
	case 1:
		return fmt.Sprintf("echo \"t%d\", $v0, \"\\n\";\n", i)
	case 2:
		return fmt.Sprintf("function f%d($a) { return $a + %d; }\n", i, i)
	}
	return fmt.Sprintf("if ($v0 > %d) { $v0 = $v0 - 1; }\n", i)
}

type c18Diag struct {
	Sc struct {
		Pre, Fault, Place, Mode string
		Lead, Mid               int
	}
	Prelines int
	Line     int
}

func c18Program(d c18Diag) string {
	var sb strings.Builder
	if d.Sc.Mode == "template-shebang" {
		sb.WriteString("#!/usr/bin/env origami\n")
	}
	if d.Sc.Mode != "script" {
		sb.WriteString("<?php\n")
	}
	sb.WriteString("$v0 = 1;\n")
	n := 0
	for i := 1; i < d.Sc.Lead; i++ {
		sb.WriteString(c18Plain(n))
		n++
	}
	sb.WriteString(c18Pre[d.Sc.Pre])
	for i := 0; i < d.Sc.Mid; i++ {
		sb.WriteString(c18Plain(n))
		n++
	}
	f := c18Fault[d.Sc.Fault]
	switch d.Sc.Place {
	case "middle":
		semi := ";"
		if strings.HasSuffix(f, "}") {
			semi = ""
		}
		sb.WriteString(f + semi + "\n")
		for i := 0; i < 2; i++ {
			sb.WriteString(c18Plain(n))
			n++
		}
	case "last":
		semi := ";"
		if strings.HasSuffix(f, "}") {
			semi = ""
		}
		sb.WriteString(f + semi + "\n")
	case "last-no-semicolon":
		sb.WriteString(f) // no semicolon, no newline: the construct ends on the last token of the file
	}
	return sb.String()
}

// c18Record tokenizes src the way the parser does and records the run for Cursor.tla.
func c18Record(name, src string) (run c18Run, panicked string) {
	defer func() {
		if r := recover(); r != nil {
			panicked = fmt.Sprint(r)
		}
	}()
	var ts []lexer.Token
	// like the parser: .php files (and generated template-mode programs) go through TokenizeTemplate, everything else through Tokenize
	if strings.HasSuffix(name, ".php") || strings.HasPrefix(name, "gen:template") {
		ts = lexer.NewLexer().TokenizeTemplate(src)
	} else {
		ts = lexer.NewLexer().Tokenize(src)
	}
	// prefix newline counts
	nl := make([]int, len(src)+1)
	for i := 0; i < len(src); i++ {
		nl[i+1] = nl[i]
		if src[i] == '\n' {
			nl[i+1]++
		}
	}
	clamp := func(x int) int {
		if x < 0 {
			return 0
		}
		if x > len(src) {
			return len(src)
		}
		return x
	}
	run = c18Run{Name: name, Len: len(src), Toks: []c18Tok{}}
	for _, t := range ts {
		s, e := t.Start(), t.End()
		text := ""
		if s >= 0 && e <= len(src) && s <= e {
			text = src[s:e]
		}
		cls := "faithful"
		switch t.Type() {
		case token.INTERPOLATION_TOKEN, token.INTERPOLATION_VALUE, token.HEREDOC, token.NOWDOC:
			cls = "free"
		case token.STRING:
			if strings.ContainsAny(text, "\\$") {
				cls = "free"
			}
		}
		run.Toks = append(run.Toks, c18Tok{S: s, E: e, L: t.Line(), Ns: nl[clamp(s)], Ne: nl[clamp(e)], Cls: cls, Eq: text == t.Literal()})
	}
	return run, ""
}

var c18LocRe = regexp.MustCompile(`in (\S+?):(\d+):(\d+)`)

// C18: token spans (trace validation against Cursor.tla) and error locations (Diag.tla scenarios on the CLI).
func C18(c *Ctx) *kf.Report {
	rep := &kf.Report{Property: "C18", Level: "model_checking", Coverage: map[string]any{}}
	rep.Assumptions = []string{
		"the recorder logs, per top-level token, its span, recorded line and the number of newline bytes before its start and end (the projection of the source the spec needs), plus whether the token text equals the source slice; Cursor.tla re-checks that projection for consistency (ProjectionSane)",
		"token classes: everything is 'faithful' except interpolation tokens, heredoc / nowdoc bodies and quoted strings containing a backslash or a dollar sign",
		"inputs that make the lexer panic are C01's business: they are counted (coverage.lexer_panics) and skipped here",
		"error locations are read from what the CLI prints ('in <file>:<line>:<col>', first occurrence) resp. from getLine() inside the script",
	}
	// ---------------------------------------------------------------- inputs for the token-span clause
	type input struct{ name, src string }
	var inputs []input
	var corpus []string
	for _, root := range []string{"/repo/tests", "/repo/examples"} {
		filepath.Walk(root, func(p string, info os.FileInfo, err error) error {
			if err == nil && !info.IsDir() && (strings.HasSuffix(p, ".php") || strings.HasSuffix(p, ".zy")) {
				corpus = append(corpus, p)
			}
			return nil
		})
	}
	sort.Strings(corpus)
	step := c.Pick(4, 1)
	rng := c.Rng()
	preNames := make([]string, 0, len(c18Pre))
	for k := range c18Pre {
		if k != "none" {
			preNames = append(preNames, k)
		}
	}
	sort.Strings(preNames)
	for i := int(c.Seed) % step; i < len(corpus); i += step {
		b, err := os.ReadFile(corpus[i])
		if err != nil {
			continue
		}
		src := string(b)
		rel := strings.TrimPrefix(corpus[i], "/repo/")
		inputs = append(inputs, input{"corpus:" + rel, src})
		// seeded injections into corpus files: a hard block in front of the code, the file with CRLF line ends
		pre := preNames[rng.Intn(len(preNames))]
		if pre == "inline-html" && !strings.HasSuffix(rel, ".php") {
			pre = "heredoc"
		}
		block := "$v0 = 1;\n" + c18Pre[pre]
		if strings.HasPrefix(src, "<?php") {
			if nlp := strings.IndexByte(src, '\n'); nlp > 0 && !strings.Contains(src[:nlp], "?>") {
				inputs = append(inputs, input{"corpus+" + pre + ":" + rel, src[:nlp+1] + block + src[nlp+1:]})
			}
		} else if !strings.HasPrefix(src, "#!") && !strings.HasPrefix(src, "<!DOCTYPE") && !strings.Contains(src, "<?php") {
			inputs = append(inputs, input{"corpus+" + pre + ":" + rel, block + src})
		}
		if !strings.Contains(src, "\r") {
			inputs = append(inputs, input{"corpus+crlf:" + rel, strings.ReplaceAll(src, "\n", "\r\n")})
		}
	}
	// generated programs: plain lines with every hard block at every line boundary
	for _, mode := range []string{"script", "template"} {
		for _, pre := range preNames {
			if pre == "inline-html" && mode != "template" {
				continue
			}
			for at := 0; at <= 4; at++ {
				var sb strings.Builder
				if mode == "template" {
					sb.WriteString("<?php\n")
				}
				sb.WriteString("$v0 = 1;\n")
				for l := 0; l < 5; l++ {
					if l == at {
						sb.WriteString(c18Pre[pre])
					}
					sb.WriteString(c18Plain(l))
				}
				// two blocks in a row at the end: drift accumulates
				sb.WriteString(c18Pre[pre])
				sb.WriteString(c18Pre[preNames[(at+3)%len(preNames)]])
				sb.WriteString(c18Plain(7))
				src := sb.String()
				if mode != "template" && strings.Contains(src, "<?php") {
					continue
				}
				inputs = append(inputs, input{fmt.Sprintf("gen:%s/%s@%d", mode, pre, at), src})
			}
		}
	}
	// a script with a shebang line (the lexer drops the line before tokenizing)
	inputs = append(inputs, input{"gen:shebang-script", "#!/usr/bin/env origami\n<?php\n$v0 = 1;\n" + c18Pre["heredoc"] + c18Plain(1) + c18Plain(2)})
	var buf bytes.Buffer
	enc := json.NewEncoder(&buf)
	var names []string
	panics, tokens := 0, 0
	var panicNames []string
	for _, in := range inputs {
		run, p := c18Record(in.name, in.src)
		if p != "" {
			panics++
			panicNames = append(panicNames, in.name+": "+tailStr(p, 80))
			continue
		}
		tokens += len(run.Toks)
		names = append(names, in.name)
		enc.Encode(run)
	}
	res := runTLC(rep, tlc.Run{SpecDir: c.SpecDir(), Module: "Cursor", Cfg: "Cursor.cfg", Workers: 8, Timeout: 30 * time.Minute, Stack: "512m",
		Files: map[string][]byte{"trace.ndjson": buf.Bytes()}})
	if res == nil {
		return rep
	}
	addTLC(rep, res)
	if res.Violated != "" {
		rep.Infraf("spec Cursor: %s violated\n%s", res.Violated, res.Tail(20))
		return rep
	}
	accepted := len(res.Tagged["ACCEPT"])
	for _, raw := range res.Tagged["REJECT"] {
		var r struct {
			H    int
			Name string
			At   int
			Rule string
			Tok  c18Tok
			Pos  int
			Nl   int
		}
		must(json.Unmarshal(raw, &r))
		kind := strings.SplitN(r.Name, ":", 2)[0]
		if strings.HasPrefix(r.Name, "gen:shebang") {
			kind = "shebang"
		}
		id := fmt.Sprintf("C18/tokens/rule=%s/input=%s", r.Rule, strings.NewReplacer("/", "_", "*", "x").Replace(kind))
		if r.Rule == "recorder-inconsistent" {
			rep.Infraf("recorder inconsistent on %s at token %d: %+v (pos=%d nl=%d)", r.Name, r.At, r.Tok, r.Pos, r.Nl)
			continue
		}
		rep.Add(kf.Mismatch{ID: id, Expected: "token " + fmt.Sprint(r.At) + " respects " + r.Rule, Observed: map[string]any{"input": r.Name, "token_index": r.At, "token": r.Tok, "cursor_pos": r.Pos, "newlines_before_cursor": r.Nl}, ObsKey: r.Rule, Input: r.Name})
	}
	if accepted+len(res.Tagged["REJECT"]) != len(names) {
		rep.Infraf("Cursor: %d runs recorded but %d accepted + %d rejected", len(names), accepted, len(res.Tagged["REJECT"]))
	}
	rep.Coverage["lexer_runs"] = len(names)
	rep.Coverage["lexer_runs_accepted"] = accepted
	rep.Coverage["token_events"] = tokens
	rep.Coverage["lexer_panics"] = panics
	rep.Coverage["lexer_panic_inputs"] = firstN(panicNames, 10)

	// ---------------------------------------------------------------- error locations
	dres := runTLC(rep, tlc.Run{SpecDir: c.SpecDir(), Module: "Diag", Cfg: "Diag.cfg", Workers: 4, Timeout: 10 * time.Minute})
	if dres == nil {
		return rep
	}
	addTLC(rep, dres)
	var diags []c18Diag
	for _, raw := range dres.Tagged["CASE"] {
		var d c18Diag
		must(json.Unmarshal(raw, &d))
		if got := strings.Count(c18Pre[d.Sc.Pre], "\n"); got != d.Prelines {
			rep.Infraf("block %s has %d lines, Diag.tla says %d", d.Sc.Pre, got, d.Prelines)
			return rep
		}
		diags = append(diags, d)
	}
	dir, err := os.MkdirTemp("", "verif-c18-")
	if err != nil {
		rep.Infraf("tempdir: %v", err)
		return rep
	}
	defer os.RemoveAll(dir)
	bin := filepath.Join(c.VerifDir, "bin", "origami")
	type dobs struct {
		out  string
		line int
		hang bool
	}
	obs := make([]dobs, len(diags))
	var wg sync.WaitGroup
	sem := make(chan struct{}, 16)
	for i := range diags {
		wg.Add(1)
		sem <- struct{}{}
		go func(i int) {
			defer wg.Done()
			defer func() { <-sem }()
			ext := ".zy"
			if diags[i].Sc.Mode != "script" {
				ext = ".php"
			}
			f := filepath.Join(dir, fmt.Sprintf("p%d%s", i, ext))
			os.WriteFile(f, []byte(c18Program(diags[i])), 0o644)
			cmd := exec.Command(bin, f)
			var ob bytes.Buffer
			cmd.Stdout, cmd.Stderr = &ob, &ob
			cmd.Start()
			done := make(chan struct{})
			go func() { cmd.Wait(); close(done) }()
			select {
			case <-done:
			case <-time.After(20 * time.Second):
				cmd.Process.Kill()
				<-done
				obs[i].hang = true
			}
			o := ob.String()
			obs[i].out = o
			obs[i].line = -1
			if diags[i].Sc.Fault == "caught-getLine" {
				if p := strings.LastIndex(o, "LINE="); p >= 0 {
					fmt.Sscanf(o[p+5:], "%d", &obs[i].line)
				}
			} else if m := c18LocRe.FindStringSubmatch(o); m != nil {
				fmt.Sscanf(m[2], "%d", &obs[i].line)
			}
		}(i)
	}
	wg.Wait()
	located := 0
	for i, d := range diags {
		id := fmt.Sprintf("C18/diag/fault=%s/pre=%s/place=%s/mode=%s/lead=%d/mid=%d", d.Sc.Fault, d.Sc.Pre, d.Sc.Place, d.Sc.Mode, d.Sc.Lead, d.Sc.Mid)
		in := map[string]any{"program": c18Program(d), "expected_line": d.Line}
		if obs[i].hang || strings.Contains(obs[i].out, "panic:") {
			// a crash or hang of the interpreter on these programs is not a location question (C01 / C05)
			rep.Add(kf.Mismatch{ID: id + "/kind=crash", Expected: fmt.Sprintf("diagnostic at line %d", d.Line), Observed: tailStr(obs[i].out, 300), ObsKey: "crash", Input: in})
			continue
		}
		if obs[i].line == d.Line {
			located++
			continue
		}
		rep.Add(kf.Mismatch{ID: id, Expected: fmt.Sprintf("line %d", d.Line), Observed: map[string]any{"line": obs[i].line, "output": tailStr(obs[i].out, 400)}, ObsKey: fmt.Sprintf("line%+d", obs[i].line-d.Line), Input: in})
	}
	rep.Coverage["diagnostic_scenarios"] = len(diags)
	rep.Coverage["evaluations"] = len(inputs) + len(diags)
	if len(diags) > 0 && len(inputs) > 0 {
		rep.Coverage["samples"] = []any{
			map[string]any{"lexer_input": inputs[len(inputs)-2].name, "source": tailStr(inputs[len(inputs)-2].src, 600)},
			map[string]any{"diag_scenario": diags[len(diags)/2].Sc, "expected_line": diags[len(diags)/2].Line, "program": c18Program(diags[len(diags)/2])},
		}
	}
	rep.Coverage["diagnostics_at_expected_line"] = located
	rep.Coverage["traces_validated_against_impl"] = len(names) + len(diags)
	rep.Coverage["distinct_nontrivial"] = len(names) - 0 + len(diags)
	rep.Coverage["exhaustive"] = false
	rep.Coverage["rule"] = "token spans: corpus files (quick: every 4th; thorough: all 331) as they are, with a seeded hard block (heredoc, backslash-newline, multi-line string, comment, multi-byte, interpolation, CRLF, inline HTML) in front and converted to CRLF, plus generated programs with every block at every line boundary in both lexing modes; every recorded run is one behaviour of Cursor.tla. error locations: every scenario of Diag.tla (11 blocks x 5 faults x 3 places x lead x mid x mode) run through the CLI"
	return rep
}
