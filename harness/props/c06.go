package props

import (
	"encoding/json"
	"fmt"
	"strings"
	"time"

	"verif/graph"
	"verif/kf"
	"verif/tlc"
)

func init() { Registry["C06"] = C06 }

type c06Act struct {
	Op, Route, Mut, Side string
	LeakRef, LeakDev     bool
}

var c06Shapes = map[string]string{
	"list":    `[3, 1, 2]`,
	"strkeys": `["k" => 1, "m" => 2]`,
	"nested":  `[1, [2, 3], [4, [5]]]`,
	"mixed":   `[1, [3], "k" => 2]`,
	// nested arrays that are empty when the copy is made
	"emptynested": `[1, [], "k" => []]`,
	// the same kind of value built by the JSON decoder (and by auto-vivification) instead of a literal
	"jsonnested": `json_decode('{"a":1,"k":{"q":[5]},"m":[2,3]}', true)`,
}

const c06Prelude = `class Holder { public $p = []; public function items() { return $this->p; } }
class Kept { public $p = []; public function __construct($q) { $this->p = $q; } }
class Stat {
  public static $sp = [];
  public static function keep($q) { self::$sp = $q; }
}
function ident($x) { return $x; }
`

// c06Mut renders mutation m applied through lvalue expression x.
func c06Mut(m, x, shape string) string {
	key0 := "0"
	if shape == "strkeys" {
		key0 = `"k"`
	}
	switch m {
	case "store0":
		return fmt.Sprintf("%s[%s] = 99;", x, key0)
	case "storenew":
		return fmt.Sprintf("%s[7] = 99;", x)
	case "storestr":
		return fmt.Sprintf("%s[\"z\"] = 99;", x)
	case "append":
		return fmt.Sprintf("%s[] = 99;", x)
	case "nested":
		return fmt.Sprintf("%s[1][0] = 99;", x)
	case "nestedappend":
		return fmt.Sprintf("%s[1][] = 99;", x)
	case "nestedkey":
		return fmt.Sprintf("%s[\"k\"][\"z\"] = 99;", x)
	case "nestedkeyappend":
		return fmt.Sprintf("%s[\"k\"][] = 99;", x)
	case "unset":
		return fmt.Sprintf("unset(%s[%s]);", x, key0)
	case "sort":
		return fmt.Sprintf("sort(%s);", x)
	case "push":
		return fmt.Sprintf("%s->push(99);", x)
	case "pop":
		return fmt.Sprintf("%s->pop();", x)
	case "shift":
		return fmt.Sprintf("%s->shift();", x)
	case "unshift":
		return fmt.Sprintf("%s->unshift(99);", x)
	case "incr":
		return fmt.Sprintf("%s[%s]++;", x, key0)
	}
	panic(m)
}

type c06Step struct{ mut, side string }

// c06InCallee: routes whose copy is a parameter, only observable inside the callee.
func c06InCallee(route string) bool {
	switch route {
	case "param", "refparam", "variadic", "spread", "methodparam", "closureuse":
		return true
	}
	return false
}

// c06Script renders one scenario; it prints lines "k|A|json" / "k|B|json" (k = number of mutations done).
func c06Script(shape, route string, steps []c06Step) string {
	lit := c06Shapes[shape]
	var sb strings.Builder
	sb.WriteString(c06Prelude)
	obs := func(k int, a, b string) {
		if a != "" {
			fmt.Fprintf(&sb, "echo \"%d|A|\", json_encode(%s), \"\\n\";\n", k, a)
		}
		if b != "" {
			fmt.Fprintf(&sb, "echo \"%d|B|\", json_encode(%s), \"\\n\";\n", k, b)
		}
	}
	if route == "closureuse" {
		fmt.Fprintf(&sb, "$a = %s;\n", lit)
		obs(0, "$a", "")
		sb.WriteString("$callee = function () use ($a) {\n  echo \"0|B|\", json_encode($a), \"\\n\";\n")
		for k, st := range steps {
			fmt.Fprintf(&sb, "  %s\n  echo \"%d|B|\", json_encode($a), \"\\n\";\n", c06Mut(st.mut, "$a", shape), k+1)
		}
		sb.WriteString("};\n$callee();\n")
		obs(len(steps), "$a", "")
		return sb.String()
	}
	if c06InCallee(route) {
		// the copy lives in a callee: parameter declaration, the lvalue naming the copy, and the call
		decl, lv, call := "$p", "$p", "callee($a);"
		switch route {
		case "refparam":
			decl = "&$p"
		case "variadic":
			decl, lv = "...$ps", "$ps[0]"
		case "spread":
			decl, lv, call = "...$ps", "$ps[1]", "$args = [0, $a];\ncallee(...$args);"
		case "methodparam":
			call = "$w = new Worker();\n$w->callee($a);"
		}
		if route == "methodparam" {
			sb.WriteString("class Worker {\n public ")
		}
		fmt.Fprintf(&sb, "function callee(%s) {\n  echo \"0|B|\", json_encode(%s), \"\\n\";\n", decl, lv)
		for k, st := range steps {
			fmt.Fprintf(&sb, "  %s\n  echo \"%d|B|\", json_encode(%s), \"\\n\";\n", c06Mut(st.mut, lv, shape), k+1, lv)
		}
		sb.WriteString("}\n")
		if route == "methodparam" {
			sb.WriteString("}\n")
		}
		fmt.Fprintf(&sb, "$a = %s;\n", lit)
		obs(0, "$a", "")
		sb.WriteString(call + "\n")
		obs(len(steps), "$a", "")
		return sb.String()
	}
	var a, b string
	switch route {
	case "assign":
		fmt.Fprintf(&sb, "$a = %s;\n$b = $a;\n", lit)
		a, b = "$a", "$b"
	case "return":
		fmt.Fprintf(&sb, "$a = %s;\n$b = ident($a);\n", lit)
		a, b = "$a", "$b"
	case "getter":
		fmt.Fprintf(&sb, "$h = new Holder();\n$h->p = %s;\n$b = $h->items();\n", lit)
		a, b = "$h->p", "$b"
	case "propstore":
		fmt.Fprintf(&sb, "$a = %s;\n$h = new Holder();\n$h->p = $a;\n", lit)
		a, b = "$a", "$h->p"
	case "propload":
		fmt.Fprintf(&sb, "$h = new Holder();\n$h->p = %s;\n$b = $h->p;\n", lit)
		a, b = "$h->p", "$b"
	case "elemstore":
		fmt.Fprintf(&sb, "$a = %s;\n$outer = [0, 0];\n$outer[1] = $a;\n", lit)
		a, b = "$a", "$outer[1]"
	case "elemload":
		fmt.Fprintf(&sb, "$outer = [0, %s];\n$b = $outer[1];\n", lit)
		a, b = "$outer[1]", "$b"
	case "staticstore":
		fmt.Fprintf(&sb, "$a = %s;\nStat::$sp = $a;\n", lit)
		a, b = "$a", "Stat::$sp"
	case "selfstore":
		fmt.Fprintf(&sb, "$a = %s;\nStat::keep($a);\n", lit)
		a, b = "$a", "Stat::$sp"
	case "staticload":
		fmt.Fprintf(&sb, "Stat::$sp = %s;\n$b = Stat::$sp;\n", lit)
		a, b = "Stat::$sp", "$b"
	case "arraypush":
		fmt.Fprintf(&sb, "$a = %s;\n$outer = [];\narray_push($outer, $a);\n", lit)
		a, b = "$a", "$outer[0]"
	case "ctorparam":
		fmt.Fprintf(&sb, "$a = %s;\n$h = new Kept($a);\n", lit)
		a, b = "$a", "$h->p"
	case "clone":
		fmt.Fprintf(&sb, "$h = new Holder();\n$h->p = %s;\n$h2 = clone $h;\n", lit)
		a, b = "$h->p", "$h2->p"
	case "ref":
		fmt.Fprintf(&sb, "$a = %s;\n$b = &$a;\n", lit)
		a, b = "$a", "$b"
	case "handle":
		fmt.Fprintf(&sb, "$h = new Holder();\n$h->p = %s;\n$h2 = $h;\n", lit)
		a, b = "$h->p", "$h2->p"
	default:
		panic(route)
	}
	obs(0, a, b)
	for k, st := range steps {
		x := a
		if st.side == "copy" {
			x = b
		}
		sb.WriteString(c06Mut(st.mut, x, shape) + "\n")
		obs(k+1, a, b)
	}
	return sb.String()
}

// C06 replays every path (shape, route, <= MaxMut mutations) of the Heap graph.
func C06(c *Ctx) *kf.Report {
	rep := &kf.Report{Property: "C06", Level: "model_checking", Coverage: map[string]any{}}
	rep.Assumptions = []string{
		"shapes: list [3,1,2], string-keyed [k=>1,m=>2], nested [1,[2,3],[4,[5]]], mixed [1,[3],k=>2], emptynested [1,[],k=>[]]; contents are observed with json_encode before and after every mutation",
		"a scenario whose mutation does not change the mutated name itself is skipped (the dialect may not support that statement on that lvalue) and counted as ineffective",
		"closure capture is excluded (origami closures share the defining frame)",
	}
	// reference layer holds, mechanism layer with the deviation is refuted
	ok := runTLC(rep, tlc.Run{SpecDir: c.SpecDir(), Module: "Heap", Cfg: "Heap.cfg", Consts: map[string]string{"MAXMUT": "2", "EMIT": "TRUE", "PROPS": "NoLeak FrameRule"}})
	if ok == nil {
		return rep
	}
	addTLC(rep, ok)
	if ok.Violated != "" {
		rep.Infraf("spec Heap: %s violated", ok.Violated)
		return rep
	}
	if dev := runTLC(rep, tlc.Run{SpecDir: c.SpecDir(), Module: "Heap", Cfg: "Heap.cfg", Consts: map[string]string{"MAXMUT": "1", "EMIT": "FALSE", "PROPS": "NoLeakMechanism"}}); dev != nil {
		rep.Coverage["mechanism_counterexample"] = dev.Violated
		if dev.Violated != "NoLeakMechanism" {
			rep.Infraf("Heap: the mechanism layer should violate NoLeakMechanism")
		}
	}
	g, err := graph.Build(nil, ok.Tagged["EDGE"])
	if err != nil {
		rep.Infraf("graph: %v", err)
		return rep
	}
	// initial states: one per shape (from-states of route edges)
	for k, raw := range g.States {
		var st struct{ Route string }
		json.Unmarshal(raw, &st)
		if st.Route == "none" {
			g.Init = append(g.Init, k)
		}
	}
	scen, ineffective, mutsChecked := 0, 0, 0
	nontrivial := map[string]bool{}
	var samples []any
	type scenario struct {
		shape, route string
		steps        []c06Step
		acts         []c06Act
		src          string
	}
	var scens []scenario
	var jobs []Job
	g.AllPaths(3, func(init string, path []graph.Edge) bool {
		if len(path) < 2 {
			return true
		}
		var st struct{ Shape string }
		json.Unmarshal(g.States[init], &st)
		sc := scenario{shape: st.Shape}
		for _, e := range path {
			var a c06Act
			must(json.Unmarshal(e.Act, &a))
			sc.acts = append(sc.acts, a)
		}
		sc.route = sc.acts[0].Route
		for _, a := range sc.acts[1:] {
			sc.steps = append(sc.steps, c06Step{a.Mut, a.Side})
		}
		sc.src = c06Script(sc.shape, sc.route, sc.steps)
		scens = append(scens, sc)
		jobs = append(jobs, Job{Src: sc.src})
		return true
	})
	results, err := RunJobs(c.Self, jobs, 0, 10*time.Second)
	if err != nil {
		rep.Infraf("script pool: %v", err)
		return rep
	}
	for si, sc := range scens {
		scen++
		r := results[si]
		route, steps, acts, src := sc.route, sc.steps, sc.acts, sc.src
		st := struct{ Shape string }{sc.shape}
		if r.Hang || r.Died {
			kind := "hang"
			if r.Died {
				kind = "crash"
			}
			rep.Add(kf.Mismatch{ID: fmt.Sprintf("C06/route=%s/mut=%s/side=%s/shape=%s/kind=%s", route, steps[len(steps)-1].mut, steps[len(steps)-1].side, st.Shape, kind),
				Expected: "the script terminates", Observed: map[string]any{"hang": r.Hang, "stderr": r.Stderr}, ObsKey: kind, Input: src})
			continue
		}
		// snapshots[k]["A"|"B"]
		snaps := map[int]map[string]string{}
		for _, line := range strings.Split(r.Out, "\n") {
			f := strings.SplitN(line, "|", 3)
			if len(f) != 3 {
				continue
			}
			k := 0
			fmt.Sscanf(f[0], "%d", &k)
			if snaps[k] == nil {
				snaps[k] = map[string]string{}
			}
			snaps[k][f[1]] = f[2]
		}
		if r.Panic != "" {
			rep.Add(kf.Mismatch{ID: fmt.Sprintf("C06/route=%s/mut=%s/side=%s/shape=%s/kind=crash", route, steps[0].mut, steps[0].side, st.Shape), Expected: "no internal crash", Observed: r.Panic, ObsKey: "crash", Input: src})
			continue
		}
		inParam := c06InCallee(route)
		for k, sp := range steps {
			x, y := "A", "B"
			if sp.side == "copy" {
				x, y = "B", "A"
			}
			prevK := k
			if inParam {
				// the original is only observable before and after the call
				if k != len(steps)-1 {
					continue
				}
				y = "A"
				x = "B"
			}
			xb, xa := snaps[prevK][x], snaps[k+1][x]
			yb, ya := snaps[prevK][y], snaps[k+1][y]
			if inParam {
				xb, yb = snaps[0]["B"], snaps[0]["A"]
				ya = snaps[len(steps)]["A"]
			}
			if xa == "" || xb == "" || ya == "" || yb == "" || xa == xb {
				ineffective++
				break
			}
			mutsChecked++
			id := fmt.Sprintf("C06/route=%s/mut=%s/side=%s/shape=%s/step=%d", route, sp.mut, sp.side, st.Shape, k+1)
			a := acts[k+1]
			nontrivial[fmt.Sprintf("%s/%s/%s/%s", route, sp.mut, sp.side, st.Shape)] = true
			if a.LeakRef { // sharing route: the other name must show the same contents
				if ya != xa {
					rep.Add(kf.Mismatch{ID: id + "/kind=not-shared", Expected: "both names show " + xa, Observed: ya, ObsKey: "not-shared", Input: src})
					break
				}
				continue
			}
			if ya != yb {
				key := "leak"
				if inParam && len(steps) > 1 {
					id = fmt.Sprintf("C06/route=%s/mut=%s+%s/side=copy/shape=%s/step=2", route, steps[0].mut, steps[1].mut, st.Shape)
				}
				dev := a.LeakDev
				if inParam {
					for _, aa := range acts[1:] {
						dev = dev || aa.LeakDev
					}
				}
				if dev {
					key = "leak-predicted-by-cells-shared-on-copy"
				}
				rep.Add(kf.Mismatch{ID: id, Expected: map[string]string{"unwritten_name": yb}, Observed: map[string]string{"unwritten_name": ya, "written_name": xa}, ObsKey: key, Input: src})
				break
			}
		}
		if len(samples) < 3 && scen%401 == 0 {
			samples = append(samples, map[string]any{"script": src, "out": r.Out})
		}
	}
	rep.Coverage["traces_validated_against_impl"] = scen
	rep.Coverage["evaluations"] = mutsChecked
	rep.Coverage["ineffective_scenarios"] = ineffective
	rep.Coverage["distinct_nontrivial"] = len(nontrivial)
	perRoute := map[string]int{}
	for k := range nontrivial {
		perRoute[strings.SplitN(k, "/", 2)[0]]++
	}
	rep.Coverage["effective_mutation_kinds_per_route"] = perRoute
	for _, r := range []string{"assign", "param", "return", "getter", "propstore", "propload", "elemstore", "elemload", "clone", "variadic", "spread", "arraypush", "ctorparam", "methodparam", "closureuse", "staticstore", "staticload", "selfstore", "ref", "refparam", "handle"} {
		if perRoute[r] == 0 {
			rep.Infraf("route %s: no effective mutation observed (vacuous)", r)
		}
	}
	rep.Coverage["exhaustive"] = true
	rep.Coverage["rule"] = "every path (shape, route, 1..2 mutations on either side) of the Heap graph rendered as a script that snapshots both names before and after every mutation; the unwritten name must keep its snapshot on value routes and follow the written one on sharing routes; non-trivial = distinct effective (route, mutation, side, shape)"
	if len(samples) == 0 {
		samples = append(samples, "none")
	}
	rep.Coverage["samples"] = samples
	return rep
}
