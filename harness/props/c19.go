package props

import (
	"encoding/json"
	"fmt"
	"strings"

	"verif/graph"
	"verif/kf"
	"verif/rt"
	"verif/tlc"
)

func init() { Registry["C19"] = C19 }

type c19Act struct {
	Op     string
	I      int
	Cls    string
	Args   []string
	Member string
	Kind   string
	Via    string
	Ok     bool
	Dev    bool
}

const c19Prelude = `class U {}
class W {}
class X {}
class Box<T> { public T $v; public function id(T $x) { return 1; } public function relay_id($x) { return $this->id($x); } }
class Pair<K, V> { public K $k; public V $v; public function setv(V $x) { return 1; } public function relay_setv($x) { return $this->setv($x); } }
class RepoBase {
  public $count = 0;
  public function touch() { return 1; }
}
class Repo<T> extends RepoBase { public T $last; public function save(T $x) { return 1; } public function relay_save($x) { return $this->save($x); } }
function put_last($o, $x) { $o->last = $x; }
function call_save($o, $x) { return $o->save($x); }
function put_v($o, $x) { $o->v = $x; }
function put_k($o, $x) { $o->k = $x; }
function call_id($o, $x) { return $o->id($x); }
function call_setv($o, $x) { return $o->setv($x); }
`

func c19Value(kind string) string {
	switch kind {
	case "int":
		return "7"
	case "string":
		return `"s"`
	case "array":
		return "[1, 2]"
	case "U":
		return "new U()"
	case "W":
		return "new W()"
	case "X":
		return "new X()"
	}
	panic(kind)
}

func c19Script(acts []c19Act, spawned bool) string {
	var sb strings.Builder
	sb.WriteString(c19Prelude)
	for _, a := range acts {
		switch a.Op {
		case "new":
			fmt.Fprintf(&sb, "$i%d = new %s<%s>();\n", a.I, a.Cls, strings.Join(a.Args, ", "))
		case "write":
			if a.Via == "this-call" {
				fmt.Fprintf(&sb, "try { $i%d->relay_%s(%s); echo \"ok;\"; } catch (\\Throwable $e) { echo \"rej;\"; }\n", a.I, a.Member, c19Value(a.Kind))
			} else if a.Via == "helper" {
				h := "put_"
				if a.Member == "id" || a.Member == "setv" || a.Member == "save" {
					h = "call_"
				}
				fmt.Fprintf(&sb, "try { %s%s($i%d, %s); echo \"ok;\"; } catch (\\Throwable $e) { echo \"rej;\"; }\n", h, a.Member, a.I, c19Value(a.Kind))
			} else if a.Member == "id" || a.Member == "setv" || a.Member == "save" {
				fmt.Fprintf(&sb, "try { $i%d->%s(%s); echo \"ok;\"; } catch (\\Throwable $e) { echo \"rej;\"; }\n", a.I, a.Member, c19Value(a.Kind))
			} else {
				fmt.Fprintf(&sb, "try { $i%d->%s = %s; echo \"ok;\"; } catch (\\Throwable $e) { echo \"rej;\"; }\n", a.I, a.Member, c19Value(a.Kind))
			}
		}
	}
	return sb.String()
}

// C19 replays every path of the Generic state graph as one script.
func C19(c *Ctx) *kf.Report {
	rep := &kf.Report{Property: "C19", Level: "model_checking", Coverage: map[string]any{}}
	rep.Assumptions = []string{
		"fixture classes Box<T> (property v, method id(T)) and Pair<K,V> (properties k, v, method setv(V)); type arguments int, string, array, U, W; value kinds the same plus an unrelated class X",
		"acceptance is observed as: the write / call completes vs. raises a catchable Throwable",
	}
	maxOps := c.Pick(3, 4)
	res := runTLC(rep, tlc.Run{SpecDir: c.SpecDir(), Module: "Generic", Cfg: "Generic.cfg",
		Consts: map[string]string{"MAXINST": "3", "MAXOPS": fmt.Sprint(maxOps), "VIAS": map[bool]string{false: `{"direct", "helper", "this-call"}`, true: `{"direct", "helper"}`}[c.Thorough()]}})
	if res == nil {
		return rep
	}
	addTLC(rep, res)
	if res.Violated != "" {
		rep.Infraf("spec Generic: %s violated\n%s", res.Violated, res.Tail(30))
		return rep
	}
	g, err := graph.Build(res.Tagged["INIT"], res.Tagged["EDGE"])
	if err != nil {
		rep.Infraf("graph: %v", err)
		return rep
	}
	rep.Coverage["graph_states"] = len(g.States)
	rep.Coverage["graph_edges"] = g.NEdges
	paths, writes := 0, 0
	nontrivial := map[string]bool{}
	var samples []any
	runPath := func(path []graph.Edge) {
		var acts []c19Act
		nw := 0
		for _, e := range path {
			var a c19Act
			must(json.Unmarshal(e.Act, &a))
			acts = append(acts, a)
			if a.Op == "write" {
				nw++
			}
		}
		if nw == 0 {
			return
		}
		paths++
		src := c19Script(acts, false)
		r := rt.Run(src, rt.Opts{})
		var ids []string
		for _, a := range acts {
			if a.Op == "new" {
				ids = append(ids, fmt.Sprintf("new%s%s", a.Cls, strings.Join(a.Args, "")))
			} else {
				w := "w"
				if a.Via == "helper" {
					w = "h"
				} else if a.Via == "this-call" {
					w = "t"
				}
				ids = append(ids, fmt.Sprintf("%s%d.%s.%s", w, a.I, a.Member, a.Kind))
			}
		}
		seq := strings.Join(ids, ",")
		if r.ParseErr != "" || r.Panic != "" || r.Uncaught != "" {
			rep.Add(kf.Mismatch{ID: "C19/kind=script-failed/seq=" + seq, Expected: "script runs", Observed: r, ObsKey: "failed", Input: src})
			return
		}
		got := strings.Split(strings.TrimSuffix(r.Out, ";"), ";")
		wi := 0
		differs := false
		for _, a := range acts {
			if a.Op != "write" {
				continue
			}
			writes++
			o := wi < len(got) && got[wi] == "ok"
			wi++
			if a.Ok != a.Dev {
				differs = true
			}
			if o == a.Ok {
				continue
			}
			isParam := a.Member == "id" || a.Member == "setv" || a.Member == "save"
			id := fmt.Sprintf("C19/member=%s.%s/kind=%s/unexplained/seq=%s", a.Cls, a.Member, a.Kind, seq)
			if o == a.Dev {
				if isParam {
					id = fmt.Sprintf("C19/deviation=params-unchecked/member=%s.%s", a.Cls, a.Member)
				} else {
					id = fmt.Sprintf("C19/deviation=first-instantiation-wins/member=%s.%s", a.Cls, a.Member)
				}
			}
			rep.Add(kf.Mismatch{ID: id, Expected: map[string]any{"accepted": a.Ok}, Observed: map[string]any{"accepted": o}, ObsKey: fmt.Sprintf("accepted=%v", o),
				Input: src, Detail: map[string]any{"write": a, "deviation_prediction": a.Dev}})
		}
		if differs {
			nontrivial[seq] = true
		}
		if len(samples) < 3 && differs && paths%101 == 0 {
			samples = append(samples, map[string]any{"seq": seq, "out": r.Out})
		}
	}
	g.AllPaths(maxOps, func(_ string, p []graph.Edge) bool { runPath(p); return true })
	if c.Thorough() {
		// the depth-4 graph leaves the this-call route out (cost); it is explored completely at depth 3
		if r3 := runTLC(rep, tlc.Run{SpecDir: c.SpecDir(), Module: "Generic", Cfg: "Generic.cfg",
			Consts: map[string]string{"MAXINST": "3", "MAXOPS": "3", "VIAS": `{"direct", "helper", "this-call"}`}}); r3 != nil && r3.Violated == "" {
			if g3, err := graph.Build(r3.Tagged["INIT"], r3.Tagged["EDGE"]); err == nil {
				g3.AllPaths(3, func(_ string, p []graph.Edge) bool { runPath(p); return true })
			}
		}
	}
	exhaustive := paths
	// seeded longer sequences (length <= 6) from TLC -simulate
	sim := runTLC(rep, tlc.Run{SpecDir: c.SpecDir(), Module: "Generic", Cfg: "Generic.cfg", Workers: 1,
		Consts: map[string]string{"MAXINST": "4", "MAXOPS": "6", "VIAS": `{"direct", "helper", "this-call"}`}, Simulate: fmt.Sprintf("num=%d", c.Pick(400, 1500)), Depth: 8, Seed: c.Seed})
	if sim != nil {
		sg, err := graph.Build(sim.Tagged["INIT"], sim.Tagged["EDGE"])
		if err == nil {
			rng := c.Rng()
			for i := 0; i < c.Pick(8000, 20000); i++ {
				_, p := sg.RandomPath(rng, 6)
				if len(p) > 0 {
					runPath(p)
				}
			}
		}
	}
	rep.Coverage["traces_validated_against_impl"] = paths
	rep.Coverage["exhaustive_paths"] = exhaustive
	rep.Coverage["evaluations"] = writes
	rep.Coverage["distinct_nontrivial"] = len(nontrivial)
	rep.Coverage["exhaustive"] = true
	rep.Coverage["rule"] = fmt.Sprintf("all sequences of <= %d instantiations/typed writes (each at its own source position or through a helper function shared by all instances) over Box<T> and Pair<K,V> (state-graph paths) replayed as scripts, each write compared with the reference verdict; seeded sequences up to length 6 from TLC -simulate; non-trivial = sequences on which the first-instantiation-wins mechanism would give a different verdict", maxOps)
	if len(samples) == 0 {
		samples = append(samples, "none")
	}
	rep.Coverage["samples"] = samples
	return rep
}
