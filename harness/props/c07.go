package props

import (
	"encoding/json"
	"fmt"
	"sort"
	"strings"
	"time"

	"verif/kf"
	"verif/tlc"
)

func init() { Registry["C07"] = C07 }

type c07Sc struct {
	// vis
	Kind   string
	Mod    string
	Static bool
	Op     string
	Path   string
	Site   string
	Obj    string
	// type
	Type string
	Val  string
	At   string
	// inst
	Shape string
	Via   string
}

type c07Case struct {
	Aspect  string
	Sc      c07Sc
	Verdict struct {
		Ok      bool
		Dev     bool
		Devname string
	}
}

// names of the fixture classes: D (declares), M (optional empty class between D and S), S extends D, G extends S, X unrelated
type c07Names struct {
	D, M, S, G, X string
	Mid           bool // S extends M extends D
}

func c07NamesFor(seed int64) c07Names {
	sets := [][5]string{{"D", "M", "S", "G", "X"}, {"Base", "Middle", "Child", "Leaf", "Other"}, {"Acct", "AcctMid", "acctSub", "AcctLeaf", "Ledger"}, {"N0", "N1", "N2", "N3", "N9"}}
	s := sets[int(seed%int64(len(sets)))]
	return c07Names{D: s[0], M: s[1], S: s[2], G: s[3], X: s[4], Mid: (seed/int64(len(sets)))%2 == 1}
}

func (sc c07Sc) member(i int) string {
	n := ""
	if sc.Static {
		n = "s"
	}
	if sc.Kind == "method" {
		n += "m"
	} else {
		n += "p"
	}
	return fmt.Sprintf("%s%s%d", n, sc.Mod[:3], i)
}

// c07VisBatch renders a batch of visibility cases as one script.
func c07VisBatch(nm c07Names, idx []int, cases []c07Case) string {
	body := map[string][]string{}
	var top, traits []string
	add := func(cls, s string) { body[cls] = append(body[cls], s) }
	for _, i := range idx {
		sc := cases[i].Sc
		name := sc.member(i)
		st := ""
		if sc.Static {
			st = "static "
		}
		if sc.Kind == "prop" {
			add(nm.D, fmt.Sprintf("  %s %s$%s = \"v%d\";", sc.Mod, st, name, i))
			if sc.Static {
				add(nm.D, fmt.Sprintf("  public static function peek%d($o) { return self::$%s; }", i, name))
			} else {
				add(nm.D, fmt.Sprintf("  public static function peek%d($o) { return $o->%s; }", i, name))
			}
		} else {
			add(nm.D, fmt.Sprintf("  %s %sfunction %s() { echo \"[hit%d]\"; return \"r%d\"; }", sc.Mod, st, name, i, i))
		}
		cls := map[string]string{"D": nm.D, "S": nm.S}[sc.Obj]
		pre, target := "", ""
		switch sc.Path {
		case "arrow":
			target = "$o->" + name
		case "dynamic":
			pre = fmt.Sprintf("$nm = \"%s\"; ", name)
			target = "$o->$nm"
		case "returned-this":
			target = "$o->self()->" + name
		case "index":
			target = fmt.Sprintf("$o[\"%s\"]", name)
		case "this":
			target = "$this->" + name
		case "scope":
			target = cls + "::"
		case "self", "static", "parent":
			target = sc.Path + "::"
		}
		if sc.Static {
			if sc.Kind == "prop" {
				target += "$" + name
			} else {
				target += name
			}
		}
		var stmt string // leaves the result in $r
		switch sc.Op {
		case "read":
			stmt = pre + "$r = " + target + ";"
		case "write":
			stmt = fmt.Sprintf("%s%s = \"W%d\"; $r = \"w\";", pre, target, i)
		case "call":
			stmt = pre + "$r = " + target + "();"
		case "unset":
			stmt = fmt.Sprintf("%sunset(%s); $r = \"u\";", pre, target)
		}
		holder := map[string]string{"decl": nm.D, "closure": nm.D, "sub": nm.S, "grand": nm.G, "sibling": nm.X, "shared-trait": nm.X}[sc.Site]
		objNew := "new " + cls + "()"
		var probe string
		switch sc.Site {
		case "outside":
			probe = fmt.Sprintf("$o = %s;\ntry { %s echo \"\\nK%d|ok:\", $r, \"\\n\"; } catch (\\Throwable $e) { echo \"\\nK%d|denied:\", get_class($e), \"\\n\"; }", objNew, stmt, i, i)
		case "shared-trait":
			traits = append(traits, fmt.Sprintf("trait Tr%d {\n  public function c%d($o) { %s return $r; }\n}", i, i, stmt))
			add(nm.D, fmt.Sprintf("  use Tr%d;", i))
			add(nm.X, fmt.Sprintf("  use Tr%d;", i))
		case "closure":
			add(holder, fmt.Sprintf("  public function c%d($o) { $f = function() use ($o) { %s return $r; }; return $f(); }", i, stmt))
		default:
			add(holder, fmt.Sprintf("  public function c%d($o) { %s return $r; }", i, stmt))
		}
		if sc.Site != "outside" {
			setup := fmt.Sprintf("$h = new %s(); $o = %s;", holder, objNew)
			if sc.Path == "this" {
				setup = fmt.Sprintf("$h = new %s(); $o = $h;", holder)
			}
			if sc.Site == "shared-trait" {
				// the same code runs in the declaring class first (allowed there), on another object
				setup = fmt.Sprintf("try { $warm = new %s(); $warm->c%d(%s); } catch (\\Throwable $e) { }\necho \"\\n[warmed%d]\\n\";\n", nm.D, i, objNew, i) + setup
			}
			probe = fmt.Sprintf("%s\ntry { $r = $h->c%d($o); echo \"\\nK%d|ok:\", $r, \"\\n\"; } catch (\\Throwable $e) { echo \"\\nK%d|denied:\", get_class($e), \"\\n\"; }", setup, i, i, i)
		}
		top = append(top, probe)
		if sc.Kind == "prop" {
			top = append(top, fmt.Sprintf("try { echo \"P%d|\", %s::peek%d($o), \"\\n\"; } catch (\\Throwable $e) { echo \"P%d|err\\n\"; }", i, nm.D, i, i))
		}
	}
	body[nm.D] = append(body[nm.D], "  public function self() { return $this; }")
	var sb strings.Builder
	for _, t := range traits {
		sb.WriteString(t + "\n")
	}
	cls := func(name, ext string) {
		fmt.Fprintf(&sb, "class %s%s {\n%s\n}\n", name, ext, strings.Join(body[name], "\n"))
	}
	cls(nm.D, "")
	sParent := nm.D
	if nm.Mid {
		cls(nm.M, " extends "+nm.D)
		sParent = nm.M
	}
	cls(nm.S, " extends "+sParent)
	cls(nm.G, " extends "+nm.S)
	cls(nm.X, "")
	sb.WriteString(strings.Join(top, "\n"))
	sb.WriteString("\necho \"\\nEND\\n\";\n")
	return sb.String()
}

var c07TypeName = map[string]string{"int": "int", "string": "string", "array": "array", "D": "D0", "I": "I0", "J": "J0", "?int": "?int", "int|string": "int|string", "?D": "?D0", "?I": "?I0"}
var c07Default = map[string]string{"int": "0", "string": `""`, "array": "[]", "?int": "null", "int|string": "0", "?D": "null", "?I": "null"}
var c07Value = map[string]string{"int": "5", "string": `"s"`, "float": "1.5", "bool": "true", "null": "null", "array": "[1]",
	"objD": "new D0()", "objS": "new S0()", "objX": "new X0()", "objImpl": "new Impl0()",
	"objImplSub": "new ImplSub0()", "objJImpl": "new JImpl0()", "objJImplSub": "new JImplSub0()",
	"objFakeD": "new \\Vendor\\Plugin\\D0()"}

const c07TypeFixture = `interface J0 { function jm(); }
interface I0 extends J0 { function im(); }
class D0 { }
class S0 extends D0 { }
class X0 { }
class Impl0 implements I0 {
  function im() { return 1; }
  function jm() { return 2; }
}
class ImplSub0 extends Impl0 { }
class JImpl0 implements J0 {
  function jm() { return 3; }
}
class JImplSub0 extends JImpl0 { }
`

func c07TypeBatch(idx []int, cases []c07Case) string {
	var decl, top []string
	for _, i := range idx {
		sc := cases[i].Sc
		t := c07TypeName[sc.Type]
		def, hasDef := c07Default[sc.Type]
		init := ""
		if hasDef {
			init = " = " + def
		}
		okTail := fmt.Sprintf("echo \"\\nK%d|ok:\", (($r === $v) ? \"same\" : \"changed\"), \"\\n\"; } catch (\\Throwable $e) { echo \"\\nK%d|denied:\", get_class($e), \"\\n\"; }", i, i)
		v := fmt.Sprintf("$v = %s;", c07Value[sc.Val])
		switch sc.At {
		case "prop":
			decl = append(decl, fmt.Sprintf("class T%d {\n  public %s $p%s;\n}", i, t, init))
			top = append(top, fmt.Sprintf("%s $t = new T%d();\ntry { $t->p = $v; $r = $t->p; %s", v, i, okTail))
			if hasDef {
				top = append(top, fmt.Sprintf("echo \"P%d|\", (($t->p === %s) ? \"default\" : \"other\"), \"\\n\";", i, def))
			}
		case "static-prop":
			decl = append(decl, fmt.Sprintf("class T%d {\n  public static %s $p%s;\n}", i, t, init))
			top = append(top, fmt.Sprintf("%s\ntry { T%d::$p = $v; $r = T%d::$p; %s", v, i, i, okTail))
			if hasDef {
				top = append(top, fmt.Sprintf("echo \"P%d|\", ((T%d::$p === %s) ? \"default\" : \"other\"), \"\\n\";", i, i, def))
			}
		case "param-func":
			decl = append(decl, fmt.Sprintf("function f%d(%s $p) { echo \"[hit%d]\"; return $p; }", i, t, i))
			top = append(top, fmt.Sprintf("%s\ntry { $r = f%d($v); %s", v, i, okTail))
		case "param-method":
			decl = append(decl, fmt.Sprintf("class T%d {\n  public function m(%s $p) { echo \"[hit%d]\"; return $p; }\n}", i, t, i))
			top = append(top, fmt.Sprintf("%s $t = new T%d();\ntry { $r = $t->m($v); %s", v, i, okTail))
		case "param-static":
			decl = append(decl, fmt.Sprintf("class T%d {\n  public static function m(%s $p) { echo \"[hit%d]\"; return $p; }\n}", i, t, i))
			top = append(top, fmt.Sprintf("%s\ntry { $r = T%d::m($v); %s", v, i, okTail))
		case "param-ctor":
			decl = append(decl, fmt.Sprintf("class T%d {\n  public $q = 0;\n  public function __construct(%s $p) { echo \"[hit%d]\"; $this->q = $p; }\n}", i, t, i))
			top = append(top, fmt.Sprintf("%s\ntry { $t = new T%d($v); $r = $t->q; %s", v, i, okTail))
		case "param-closure":
			top = append(top, fmt.Sprintf("%s $c = function(%s $p) { echo \"[hit%d]\"; return $p; };\ntry { $r = $c($v); %s", v, t, i, okTail))
		case "return-func":
			decl = append(decl, fmt.Sprintf("function f%d($p): %s { return $p; }", i, t))
			top = append(top, fmt.Sprintf("%s\ntry { $r = f%d($v); %s", v, i, okTail))
		case "return-method":
			decl = append(decl, fmt.Sprintf("class T%d {\n  public function m($p): %s { return $p; }\n}", i, t))
			top = append(top, fmt.Sprintf("%s $t = new T%d();\ntry { $r = $t->m($v); %s", v, i, okTail))
		case "return-closure":
			top = append(top, fmt.Sprintf("%s $c = function($p): %s { return $p; };\ntry { $r = $c($v); %s", v, t, okTail))
		}
	}
	// a class with the same short name in another namespace, declared after the global code
	return c07TypeFixture + strings.Join(decl, "\n") + "\n" + strings.Join(top, "\n") + "\necho \"\\nEND\\n\";\nnamespace Vendor\\Plugin;\nclass D0 { }\n"
}

func c07InstScript(shape, via string, pfx string) string {
	P := func(s string) string { return strings.ReplaceAll(s, "@", pfx) }
	decl := map[string]string{
		"concrete":                            "class @C { }",
		"abstract":                            "abstract class @C { }",
		"interface":                           "interface @C { }",
		"abstract-child-of-concrete":          "class @P { }\nabstract class @C extends @P { }",
		"missing-parent-abstract":             "abstract class @P {\n  abstract public function m();\n}\nclass @C extends @P { }",
		"implements-parent-abstract":          "abstract class @P {\n  abstract public function m();\n}\nclass @C extends @P {\n  public function m() { return 1; }\n}",
		"missing-grand-abstract":              "abstract class @GP {\n  abstract public function m();\n}\nabstract class @P extends @GP { }\nclass @C extends @P { }",
		"missing-grand-abstract-mid-declares": "abstract class @GP {\n  abstract public function m();\n}\nabstract class @P extends @GP {\n  abstract public function n();\n}\nclass @C extends @P {\n  public function n() { return 1; }\n}",
		"implements-grand-abstract":           "abstract class @GP {\n  abstract public function m();\n}\nabstract class @P extends @GP { }\nclass @C extends @P {\n  public function m() { return 1; }\n}",
		"mid-implements-grand-abstract":       "abstract class @GP {\n  abstract public function m();\n}\nclass @P extends @GP {\n  public function m() { return 1; }\n}\nclass @C extends @P { }",
		"missing-one-of-two":                  "abstract class @P {\n  abstract public function m();\n  abstract public function n();\n}\nclass @C extends @P {\n  public function m() { return 1; }\n}",
		"missing-interface-method":            "interface @I {\n  public function m();\n}\nclass @C implements @I { }",
		"missing-interface-method-of-grand":   "interface @I {\n  public function m();\n}\nabstract class @P implements @I { }\nclass @C extends @P { }",
		"missing-parent-interface-method":     "interface @J {\n  public function m();\n}\ninterface @I extends @J {\n  public function n();\n}\nclass @C implements @I {\n  public function n() { return 1; }\n}",
		"implements-interface":                "interface @I {\n  public function m();\n}\nclass @C implements @I {\n  public function m() { return 1; }\n}",
		"inherits-interface-method":           "interface @I {\n  public function m();\n}\nclass @P {\n  public function m() { return 1; }\n}\nclass @C extends @P implements @I { }",
	}[shape]
	newExpr := "new @C()"
	switch via {
	case "varname":
		newExpr = "new $cn()"
	case "expr":
		newExpr = "new (\"@\" . \"C\")()"
	case "self", "static":
		// a static factory inside the class under test
		at := strings.Index(decl, "class @C")
		br := at + strings.Index(decl[at:], "{")
		decl = decl[:br+1] + "\n  public static function mk() { return new " + via + "(); }\n" + decl[br+1:]
		newExpr = "@C::mk()"
	}
	return P(decl + "\n$cn = \"@C\";\necho \"START\\n\";\ntry { $o = " + newExpr + "; echo \"K|ok:\", get_class($o), \"\\n\"; } catch (\\Throwable $e) { echo \"K|denied:\", get_class($e), \"\\n\"; }\necho \"END\\n\";\n")
}

type c07Obs struct {
	verdict string // ok | denied | none
	detail  string
	effect  bool // a denied access changed the member or ran the method
	wrong   bool // an allowed access gave the wrong value
}

func c07ParseVis(out string, i int, k c07Case) c07Obs {
	o := c07Obs{verdict: "none"}
	kp, pp := fmt.Sprintf("K%d|", i), fmt.Sprintf("P%d|", i)
	peek := ""
	for _, l := range strings.Split(out, "\n") {
		if strings.HasPrefix(l, kp) {
			rest := l[len(kp):]
			if strings.HasPrefix(rest, "ok:") {
				o.verdict, o.detail = "ok", rest[3:]
			} else if strings.HasPrefix(rest, "denied:") {
				o.verdict, o.detail = "denied", rest[7:]
			}
		}
		if strings.HasPrefix(l, pp) {
			peek = l[len(pp):]
		}
	}
	// for the shared-trait site the same code ran in the declaring class first: only what follows counts
	if w := strings.Index(out, fmt.Sprintf("[warmed%d]", i)); w >= 0 {
		out = out[w:]
	}
	hit := strings.Contains(out, fmt.Sprintf("[hit%d]", i))
	switch o.verdict {
	case "ok":
		switch k.Sc.Op {
		case "read":
			o.wrong = o.detail != fmt.Sprintf("v%d", i)
		case "write":
			o.wrong = peek != fmt.Sprintf("W%d", i)
		case "unset":
			o.wrong = peek == fmt.Sprintf("v%d", i) // an allowed unset must remove (or null) the value
		case "call":
			o.wrong = o.detail != fmt.Sprintf("r%d", i) || !hit
		}
	case "denied":
		if k.Sc.Kind == "prop" {
			o.effect = peek != fmt.Sprintf("v%d", i)
		} else {
			o.effect = hit
		}
	}
	return o
}

func c07ParseType(out string, i int, k c07Case) c07Obs {
	o := c07Obs{verdict: "none"}
	kp, pp := fmt.Sprintf("K%d|", i), fmt.Sprintf("P%d|", i)
	peek := ""
	for _, l := range strings.Split(out, "\n") {
		if strings.HasPrefix(l, kp) {
			rest := l[len(kp):]
			if strings.HasPrefix(rest, "ok:") {
				o.verdict, o.detail = "ok", rest[3:]
			} else if strings.HasPrefix(rest, "denied:") {
				o.verdict, o.detail = "denied", rest[7:]
			}
		}
		if strings.HasPrefix(l, pp) {
			peek = l[len(pp):]
		}
	}
	// for the shared-trait site the same code ran in the declaring class first: only what follows counts
	if w := strings.Index(out, fmt.Sprintf("[warmed%d]", i)); w >= 0 {
		out = out[w:]
	}
	hit := strings.Contains(out, fmt.Sprintf("[hit%d]", i))
	if o.verdict == "ok" {
		o.wrong = o.detail != "same" // an accepted value must arrive unchanged (no coercion)
	}
	if o.verdict == "denied" {
		o.effect = hit || peek == "other"
	}
	return o
}

// C07 replays every scenario of spec/Access.tla (visibility x site x path, declared type x value x boundary,
// instantiability shapes) on the real interpreter.
func C07(c *Ctx) *kf.Report {
	rep := &kf.Report{Property: "C07", Level: "model_checking", Coverage: map[string]any{}}
	rep.Assumptions = []string{
		"fixture hierarchy D <- [M <-] S <- G plus unrelated X; class names and the optional middle class vary with VERIF_SEED; every case gets its own member so that cases do not interfere",
		"a member access (aspect vis) the reference allows but the interpreter refuses (unsupported path) is not a violation of the property, which only says where a member is NOT usable; a value of the declared type that is rejected, or an instantiable class that is refused, is a violation; refused member accesses are counted in coverage.allowed_but_denied, and the run is an infrastructure error if more than a third of the allowed cases are refused (vacuity guard)",
		"'accepts exactly the values of that type' is read without coercion: an accepted value must arrive === the value passed",
	}
	var cases []c07Case
	for _, asp := range []string{"vis", "type", "inst"} {
		res := runTLC(rep, tlc.Run{SpecDir: c.SpecDir(), Module: "Access", Cfg: "Access.cfg", Consts: map[string]string{"ASPECT": asp}, Timeout: 10 * time.Minute})
		if res == nil {
			return rep
		}
		addTLC(rep, res)
		if res.Violated != "" {
			rep.Infraf("spec Access(%s): %s violated\n%s", asp, res.Violated, res.Tail(20))
			return rep
		}
		var part []c07Case
		for _, raw := range res.Tagged["CASE"] {
			var k c07Case
			must(json.Unmarshal(raw, &k))
			part = append(part, k)
		}
		// TLC's order of initial states is not stable across worker counts: sort for reproducible ids
		sort.Slice(part, func(a, b int) bool { return fmt.Sprint(part[a].Sc) < fmt.Sprint(part[b].Sc) })
		cases = append(cases, part...)
	}
	seeds := []int64{c.Seed}
	if c.Thorough() {
		for s := int64(1); s < 8; s++ {
			seeds = append(seeds, c.Seed+s)
		}
	}
	type jref struct {
		idx  []int
		seed int64
	}
	var jobs []Job
	var refs []jref
	mk := func(idx []int, seed int64) Job {
		switch cases[idx[0]].Aspect {
		case "vis":
			return Job{Src: c07VisBatch(c07NamesFor(seed), idx, cases)}
		case "type":
			return Job{Src: c07TypeBatch(idx, cases)}
		}
		return Job{Src: c07InstScript(cases[idx[0]].Sc.Shape, cases[idx[0]].Sc.Via, fmt.Sprintf("Q%d", seed%5))}
	}
	batch := func(asp string, size int, seed int64) {
		var cur []int
		flush := func() {
			if len(cur) > 0 {
				jobs = append(jobs, mk(cur, seed))
				refs = append(refs, jref{cur, seed})
				cur = nil
			}
		}
		for i, k := range cases {
			if k.Aspect != asp {
				continue
			}
			cur = append(cur, i)
			if len(cur) >= size {
				flush()
			}
		}
		flush()
	}
	for si, seed := range seeds {
		batch("vis", 24, seed)
		if si == 0 {
			batch("type", 30, seed)
		}
		batch("inst", 1, seed)
	}
	rs, err := RunJobs(c.Self, jobs, 0, 20*time.Second)
	if err != nil {
		rep.Infraf("pool: %v", err)
		return rep
	}
	// a batch that does not run to END is split into single-case scripts
	var jobs2 []Job
	var refs2 []jref
	var rs2 []JobResult
	for ji, r := range rs {
		if len(refs[ji].idx) > 1 && !strings.Contains(r.Out, "\nEND\n") {
			for _, i := range refs[ji].idx {
				jobs2 = append(jobs2, mk([]int{i}, refs[ji].seed))
				refs2 = append(refs2, jref{[]int{i}, refs[ji].seed})
			}
			continue
		}
		jobs2 = append(jobs2, jobs[ji])
		refs2 = append(refs2, refs[ji])
		rs2 = append(rs2, r)
	}
	if len(jobs2) != len(jobs) {
		rs2, err = RunJobs(c.Self, jobs2, 0, 20*time.Second)
		if err != nil {
			rep.Infraf("pool: %v", err)
			return rep
		}
	}
	checked, allowedRef, allowedDenied, deniedRef := 0, 0, 0, 0
	var overDenied, wrongValue []string
	for ji, r := range rs2 {
		for _, i := range refs2[ji].idx {
			k := cases[i]
			var id string
			var o c07Obs
			switch k.Aspect {
			case "vis":
				st := "inst"
				if k.Sc.Static {
					st = "static"
				}
				id = fmt.Sprintf("C07/vis/%s-%s-%s/op=%s/path=%s/site=%s/obj=%s", k.Sc.Mod, st, k.Sc.Kind, k.Sc.Op, k.Sc.Path, k.Sc.Site, k.Sc.Obj)
				o = c07ParseVis(r.Out, i, k)
			case "type":
				id = fmt.Sprintf("C07/type/at=%s/type=%s/val=%s", k.Sc.At, strings.ReplaceAll(k.Sc.Type, "?", "nullable-"), k.Sc.Val)
				o = c07ParseType(r.Out, i, k)
			case "inst":
				id = "C07/inst/shape=" + k.Sc.Shape + "/via=" + k.Sc.Via
				o.verdict = "none"
				for _, l := range strings.Split(r.Out, "\n") {
					if strings.HasPrefix(l, "K|ok") {
						o.verdict = "ok"
					} else if strings.HasPrefix(l, "K|denied") {
						o.verdict = "denied"
					}
				}
				if o.verdict == "none" && (r.ParseErr != "" || r.Uncaught != "") && r.Panic == "" {
					o.verdict, o.detail = "denied", "at declaration: "+tailStr(r.ParseErr+r.Uncaught, 120)
				}
			}
			if r.Hang || r.Died || r.Panic != "" {
				rep.Add(kf.Mismatch{ID: id + "/kind=crash", Expected: "ok or a catchable error", Observed: map[string]any{"hang": r.Hang, "died": r.Died, "panic": r.Panic, "stderr": tailStr(r.Stderr, 300)}, ObsKey: "crash", Input: jobs2[ji].Src})
				continue
			}
			checked++
			if o.verdict == "none" {
				// the script stopped before this case: an uncatchable error is not "a catchable error"
				why := tailStr(r.ParseErr+r.Uncaught, 160)
				if k.Verdict.Ok {
					allowedRef++
					allowedDenied++
					overDenied = append(overDenied, id+" ("+why+")")
					if k.Aspect != "vis" {
						rep.Add(kf.Mismatch{ID: id, Expected: "accepted", Observed: "the script stopped: " + why, ObsKey: "rejected", Input: jobs2[ji].Src})
					}
					continue
				}
				deniedRef++
				if r.ParseErr != "" {
					continue // refused when the program is loaded: nothing ran, nothing to catch
				}
				rep.Add(kf.Mismatch{ID: id, Expected: "denied with a catchable error", Observed: "uncatchable: " + why, ObsKey: "uncatchable", Input: jobs2[ji].Src})
				continue
			}
			if k.Verdict.Ok {
				allowedRef++
				if o.verdict == "denied" {
					allowedDenied++
					overDenied = append(overDenied, id+" ("+o.detail+")")
					if k.Aspect != "vis" {
						// "accepts exactly the values of that type": a value of the type must pass the boundary,
						// and an instantiable class must be instantiated
						rep.Add(kf.Mismatch{ID: id, Expected: "accepted", Observed: "rejected: " + o.detail, ObsKey: "rejected", Input: jobs2[ji].Src})
					}
				} else if o.wrong {
					// the access was allowed, which is all C07 prescribes; what it yields is C08's / C03's business
					wrongValue = append(wrongValue, id+" ("+o.detail+")")
				}
				continue
			}
			deniedRef++
			if o.verdict == "denied" && !o.effect {
				continue
			}
			obs := "accepted"
			if o.verdict == "denied" {
				obs = "denied-with-effect"
			}
			mid := id
			if k.Verdict.Devname != "none" && k.Verdict.Dev && o.verdict == "ok" {
				mid = fmt.Sprintf("C07/%s/deviation=%s", k.Aspect, k.Verdict.Devname)
			}
			rep.Add(kf.Mismatch{ID: mid, Expected: "denied with a catchable error and no effect", Observed: map[string]any{"case": id, "verdict": o.verdict, "detail": o.detail, "effect": o.effect}, ObsKey: obs, Input: jobs2[ji].Src})
		}
	}
	if allowedRef > 0 && allowedDenied*3 > allowedRef {
		rep.Infraf("vacuity guard: %d of %d reference-allowed cases were refused by the interpreter; first: %v", allowedDenied, allowedRef, firstN(overDenied, 5))
	}
	sort.Strings(overDenied)
	rep.Coverage["traces_validated_against_impl"] = checked
	rep.Coverage["scenarios"] = len(cases)
	rep.Coverage["scripts"] = len(jobs2)
	rep.Coverage["reference_allowed"] = allowedRef
	rep.Coverage["reference_denied"] = deniedRef
	rep.Coverage["distinct_nontrivial"] = deniedRef
	rep.Coverage["allowed_but_denied"] = allowedDenied
	rep.Coverage["allowed_but_denied_cases"] = firstN(dedupe(overDenied), 60)
	rep.Coverage["allowed_with_unexpected_value"] = firstN(dedupe(wrongValue), 40)
	rep.Coverage["hierarchy_variants"] = len(seeds)
	rep.Coverage["exhaustive"] = true
	rep.Coverage["rule"] = "every initial state of Access.tla for the three aspects: (kind x modifier x static x op x path x site x object class) filtered by VisValid, (10 declared types incl. an interface and its parent interface x 13 value kinds incl. classes that implement directly / through a parent class / through a parent interface x 10 boundaries), 16 instantiability shapes x 5 ways of naming the class (literal, variable, expression, self, static); each is rendered into a class fixture (names / middle class vary with the seed) and run; non-trivial = cases the reference denies"
	if len(jobs2) > 0 {
		rep.Coverage["samples"] = []any{tailStr(jobs2[0].Src, 1500)}
	}
	return rep
}

func firstN(s []string, n int) []string {
	if len(s) > n {
		return s[:n]
	}
	return s
}

func dedupe(s []string) []string {
	var out []string
	seen := map[string]bool{}
	for _, x := range s {
		if !seen[x] {
			seen[x] = true
			out = append(out, x)
		}
	}
	return out
}
