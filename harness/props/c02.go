package props

import (
	"fmt"
	"strings"

	"verif/kf"
	"verif/lang"
)

func init() { Registry["C02"] = C02 }

// open deviations of the pinned interpreter that Lang.tla models (known findings)
var c02OpenDevs = []string{"break-level-ignored", "switch-no-fallthrough", "continue-in-switch-swallowed"}

// C02: enumerated loop x control shapes and seeded typed programs, reference = Lang.tla run by TLC.
func C02(c *Ctx) *kf.Report {
	rep := &kf.Report{Property: "C02", Level: "model_checking", Coverage: map[string]any{}}
	rep.Assumptions = []string{
		"programs stay inside the typed core (ints within +-10^6, bools, strings; bounded loops): TLC integers are 32 bit",
		"the Go unparser prints fully parenthesised source, one statement per line; output tokens are newline separated",
		"seeded programs use break / continue levels in every second program and switch in every third (both were avoided while the interpreter ignored levels and had no fall-through; fixed by d3b94a0 and 3b4cdeb)",
	}
	progs := lang.EnumLoops(c.Thorough())
	nEnum := len(progs)
	rng := c.Rng()
	nSeed := c.Pick(400, 5000)
	for i := 0; i < nSeed; i++ {
		p := lang.Random(rng, lang.GenCfg{MaxDepth: 3 + i%3, Levels: i%2 == 1, Switch: i%3 == 2, ContinueWhile: true})
		p.Tags = append(p.Tags, fmt.Sprintf("n=%d", i))
		progs = append(progs, p)
	}
	compared, budget := langCompare(c, rep, "C02", progs, c02OpenDevs)
	kinds := map[string]bool{}
	for _, p := range progs[:nEnum] {
		kinds[strings.Join(p.Tags, "/")] = true
	}
	rep.Coverage["programs_enumerated"] = nEnum
	rep.Coverage["programs_seeded"] = nSeed
	rep.Coverage["traces_validated_against_impl"] = compared
	rep.Coverage["over_step_budget"] = budget
	rep.Coverage["evaluations"] = compared
	rep.Coverage["distinct_nontrivial"] = len(kinds) + nSeed
	rep.Coverage["rule"] = "enumerated: every nest of 2 (thorough: also 3) loops over {for, while, do-while, foreach} x {break n, continue n, return} x placed via {if, switch case, try/finally}, plus switch fall-through / match; seeded: typed programs with nested loops, functions with defaults, recursion, static locals and shadowing locals; each program is run by TLC on Lang.tla and by the real interpreter, echoed tokens and final status compared"
	if len(progs) > 0 {
		rep.Coverage["samples"] = []any{map[string]any{"tags": progs[0].Tags, "source": progs[0].Source("")}, map[string]any{"tags": progs[len(progs)-1].Tags, "source": progs[len(progs)-1].Source("")}}
	}
	return rep
}
