package props

import (
	"fmt"
	"os"
)

// Workers registered by kind (subprocess mode, used for crash isolation and parallelism).
var Workers = map[string]func(){}

// RunWorker dispatches to a registered worker loop.
func RunWorker(kind string) {
	w, ok := Workers[kind]
	if !ok {
		fmt.Fprintln(os.Stderr, "unknown worker kind", kind)
		os.Exit(2)
	}
	w()
}
