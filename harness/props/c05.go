package props

import (
	"bytes"
	"encoding/json"
	"fmt"
	"os"
	"os/exec"
	"path/filepath"
	"strings"
	"time"

	"verif/kf"
	"verif/lang"
	"verif/rt"
	"verif/tlc"
)

func init() { Registry["C05"] = C05 }

type c05Proc struct {
	Ending string
	Necho  int
	Stdout []string
	Diag   bool
	Status int
}

func c05Script(p c05Proc) string {
	var sb strings.Builder
	if p.Ending == "throw-user-in-func" {
		sb.WriteString("function boom() { throw new \\Exception(\"from function\"); }\n")
	}
	switch p.Ending {
	case "throw-handler-closure":
		sb.WriteString("set_exception_handler(function ($e) { echo \"[handler:\", $e->getMessage(), \"]\\n\"; });\n")
	case "throw-handler-name":
		sb.WriteString("function on_uncaught($e) { echo \"[handler:\", $e->getMessage(), \"]\\n\"; }\nset_exception_handler('on_uncaught');\n")
	case "throw-handler-null":
		sb.WriteString("set_exception_handler(null);\n")
	}
	if p.Ending == "parse-error" {
		sb.WriteString("if (1 { echo 1; }\n")
	}
	for i := 1; i <= p.Necho; i++ {
		fmt.Fprintf(&sb, "echo \"t%d\\n\";\n", i)
	}
	switch p.Ending {
	case "throw-user", "throw-handler-closure", "throw-handler-name", "throw-handler-null":
		sb.WriteString("throw new \\Exception(\"uncaught at top level\");\n")
	case "throw-in-finally-chain":
		sb.WriteString("function deep() { try { throw new \\Exception(\"from deep\"); } finally { echo \"fin-deep\\n\"; } }\ntry { deep(); } catch (\\LogicException $e) { echo \"wrong catch\\n\"; } finally { echo \"fin-top\\n\"; }\n")
	case "throw-user-in-func":
		sb.WriteString("boom();\n")
	case "runtime-error":
		sb.WriteString("$z = 0;\n$q = 5 % $z;\n")
	case "exit0":
		sb.WriteString("exit(0);\n")
	case "exit3":
		sb.WriteString("exit(3);\n")
	case "parse-error-late":
		sb.WriteString("class { }\n")
	}
	sb.WriteString("echo \"unreachable-or-end\\n\";\n")
	return sb.String()
}

// C05: try/catch/finally shapes on Lang.tla + process exit paths on Process.tla.
func C05(c *Ctx) *kf.Report {
	rep := &kf.Report{Property: "C05", Level: "model_checking", Coverage: map[string]any{}}
	rep.Assumptions = []string{
		"exception fixtures: Base, ErrA extends Base implements Marked, ErrA2 extends ErrA, ErrB extends Base implements Rooted, Other; interfaces Marked extends Tagged extends Rooted; every block prints entry/exit markers and catch blocks print getMessage() of the caught object",
		"identity of the caught object is observed through its message (unique per throw site) in the shape programs, and directly ($e === $o, $e !== $o, $e against another instance, $e instanceof every fixture type) in the identity family: every thrown class x every clause type that matches it",
		"the exit-status clause is replayed in real subprocesses of bin/origami built from the working tree",
	}
	rng := c.Rng()
	progs := lang.EnumTry(rng, c.Pick(300, 6000))
	nTry := len(progs)
	progs = append(progs, lang.Uncaught()...)
	compared, budget := langCompare(c, rep, "C05", progs, nil)
	rep.Coverage["try_programs"] = nTry
	rep.Coverage["over_step_budget"] = budget

	// ---- the catch variable IS the thrown object: identity and instanceof of what each clause binds
	{
		classes, ifaces := lang.ExcTypes()
		types := append(append([]string{}, classes...), ifaces...)
		types = append(types, "\\Exception", "\\Throwable")
		var sb strings.Builder
		sb.WriteString(lang.ExcFixtureSource())
		type idCase struct{ thrown, caught string }
		var ids []idCase
		for _, th := range classes {
			for _, ct := range types {
				if !lang.ExcIsA(th, strings.TrimPrefix(ct, "\\")) {
					continue
				}
				k := len(ids)
				ids = append(ids, idCase{th, ct})
				fmt.Fprintf(&sb, "$o%d = new %s(\"m%d\");\n$other%d = new %s(\"m%d\");\ntry { throw $o%d; } catch (%s $e) {\n  echo \"I%d|\", ($e === $o%d) ? \"same\" : \"different\", \"|\", ($e !== $o%d) ? \"ne\" : \"eq\", \"|\", ($e === $other%d) ? \"same\" : \"different\", \"|\";\n", k, th, k, k, th, k, k, ct, k, k, k, k)
				for _, t := range types {
					fmt.Fprintf(&sb, "  echo ($e instanceof %s) ? \"1\" : \"0\";\n", t)
				}
				sb.WriteString("  echo \"\\n\";\n}\n")
			}
		}
		r := rt.Run(sb.String(), rt.Opts{})
		if r.ParseErr != "" || r.Panic != "" || r.Uncaught != "" {
			rep.Add(kf.Mismatch{ID: "C05/identity/kind=script-failed", Expected: "script runs", Observed: r, ObsKey: "failed", Input: sb.String()})
		}
		got := map[string]string{}
		for _, l := range strings.Split(r.Out, "\n") {
			if f := strings.SplitN(l, "|", 2); len(f) == 2 {
				got[f[0]] = f[1]
			}
		}
		for k, ic := range ids {
			want := "same|eq|different|"
			for _, t := range types {
				if lang.ExcIsA(ic.thrown, strings.TrimPrefix(t, "\\")) {
					want += "1"
				} else {
					want += "0"
				}
			}
			if g := got[fmt.Sprintf("I%d", k)]; g != want {
				rep.Add(kf.Mismatch{ID: fmt.Sprintf("C05/identity/thrown=%s/caught=%s", ic.thrown, strings.TrimPrefix(ic.caught, "\\")), Expected: want, Observed: g, ObsKey: g,
					Input: map[string]any{"format": "($e === thrown)|($e !== thrown)|($e === another instance)|instanceof " + strings.Join(types, ","), "script": tailStr(sb.String(), 600)}})
			}
		}
		rep.Coverage["identity_cases"] = len(ids)
	}

	// ---- wherever the throw statement sits, the innermost enclosing try whose clause matches handles it
	{
		dir, _ := os.MkdirTemp("", "verif-c05inc-")
		defer os.RemoveAll(dir)
		os.WriteFile(filepath.Join(dir, "thrower.php"), []byte("<?php\necho \"[in-include]\";\nthrow new ErrA(\"from-include\");\n"), 0o644)
		os.WriteFile(filepath.Join(dir, "outer.php"), []byte("<?php\ninclude \""+filepath.Join(dir, "thrower2.php")+"\";\necho \"[not-reached]\";\n"), 0o644)
		os.WriteFile(filepath.Join(dir, "thrower2.php"), []byte("<?php\nthrow new ErrA2(\"from-nested-include\");\n"), 0o644)
		sites := []struct{ name, decl, stmt, msg string }{
			{"function", "function t1() { throw new ErrA(\"m1\"); }", "t1();", "m1"},
			{"nested-functions", "function t2a() { throw new ErrA2(\"m2\"); }\nfunction t2() { t2a(); echo \"[not-reached]\"; }", "t2();", "m2"},
			{"method", "class T3 {\n  public function go() { throw new ErrA(\"m3\"); }\n}", "(new T3())->go();", "m3"},
			{"static-method", "class T4 {\n  public static function go() { throw new ErrA(\"m4\"); }\n}", "T4::go();", "m4"},
			{"closure", "", "$f = function () { throw new ErrA(\"m5\"); }; $f();", "m5"},
			{"constructor", "class T6 {\n  public function __construct() { throw new ErrA(\"m6\"); }\n}", "$x = new T6();", "m6"},
			{"included-file", "", "include \"" + filepath.Join(dir, "thrower.php") + "\";", "from-include"},
			{"include-in-function", "function t8() { include \"" + filepath.Join(dir, "thrower2.php") + "\"; }", "t8();", "from-nested-include"},
			{"nested-include", "", "include \"" + filepath.Join(dir, "outer.php") + "\";", "from-nested-include"},
			{"array-callback", "", "array_map(function ($v) { throw new ErrA(\"m10\"); }, [1]);", "m10"},
		}
		siteOK := 0
		for _, st := range sites {
			src := lang.ExcFixtureSource() + st.decl + "\necho \"[start]\";\ntry {\n  try { " + st.stmt + " echo \"[after-throw]\"; } catch (ErrB $e) { echo \"[wrong-clause]\"; } finally { echo \"[inner-finally]\"; }\n} catch (Marked $e) { echo \"[caught:\", $e->getMessage(), \"]\"; } finally { echo \"[outer-finally]\"; }\necho \"[end]\";\n"
			r := rt.Run(src, rt.Opts{})
			want := "[start][inner-finally][caught:" + st.msg + "][outer-finally][end]"
			got := strings.ReplaceAll(r.Out, "[in-include]", "")
			if got != want || r.Uncaught != "" || r.Panic != "" || r.ParseErr != "" {
				rep.Add(kf.Mismatch{ID: "C05/throw-site=" + st.name, Expected: want, Observed: map[string]any{"out": r.Out, "uncaught": tailStr(r.Uncaught, 200), "panic": tailStr(r.Panic, 200), "parse": r.ParseErr}, ObsKey: got, Input: src})
			} else {
				siteOK++
			}
		}
		rep.Coverage["throw_sites"] = len(sites)
	}

	// ---- process paths
	ok := runTLC(rep, tlc.Run{SpecDir: c.SpecDir(), Module: "Process", Cfg: "Process.cfg",
		Consts: map[string]string{"DEV": "{}", "EMIT": "TRUE", "INV": "NonZeroOnFailure FlushBeforeExit"}})
	if ok == nil {
		return rep
	}
	addTLC(rep, ok)
	if ok.Violated != "" {
		rep.Infraf("spec Process: %s violated", ok.Violated)
	}
	if dev := runTLC(rep, tlc.Run{SpecDir: c.SpecDir(), Module: "Process", Cfg: "Process.cfg",
		Consts: map[string]string{"DEV": `{"parse-error-exits-zero"}`, "EMIT": "FALSE", "INV": "NonZeroOnFailure"}}); dev != nil {
		rep.Coverage["process_deviation_counterexample"] = dev.Violated
	}
	bin := filepath.Join(filepath.Dir(c.Self), "origami")
	if _, err := os.Stat(bin); err != nil {
		rep.Infraf("origami binary missing: %v", err)
		return rep
	}
	dir, _ := os.MkdirTemp("", "verif-c05-")
	defer os.RemoveAll(dir)
	procs := 0
	for i, raw := range ok.Tagged["CASE"] {
		var p c05Proc
		must(json.Unmarshal(raw, &p))
		for _, ext := range []string{".zy", ".php"} {
			src := c05Script(p)
			if ext == ".php" {
				src = "<?php\n" + src
			}
			f := filepath.Join(dir, fmt.Sprintf("p%d%s", i, ext))
			os.WriteFile(f, []byte(src), 0o644)
			cmd := exec.Command(bin, f)
			var so, se bytes.Buffer
			cmd.Stdout, cmd.Stderr = &so, &se
			t := time.AfterFunc(20*time.Second, func() { cmd.Process.Kill() })
			err := cmd.Run()
			t.Stop()
			procs++
			status := 0
			if ee, ok := err.(*exec.ExitError); ok {
				status = ee.ExitCode()
			} else if err != nil {
				rep.Infraf("run %s: %v", f, err)
				continue
			}
			// expected stdout: the echoed tokens (plus the end marker when the script runs to its end)
			exp := strings.Join(p.Stdout, "\n")
			if len(p.Stdout) > 0 {
				exp += "\n"
			}
			if p.Ending == "normal" {
				exp += "unreachable-or-end\n"
			}
			gotOut := so.String()
			diagPrinted := strings.TrimSpace(se.String()) != "" || len(gotOut) > len(exp)
			id := fmt.Sprintf("C05/proc=%s/necho=%d/mode=%s", p.Ending, p.Necho, ext[1:])
			var wrong []string
			if !strings.HasPrefix(gotOut, exp) {
				wrong = append(wrong, "stdout")
			}
			if (p.Status == 0) != (status == 0) || (p.Status == 3 && status != 3) {
				wrong = append(wrong, "status")
			}
			if p.Diag && !diagPrinted {
				wrong = append(wrong, "no-diagnostic")
			}
			if len(wrong) > 0 {
				key := strings.Join(wrong, "+") + fmt.Sprintf(":status=%d", status)
				rep.Add(kf.Mismatch{ID: id, Expected: p, Observed: map[string]any{"stdout": gotOut, "stderr": tailStr(se.String(), 600), "status": status}, ObsKey: key, Input: src})
			}
		}
	}
	rep.Coverage["process_runs"] = procs
	rep.Coverage["traces_validated_against_impl"] = compared + procs
	rep.Coverage["evaluations"] = compared + procs
	rep.Coverage["distinct_nontrivial"] = nTry
	rep.Coverage["exhaustive"] = true
	rep.Coverage["rule"] = "every depth-1 try shape (body exit x ordered catch list over a 5-class hierarchy with a 3-deep interface chain Marked<Tagged<Rooted x catch-body exit x finally exit x context top/loop/function/recursive-from-try/recursive-from-catch, where the recursive contexts re-enter the same try statement while outer activations are open) enumerated completely, depth-2 nestings seeded; each run by TLC on Lang.tla (FinallyOnce, AllTriesLeft checked on every state) and on the real interpreter; every Process.tla path (ending x tokens echoed before it) replayed as a real subprocess in both lexing modes, stdout / diagnostic / exit status compared"
	if len(progs) > 0 {
		rep.Coverage["samples"] = []any{map[string]any{"tags": progs[len(progs)/2].Tags, "source": progs[len(progs)/2].Source("")}}
	}
	return rep
}
