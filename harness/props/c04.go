package props

import (
	"encoding/json"
	"fmt"
	"strings"
	"time"

	"verif/kf"
	"verif/tlc"
)

func init() { Registry["C04"] = C04 }

type c04Case struct {
	Family  string
	Min     []string
	Full    []string
	Other   []string
	Devfull []string // how the pinned parser groups MinPrint (deviation dot-binds-tightest), fully parenthesised
}

// operand tuples for the leaves a b c d (PHP literals); the last tuple makes ?? meaningful
var c04Tuples = [][4]string{
	{"7", "3", "2", "5"},
	{"2", "5", "3", "1"},
	{"12", "2", "3", "4"},
	{"1", "1", "2", "2"},
	{"null", "3", "2", "5"},
	{"6", "-3", "2", "-1"},
	{"2.5", "1.5", "0.5", "3.5"}, // fractions: a cast applied to an operand or to a whole sub-expression gives different values
}

func isWord(s string) bool {
	return len(s) > 0 && (s[0] == '$' || (s[0] >= '0' && s[0] <= '9') || s == "null")
}

// c04Render prints a token sequence in one of three styles.
//
//	vars      $a + $b * $c                 (operands are variables, tokens separated by spaces)
//	lits      7 + 3 * 2                    (operands are literals; a negative literal follows its operator after a space)
//	tightlits 7 +3 *2                      (no space between a binary operator and its right operand: "7 -3" style signed tokens)
func c04Render(toks []string, style string, tup [4]string) string {
	leaf := func(n string) string {
		i := int(n[0] - 'a')
		if style == "vars" {
			return "$" + n
		}
		return tup[i]
	}
	var sb strings.Builder
	prev := ""
	for _, t := range toks {
		out := t
		if len(t) == 1 && t[0] >= 'a' && t[0] <= 'd' {
			out = leaf(t)
		}
		sep := " "
		switch {
		case prev == "":
			sep = ""
		case prev == "(" || out == ")":
			sep = ""
		case t == "." || prev == ".":
			// the concatenation dot is always spaced: glued to a digit it would read as a decimal point
		case style == "tightlits" && !isWord(prev) && prev != ")" && prev != "(":
			// after an operator: glue the operand, except where two minus signs or a minus and a negative literal would fuse
			if !(strings.HasSuffix(prev, "-") && strings.HasPrefix(out, "-")) && !(strings.HasSuffix(prev, "+") && strings.HasPrefix(out, "+")) {
				sep = ""
			}
		}
		sb.WriteString(sep + out)
		prev = out
	}
	return sb.String()
}

func c04Job(k c04Case, style string, which []string) string {
	var sb strings.Builder
	for ti, tup := range c04Tuples {
		if style == "vars" {
			fmt.Fprintf(&sb, "$a = %s; $b = %s; $c = %s; $d = %s;\n", tup[0], tup[1], tup[2], tup[3])
		}
		for _, w := range which {
			toks := map[string][]string{"min": k.Min, "full": k.Full, "other": k.Other, "dev": k.Devfull}[w]
			if len(toks) == 0 {
				continue
			}
			fmt.Fprintf(&sb, "try { $r = %s; echo \"%d|%s|\", gettype($r), \":\", json_encode($r), \"\\n\"; } catch (\\Throwable $t) { echo \"%d|%s|throw\\n\"; }\n",
				c04Render(toks, style, tup), ti, w, ti, w)
		}
	}
	return sb.String()
}

// C04: minimal and full printings of every tree must evaluate to the same value.
func C04(c *Ctx) *kf.Report {
	rep := &kf.Report{Property: "C04", Level: "model_checking", Coverage: map[string]any{}}
	rep.Assumptions = []string{
		"operator table of Expr.tla: 24 binary operators on 13 levels, prefix ! - ~ and the casts (int) (string), and the ternary ?: below all of them (nested ternaries always parenthesised); assignment is not in the tree model",
		"both printings are evaluated by the real interpreter; the values of the two fully parenthesised groupings (also evaluated by the interpreter) decide whether an operand tuple discriminates a pair",
		"three renderings: variables, spaced literals, literals glued to the preceding operator (signed-number tokens)",
	}
	fams := []string{"pairs", "unary", "ternary", "triples"}
	var cases []c04Case
	for _, f := range fams {
		res := runTLC(rep, tlc.Run{SpecDir: c.SpecDir(), Module: "Expr", Cfg: "Expr.cfg", Consts: map[string]string{"FAMILY": f}, Timeout: 10 * time.Minute})
		if res == nil {
			return rep
		}
		addTLC(rep, res)
		if res.Violated != "" {
			rep.Infraf("spec Expr(%s): %s violated\n%s", f, res.Violated, res.Tail(20))
			return rep
		}
		all := res.Tagged["CASE"]
		step := 1
		if f == "triples" {
			step = c.Pick(23, 3) // quick: a sample of ~3000 triples; thorough: a third
		}
		for i := int(c.Seed) % step; i < len(all); i += step {
			var k c04Case
			must(json.Unmarshal(all[i], &k))
			cases = append(cases, k)
		}
	}
	styles := []string{"vars", "lits", "tightlits"}
	type jref struct {
		ci    int
		style string
	}
	var jobs []Job
	var refs []jref
	for ci, k := range cases {
		for _, st := range styles {
			jobs = append(jobs, Job{Src: c04Job(k, st, []string{"min", "full", "other", "dev"})})
			refs = append(refs, jref{ci, st})
		}
	}
	rs, err := RunJobs(c.Self, jobs, 0, 10*time.Second)
	if err != nil {
		rep.Infraf("pool: %v", err)
		return rep
	}
	evals, discriminated, pairs := 0, map[string]bool{}, map[string]bool{}
	unsupported := 0
	var retry []Job
	var retryRef []jref
	for ji, r := range rs {
		k := cases[refs[ji].ci]
		id := fmt.Sprintf("C04/fam=%s/style=%s/expr=%s", k.Family, refs[ji].style, strings.ReplaceAll(strings.Join(k.Min, ""), "/", "div"))
		if r.Hang || r.Died || r.Panic != "" {
			rep.Add(kf.Mismatch{ID: id + "/kind=crash", Expected: "parse and evaluate", Observed: map[string]any{"hang": r.Hang, "panic": r.Panic, "stderr": tailStr(r.Stderr, 300)}, ObsKey: "crash", Input: jobs[ji].Src})
			continue
		}
		if r.ParseErr != "" {
			// which printing does not parse?
			retry = append(retry, Job{Src: c04Job(k, refs[ji].style, []string{"min"})}, Job{Src: c04Job(k, refs[ji].style, []string{"full"})})
			retryRef = append(retryRef, refs[ji], refs[ji])
			continue
		}
		got := map[string]string{}
		for _, l := range strings.Split(r.Out, "\n") {
			f := strings.SplitN(l, "|", 3)
			if len(f) == 3 {
				got[f[0]+"|"+f[1]] = f[2]
			}
		}
		if k.Family == "pairs" {
			pairs[strings.Join(k.Min, "")] = true
		}
		for ti := range c04Tuples {
			m, f, o := got[fmt.Sprintf("%d|min", ti)], got[fmt.Sprintf("%d|full", ti)], got[fmt.Sprintf("%d|other", ti)]
			if m == "" || f == "" {
				continue
			}
			evals++
			if o != "" && o != f && o != "throw" && f != "throw" {
				discriminated[strings.Join(k.Min, "")] = true
			}
			if m != f {
				// does the deviation layer explain it for every tuple?
				explained := strings.Contains(strings.Join(k.Min, " "), " . ") || k.Min[0] == "."
				for tj := range c04Tuples {
					mm, dd := got[fmt.Sprintf("%d|min", tj)], got[fmt.Sprintf("%d|dev", tj)]
					if mm != dd {
						explained = false
					}
				}
				if explained {
					id = fmt.Sprintf("C04/deviation=dot-binds-tightest/fam=%s", k.Family)
				}
				rep.Add(kf.Mismatch{ID: id, Expected: map[string]string{"full": c04Render(k.Full, refs[ji].style, c04Tuples[ti]), "value": f},
					Observed: map[string]string{"min": c04Render(k.Min, refs[ji].style, c04Tuples[ti]), "value": m}, ObsKey: "min!=full", Input: jobs[ji].Src})
				break
			}
		}
	}
	if len(retry) > 0 {
		rr, err := RunJobs(c.Self, retry, 0, 10*time.Second)
		if err != nil {
			rep.Infraf("pool: %v", err)
			return rep
		}
		for i := 0; i < len(rr); i += 2 {
			k := cases[retryRef[i].ci]
			id := fmt.Sprintf("C04/fam=%s/style=%s/expr=%s", k.Family, retryRef[i].style, strings.ReplaceAll(strings.Join(k.Min, ""), "/", "div"))
			minErr, fullErr := rr[i].ParseErr, rr[i+1].ParseErr
			switch {
			case minErr != "" && fullErr != "":
				unsupported++ // neither printing is accepted: not a precedence question
			case minErr != "" && fullErr == "":
				rep.Add(kf.Mismatch{ID: id, Expected: "the minimal printing parses like the fully parenthesised one", Observed: minErr, ObsKey: "min-does-not-parse", Input: retry[i].Src})
			case minErr == "" && fullErr != "":
				rep.Add(kf.Mismatch{ID: id, Expected: "redundant parentheses are accepted", Observed: fullErr, ObsKey: "full-does-not-parse", Input: retry[i+1].Src})
			}
		}
	}
	rep.Coverage["traces_validated_against_impl"] = len(cases)
	rep.Coverage["evaluations"] = evals
	rep.Coverage["operator_pairs"] = len(pairs)
	rep.Coverage["operator_pairs_discriminated"] = len(discriminated)
	rep.Coverage["distinct_nontrivial"] = len(discriminated)
	rep.Coverage["unsupported_in_both_printings"] = unsupported
	rep.Coverage["exhaustive"] = true
	rep.Coverage["rule"] = "every tree of the pairs, unary and ternary families (all 24x24 operator pairs in both groupings; prefix operators in every position; a ternary above, below and beside every binary operator) and a sample (thorough: a third) of the 69120 triples; each is rendered in 3 styles x 6 operand tuples and MinPrint / FullPrint are evaluated on the real interpreter; non-trivial = operator pairs for which some tuple gives the two groupings different values"
	if len(cases) > 0 {
		rep.Coverage["samples"] = []any{jobs[0].Src}
	}
	return rep
}
