package props

import (
	"bytes"
	"encoding/json"
	"fmt"
	"math/rand"
	"os"
	"os/exec"
	gort "runtime"
	"strconv"
	"strings"
	"sync"
	"sync/atomic"
	"time"

	"github.com/php-any/origami/data"
	"github.com/php-any/origami/node"
	"github.com/php-any/origami/runtime"

	"verif/kf"
	"verif/rt"
	"verif/tlc"
)

func init() {
	Registry["C10"] = C10
	Workers["c10race"] = c10RaceWorker
}

// ---- stub definitions registered through the real Add* calls
type stubClass struct {
	data.ClassStmt
	name string
	from data.From
}

func (s *stubClass) GetName() string    { return s.name }
func (s *stubClass) GetFrom() data.From { return s.from }

type stubIface struct {
	data.InterfaceStmt
	name string
	from data.From
}

func (s *stubIface) GetName() string    { return s.name }
func (s *stubIface) GetFrom() data.From { return s.from }

type stubFunc struct {
	data.FuncStmt
	name string
}

func (s *stubFunc) GetName() string { return s.name }

func fromFile(f string) data.From {
	ff := "/verif-virtual/c10/" + f + ".php"
	return node.NewTokenFrom(&ff, 0, 0, 0, 0)
}

func fileOf(fr data.From) string {
	if fr == nil {
		return "?"
	}
	s := fr.GetSource()
	s = strings.TrimPrefix(s, "/verif-virtual/c10/")
	return strings.TrimSuffix(s, ".php")
}

type c10Op struct {
	op, name, arg string
}

// c10Do performs one registry call on the real VM and renders its result.
func c10Do(vm *runtime.VM, o c10Op, idents *sync.Map) string {
	switch o.op {
	case "addClass":
		if vm.AddClass(&stubClass{name: o.name, from: fromFile(o.arg)}) != nil {
			return "dup"
		}
		return "ok"
	case "addIface":
		if vm.AddInterface(&stubIface{name: o.name, from: fromFile(o.arg)}) != nil {
			return "dup"
		}
		return "ok"
	case "getClass":
		name := o.name
		if o.arg == "ci" { // case-insensitive fallback of class lookup
			name = strings.ToLower(name)
		}
		if c, ok := vm.GetClass(name); ok {
			return fileOf(c.GetFrom())
		}
		return "none"
	case "loadPkg":
		return "" // not recorded
	case "getIface":
		if c, ok := vm.GetInterface(o.name); ok {
			return fileOf(c.GetFrom())
		}
		return "none"
	case "addFunc":
		if vm.AddFunc(&stubFunc{name: o.name}) != nil {
			return "dup"
		}
		return "ok"
	case "getFunc":
		name := o.name
		if o.arg == "fq" { // fully qualified spelling \name: GetFunc strips the backslash and looks again
			name = "\\" + name
		}
		if _, ok := vm.GetFunc(name); ok {
			return "found"
		}
		return "none"
	case "setConst":
		if vm.SetConstant(o.name, data.NewStringValue(o.arg)) != nil {
			return "dup"
		}
		return "ok"
	case "getConst":
		if v, ok := vm.GetConstant(o.name); ok {
			return v.AsString()
		}
		return "none"
	case "ensureGlobal":
		zv := vm.EnsureGlobalZVal(o.name)
		key := fmt.Sprintf("%p", zv)
		if idents == nil {
			return key
		}
		id, _ := idents.LoadOrStore(key, fmt.Sprintf("z%s", key))
		return id.(string)
	}
	panic("op " + o.op)
}

var c10Mixes = map[string][]string{
	"class": {"addClass", "addIface", "getClass", "getIface"},
	"func":  {"addFunc", "getFunc"},
	"const": {"setConst", "getConst", "ensureGlobal"},
	"all":   {"addClass", "addIface", "getClass", "getIface", "addFunc", "getFunc", "setConst", "getConst", "ensureGlobal"},
}

func c10Group(op string) string {
	switch op {
	case "addClass", "addIface", "getClass", "getIface":
		return "ci"
	case "addFunc", "getFunc":
		return "fn"
	case "setConst", "getConst":
		return "const"
	}
	return "glob"
}

// c10Tick makes goroutines converge on the same fresh names at about the same time: the name index
// advances once every few calls of the whole process, so registrations of a not-yet-registered
// name overlap (the window in which "both registrants are told ok" can happen).
var c10Tick atomic.Int64
var c10Window int64 = 24

func c10RandOp(rng *rand.Rand, mix []string, names int, fresh *int) c10Op {
	op := mix[rng.Intn(len(mix))]
	name := fmt.Sprintf("N%d", rng.Intn(names))
	if fresh == nil && rng.Intn(3) > 0 {
		name = fmt.Sprintf("T%d", c10Tick.Add(1)/c10Window)
	}
	if fresh != nil && strings.HasPrefix(op, "add") && rng.Intn(2) == 0 {
		// fresh names keep the writers writing (a duplicate name stops writing after the first round)
		*fresh++
		name = fmt.Sprintf("F%d", *fresh)
	}
	arg := ""
	switch op {
	case "addClass", "addIface":
		arg = fmt.Sprintf("f%d", 1+rng.Intn(2))
	case "setConst":
		arg = fmt.Sprintf("v%d", 1+rng.Intn(3))
	case "getClass":
		if rng.Intn(3) == 0 {
			arg = "ci"
		}
	case "getFunc":
		if rng.Intn(3) == 0 {
			arg = "fq"
		}
	}
	return c10Op{op, name, arg}
}

// c10RaceWorker: pass 1, no recorder, run under the race detector.
func c10RaceWorker() {
	mix := c10Mixes[os.Getenv("VERIF_MIX")]
	g, _ := strconv.Atoi(os.Getenv("VERIF_G"))
	nops, _ := strconv.Atoi(os.Getenv("VERIF_OPS"))
	seed, _ := strconv.ParseInt(os.Getenv("VERIF_SEED"), 10, 64)
	procs, _ := strconv.Atoi(os.Getenv("VERIF_PROCS"))
	if procs > 0 {
		gort.GOMAXPROCS(procs)
	}
	vm, _ := rt.NewVM()
	var wg sync.WaitGroup
	for i := 0; i < g; i++ {
		wg.Add(1)
		go func(i int) {
			defer wg.Done()
			rng := rand.New(rand.NewSource(seed*1000 + int64(i)))
			fresh := i * 1000000
			for k := 0; k < nops; k++ {
				o := c10RandOp(rng, mix, 12, &fresh)
				if rng.Intn(2) == 0 {
					// every goroutine walks the same sequence of names at its own pace (no shared counter:
					// an atomic would order the goroutines and hide races): definitions, duplicates and
					// (case-folded) lookups of a name that has just appeared overlap
					o.name = fmt.Sprintf("T%d", k/4)
				}
				c10Do(vm, o, nil)
				if k%16 == 15 { // enumerations of a table overlap registrations into it
					switch c10Group(o.op) {
					case "ci":
						_ = len(vm.AllClasses()) + len(vm.AllInterfaces())
					case "fn":
						_ = len(vm.AllFuncs())
					}
				}
			}
		}(i)
	}
	wg.Wait()
	fmt.Println("c10race done")
}

type c10Rec struct {
	mu  sync.Mutex
	ops []c10Op
	res []string
	ev  []histEv
}

func (r *c10Rec) call(o c10Op) int {
	r.mu.Lock()
	defer r.mu.Unlock()
	r.ops = append(r.ops, o)
	r.res = append(r.res, "pending")
	r.ev = append(r.ev, histEv{"c", len(r.ops)})
	return len(r.ops)
}
func (r *c10Rec) ret(id int, res string) {
	r.mu.Lock()
	defer r.mu.Unlock()
	r.res[id-1] = res
	r.ev = append(r.ev, histEv{"r", id})
}

// split per object (group, name) and renumber ids
func (r *c10Rec) split() map[string]*history {
	out := map[string]*history{}
	idmap := map[int]int{}
	for i, o := range r.ops {
		k := c10Group(o.op) + ":" + o.name
		h := out[k]
		if h == nil {
			h = &history{}
			out[k] = h
		}
		arg := o.arg
		if o.op == "getClass" || o.op == "getFunc" {
			arg = "" // exact, case-folded and fully qualified lookups are the same reference operation
		}
		h.Ops = append(h.Ops, histOp{o.op, arg, r.res[i]})
		idmap[i+1] = len(h.Ops)
	}
	for _, e := range r.ev {
		o := r.ops[e.ID-1]
		k := c10Group(o.op) + ":" + o.name
		out[k].Ev = append(out[k].Ev, histEv{e.T, idmap[e.ID]})
	}
	return out
}

// C10: lock-discipline spec model-checked; -race stress per lock class; recorded histories
// validated against the atomic Registry reference by TLC.
func C10(c *Ctx) *kf.Report {
	rep := &kf.Report{Property: "C10", Level: "model_checking", Coverage: map[string]any{}}
	rep.Assumptions = []string{
		"the Go race detector and the runtime's concurrent-map check are the observation instruments for 'no data race / no crash'",
		"pass 1 runs without the recorder (its mutex would create happens-before edges); pass 2 records call/return order under one mutex; the duel phase releases 4 registrants of one fresh name through a spin barrier and records the calls as mutually overlapping (the weakest real-time claim)",
		"linearizability is checked per name (compositional); class and interface tables form one object per name",
	}
	// 1. mechanism: pinned lock modes are refuted, repaired ones hold
	pin := runTLC(rep, tlc.Run{SpecDir: c.SpecDir(), Module: "RegistryLocks", Cfg: "RegistryLocks.cfg", Consts: map[string]string{"MODES": "pinned"}})
	if pin != nil {
		rep.Coverage["pinned_lockmodes_counterexample"] = pin.Violated
		if pin.Violated == "" {
			rep.Infraf("RegistryLocks: pinned lock modes should violate an invariant")
		}
	}
	fixd := runTLC(rep, tlc.Run{SpecDir: c.SpecDir(), Module: "RegistryLocks", Cfg: "RegistryLocks.cfg", Consts: map[string]string{"MODES": "repaired"}})
	if fixd == nil {
		return rep
	}
	addTLC(rep, fixd)
	if fixd.Violated != "" {
		rep.Infraf("RegistryLocks (repaired) violates %s", fixd.Violated)
	}
	// 2. pass 1: race detector, one subprocess per configuration
	bin := strings.TrimSuffix(c.Self, "vcheck") + "vcheck-race"
	type rcfg struct {
		mix           string
		g, ops, procs int
	}
	var rcfgs []rcfg
	rng := c.Rng()
	for _, m := range []string{"class", "func", "const", "all"} {
		rcfgs = append(rcfgs, rcfg{m, 4 + rng.Intn(5), 2000, 0})
	}
	if c.Thorough() {
		for i := 0; i < 26; i++ {
			ms := []string{"class", "func", "const", "all"}
			rcfgs = append(rcfgs, rcfg{ms[i%4], 2 + rng.Intn(15), []int{100, 1000, 10000}[rng.Intn(3)], 1 + rng.Intn(16)})
		}
	}
	raceRuns := 0
	for i, rc := range rcfgs {
		cmd := exec.Command(bin, "-worker", "c10race")
		cmd.Env = append(os.Environ(), "VERIF_MIX="+rc.mix, fmt.Sprintf("VERIF_G=%d", rc.g), fmt.Sprintf("VERIF_OPS=%d", rc.ops),
			fmt.Sprintf("VERIF_SEED=%d", c.Seed*100+int64(i)), fmt.Sprintf("VERIF_PROCS=%d", rc.procs), "GORACE=halt_on_error=1 exitcode=66")
		var out, errb bytes.Buffer
		cmd.Stdout, cmd.Stderr = &out, &errb
		t := time.AfterFunc(5*time.Minute, func() { cmd.Process.Kill() })
		err := cmd.Run()
		t.Stop()
		raceRuns++
		if err != nil {
			tail := errb.String()
			if len(tail) > 2500 {
				tail = tail[:2500]
			}
			kind := ""
			switch {
			case strings.Contains(tail, "DATA RACE"):
				kind = "data-race"
			case strings.Contains(tail, "fatal error"), strings.Contains(tail, "panic"):
				kind = "crash"
			}
			if kind == "" {
				rep.Infraf("c10race %v: %v\n%s", rc, err, tail)
				continue
			}
			rep.Add(kf.Mismatch{ID: fmt.Sprintf("C10/pass=race/mix=%s/kind=%s", rc.mix, kind), Expected: "no data race, no crash",
				Observed: tail, ObsKey: kind, Input: map[string]any{"mix": rc.mix, "goroutines": rc.g, "ops": rc.ops, "gomaxprocs": rc.procs}})
		}
	}
	// 3. pass 2: recorded histories vs Registry (atomic reference)
	var hists []*history
	var ids []string
	totalOps := 0
	for i, rc := range rcfgs {
		if rc.ops > 3000 {
			rc.ops = 3000
		}
		perG := rc.ops / rc.g
		if perG < 5 {
			perG = 5
		}
		vm, _ := rt.NewVM()
		rec := &c10Rec{}
		var idents sync.Map
		var wg sync.WaitGroup
		for gi := 0; gi < rc.g; gi++ {
			wg.Add(1)
			go func(gi int) {
				defer wg.Done()
				r := rand.New(rand.NewSource(c.Seed*7777 + int64(i*100+gi)))
				for k := 0; k < perG; k++ {
					o := c10RandOp(r, c10Mixes[rc.mix], 12, nil)
					id := rec.call(o)
					res := c10Do(vm, o, &idents)
					rec.ret(id, res)
				}
			}(gi)
		}
		wg.Wait()
		totalOps += len(rec.ops)
		for k, h := range rec.split() {
			hists = append(hists, h)
			ids = append(ids, fmt.Sprintf("C10/pass=history/mix=%s/obj=%s/run=%d", rc.mix, strings.Split(k, ":")[0], i))
		}
	}
	// 3b. duels: k goroutines are released together by a barrier and register the SAME not-yet-registered name
	// (function, class, constant, global variable slot). The calls are recorded as mutually overlapping (calls first, returns after: the
	// weakest real-time claim, so never a false alarm); "a duplicate is rejected for all but one registrant".
	duels := c.Pick(30000, 300000)
	{
		vm, _ := rt.NewVM()
		var idents sync.Map
		kinds := []string{"addFunc", "addClass", "ensureGlobal", "addFunc", "setConst", "ensureGlobal"}
		const k = 4
		var round, done atomic.Int64
		res := make([]string, k)
		var wg sync.WaitGroup
		for gi := 0; gi < k; gi++ {
			wg.Add(1)
			go func(gi int) {
				defer wg.Done()
				for d := int64(1); d <= int64(duels); d++ {
					for round.Load() < d { // spin: all registrants start within nanoseconds of each other
					}
					op := kinds[int(d)%len(kinds)]
					o := c10Op{op, fmt.Sprintf("D%d", d), fmt.Sprintf("f%d", gi+1)}
					if op == "setConst" {
						o.arg = fmt.Sprintf("v%d", gi+1)
					}
					res[gi] = c10Do(vm, o, &idents)
					done.Add(1)
				}
			}(gi)
		}
		for d := int64(1); d <= int64(duels); d++ {
			round.Store(d)
			for done.Load() < d*k {
				gort.Gosched()
			}
			op := kinds[int(d)%len(kinds)]
			oks := 0
			for _, r := range res {
				if r == "ok" {
					oks++
				}
			}
			expected := oks == 1
			if op == "ensureGlobal" { // every registrant of a fresh global name must get the same slot
				expected = res[0] == res[1] && res[1] == res[2] && res[2] == res[3]
			}
			if expected && d%200 != 0 {
				continue // the expected outcome; a sample is still sent through TLC
			}
			h := &history{}
			for gi := 0; gi < k; gi++ {
				arg := fmt.Sprintf("f%d", gi+1)
				if op == "setConst" {
					arg = fmt.Sprintf("v%d", gi+1)
				}
				h.Ops = append(h.Ops, histOp{op, arg, res[gi]})
				h.Ev = append(h.Ev, histEv{"c", gi + 1})
			}
			for gi := 0; gi < k; gi++ {
				h.Ev = append(h.Ev, histEv{"r", gi + 1})
			}
			hists = append(hists, h)
			ids = append(ids, fmt.Sprintf("C10/pass=duel/op=%s/run=%d", op, d))
		}
		wg.Wait()
		totalOps += duels * k
	}
	var buf bytes.Buffer
	for _, h := range hists {
		b, _ := json.Marshal(h)
		buf.Write(b)
		buf.WriteByte('\n')
	}
	lin := runTLC(rep, tlc.Run{SpecDir: c.SpecDir(), Module: "RegistryLin", Cfg: "RegistryLin.cfg", DFS: true,
		Files: map[string][]byte{"hist.ndjson": buf.Bytes()}, Timeout: 20 * time.Minute})
	contended := 0
	if lin != nil {
		addTLC(rep, lin)
		acc := map[int]bool{}
		for _, raw := range lin.Tagged["ACCEPT"] {
			var a struct{ H int }
			json.Unmarshal(raw, &a)
			acc[a.H] = true
		}
		for i, h := range hists {
			// non-trivial: two registrations of the same name overlap in real time
			open, overl := 0, false
			for _, e := range h.Ev {
				isAdd := strings.HasPrefix(h.Ops[e.ID-1].Op, "add") || h.Ops[e.ID-1].Op == "setConst"
				if !isAdd {
					continue
				}
				if e.T == "c" {
					open++
					if open > 1 {
						overl = true
					}
				} else {
					open--
				}
			}
			if overl {
				contended++
			}
			if !acc[i+1] {
				rep.Add(kf.Mismatch{ID: strings.Split(ids[i], "/run=")[0], Expected: "history of this name is linearizable w.r.t. Registry (atomic reference)", Observed: h,
					ObsKey: "not-linearizable", Input: ids[i]})
			}
		}
	}
	rep.Coverage["duels"] = duels
	rep.Coverage["race_runs"] = raceRuns
	rep.Coverage["recorded_calls"] = totalOps
	rep.Coverage["traces_validated_against_impl"] = len(hists)
	rep.Coverage["evaluations"] = raceRuns + len(hists)
	rep.Coverage["distinct_nontrivial"] = contended
	rep.Coverage["rule"] = "per lock class (class/iface, func, const/global, all): one -race subprocess per configuration with fresh names; then recorded call/return histories split per name and validated against RegistryLin.tla; non-trivial = per-name histories in which two registrations overlap in real time"
	smp := []any{}
	for i := 0; i < len(hists) && len(smp) < 2; i++ {
		if len(hists[i].Ops) >= 4 && len(hists[i].Ops) <= 12 {
			smp = append(smp, map[string]any{"id": ids[i], "history": hists[i]})
		}
	}
	if len(smp) == 0 {
		smp = append(smp, "none")
	}
	rep.Coverage["samples"] = smp
	return rep
}
