package props

import (
	"encoding/json"
	"fmt"
	"math"
	"reflect"
	"strings"
	"time"

	"github.com/php-any/origami/data"
	"github.com/php-any/origami/runtime"
	"github.com/php-any/origami/utils"

	"verif/kf"
	"verif/rt"
	"verif/tlc"
)

func init() { Registry["C17"] = C17 }

type c17Sc struct {
	Path   string
	Sig    []string
	Vary   int
	Val    string
	Valfam string
	Ret    string
}

type c17Case struct {
	Family  string
	Sc      c17Sc
	Outcome struct{ Kind, Ret string }
}

var c17Int = map[string]int64{"i64.min": math.MinInt64, "i32.min-1": math.MinInt32 - 1, "i32.min": math.MinInt32, "i16.min-1": math.MinInt16 - 1, "i16.min": math.MinInt16,
	"i8.min-1": math.MinInt8 - 1, "i8.min": math.MinInt8, "-1": -1, "0": 0, "1": 1, "i8.max": math.MaxInt8, "i8.max+1": math.MaxInt8 + 1, "u8.max": math.MaxUint8, "u8.max+1": math.MaxUint8 + 1,
	"i16.max": math.MaxInt16, "i16.max+1": math.MaxInt16 + 1, "u16.max": math.MaxUint16, "u16.max+1": math.MaxUint16 + 1, "i32.max": math.MaxInt32, "i32.max+1": math.MaxInt32 + 1,
	"u32.max": math.MaxUint32, "u32.max+1": math.MaxUint32 + 1, "2^53+1": 1<<53 + 1, "i64.max": math.MaxInt64}
var c17Float = map[string]float64{"0.0": 0, "-0.0": math.Copysign(0, -1), "1.5": 1.5, "-2.5": -2.5, "f32.max": math.MaxFloat32, "f32.minsub": math.SmallestNonzeroFloat32, "0.1": 0.1,
	"f32.max*2": math.MaxFloat32 * 2, "f64.minsub": math.SmallestNonzeroFloat64, "1e300": 1e300, "-1e300": -1e300}
var c17Str = map[string]string{"empty": "", "ascii": "hello", "padded": " a b\t\n", "multibyte": "h\u00e9llo\u2713", "nonutf8": "\xff\xfeA", "nul": "a\x00b", "64KiB": strings.Repeat("x", 65536)}

var c17Types = map[string]reflect.Type{"int": reflect.TypeOf(int(0)), "int8": reflect.TypeOf(int8(0)), "int16": reflect.TypeOf(int16(0)), "int32": reflect.TypeOf(int32(0)), "int64": reflect.TypeOf(int64(0)),
	"uint": reflect.TypeOf(uint(0)), "uint8": reflect.TypeOf(uint8(0)), "uint16": reflect.TypeOf(uint16(0)), "uint32": reflect.TypeOf(uint32(0)), "uint64": reflect.TypeOf(uint64(0)),
	"float32": reflect.TypeOf(float32(0)), "float64": reflect.TypeOf(float64(0)), "string": reflect.TypeOf(""), "bool": reflect.TypeOf(false)}

// named types over every kind (path "func-named")
type (
	NInt     int
	NInt8    int8
	NInt16   int16
	NInt32   int32
	NInt64   int64
	NUint    uint
	NUint8   uint8
	NUint16  uint16
	NUint32  uint32
	NUint64  uint64
	NFloat32 float32
	NFloat64 float64
	NString  string
	NBool    bool
)

var c17Named = map[string]reflect.Type{"int": reflect.TypeOf(NInt(0)), "int8": reflect.TypeOf(NInt8(0)), "int16": reflect.TypeOf(NInt16(0)), "int32": reflect.TypeOf(NInt32(0)), "int64": reflect.TypeOf(NInt64(0)),
	"uint": reflect.TypeOf(NUint(0)), "uint8": reflect.TypeOf(NUint8(0)), "uint16": reflect.TypeOf(NUint16(0)), "uint32": reflect.TypeOf(NUint32(0)), "uint64": reflect.TypeOf(NUint64(0)),
	"float32": reflect.TypeOf(NFloat32(0)), "float64": reflect.TypeOf(NFloat64(0)), "string": reflect.TypeOf(NString("")), "bool": reflect.TypeOf(NBool(false))}

// c17Script is the script value of a symbolic value.
func c17Script(fam, sym string) data.Value {
	switch fam {
	case "int":
		return data.NewIntValue(int(c17Int[sym]))
	case "float":
		return data.NewFloatValue(c17Float[sym])
	case "string":
		return data.NewStringValue(c17Str[sym])
	}
	return data.NewBoolValue(sym == "true")
}

// c17Go is the Go value of kind k that Go must receive / return for the symbolic value.
func c17Go(k, fam, sym string) reflect.Value {
	t := c17Types[k]
	switch fam {
	case "int":
		return reflect.ValueOf(c17Int[sym]).Convert(t)
	case "float":
		return reflect.ValueOf(c17Float[sym]).Convert(t)
	case "string":
		return reflect.ValueOf(c17Str[sym])
	}
	return reflect.ValueOf(sym == "true")
}

func c17Benign(k string) (string, string) {
	switch {
	case strings.Contains(k, "int"):
		return "int", "1"
	case strings.HasPrefix(k, "float"):
		return "float", "1.5"
	case k == "string":
		return "string", "ascii"
	}
	return "bool", "true"
}

func c17Same(a, b reflect.Value) bool {
	// a value received in a named type (path func-named) is compared in the underlying kind's plain type
	if a.Kind() == b.Kind() && a.Type() != b.Type() && a.Type().ConvertibleTo(b.Type()) {
		a = a.Convert(b.Type())
	}
	if a.Type() != b.Type() {
		return false
	}
	switch a.Kind() {
	case reflect.Float32, reflect.Float64:
		return math.Float64bits(a.Float()) == math.Float64bits(b.Float())
	}
	return a.Interface() == b.Interface()
}

// c17ScriptEq: is the script value v exactly the value Go returned (kind and value)?
func c17ScriptEq(v data.GetValue, want reflect.Value) (bool, string) {
	switch want.Kind() {
	case reflect.Int, reflect.Int8, reflect.Int16, reflect.Int32, reflect.Int64:
		iv, ok := v.(*data.IntValue)
		return ok && int64(iv.Value) == want.Int(), fmt.Sprintf("%T %v", v, v)
	case reflect.Uint, reflect.Uint8, reflect.Uint16, reflect.Uint32, reflect.Uint64:
		iv, ok := v.(*data.IntValue)
		return ok && iv.Value >= 0 && uint64(iv.Value) == want.Uint(), fmt.Sprintf("%T %v", v, v)
	case reflect.Float32, reflect.Float64:
		fv, ok := v.(*data.FloatValue)
		return ok && math.Float64bits(fv.Value) == math.Float64bits(want.Float()), fmt.Sprintf("%T %v", v, v)
	case reflect.String:
		sv, ok := v.(*data.StringValue)
		return ok && sv.Value == want.String(), fmt.Sprintf("%T len=%d", v, len(fmt.Sprint(v)))
	case reflect.Bool:
		bv, ok := v.(*data.BoolValue)
		return ok && bv.Value == want.Bool(), fmt.Sprintf("%T %v", v, v)
	}
	return false, "?"
}

// C17Probe is the struct registered through RegisterReflectClass; captured arguments go to a package variable
// because the reflected class creates its own instance.
type C17Probe struct{}

var c17Captured []reflect.Value
var c17Return reflect.Value

func capt(v any) { c17Captured = append(c17Captured, reflect.ValueOf(v)) }

func (C17Probe) EInt(x int) int             { capt(x); return x }
func (C17Probe) EInt8(x int8) int8          { capt(x); return x }
func (C17Probe) EInt16(x int16) int16       { capt(x); return x }
func (C17Probe) EInt32(x int32) int32       { capt(x); return x }
func (C17Probe) EInt64(x int64) int64       { capt(x); return x }
func (C17Probe) EUint(x uint) uint          { capt(x); return x }
func (C17Probe) EUint8(x uint8) uint8       { capt(x); return x }
func (C17Probe) EUint16(x uint16) uint16    { capt(x); return x }
func (C17Probe) EUint32(x uint32) uint32    { capt(x); return x }
func (C17Probe) EUint64(x uint64) uint64    { capt(x); return x }
func (C17Probe) EFloat32(x float32) float32 { capt(x); return x }
func (C17Probe) EFloat64(x float64) float64 { capt(x); return x }
func (C17Probe) EString(x string) string    { capt(x); return x }
func (C17Probe) EBool(x bool) bool          { capt(x); return x }
func (C17Probe) RInt() int                  { return c17Return.Interface().(int) }
func (C17Probe) RInt8() int8                { return c17Return.Interface().(int8) }
func (C17Probe) RInt16() int16              { return c17Return.Interface().(int16) }
func (C17Probe) RInt32() int32              { return c17Return.Interface().(int32) }
func (C17Probe) RInt64() int64              { return c17Return.Interface().(int64) }
func (C17Probe) RUint() uint                { return c17Return.Interface().(uint) }
func (C17Probe) RUint8() uint8              { return c17Return.Interface().(uint8) }
func (C17Probe) RUint16() uint16            { return c17Return.Interface().(uint16) }
func (C17Probe) RUint32() uint32            { return c17Return.Interface().(uint32) }
func (C17Probe) RUint64() uint64            { return c17Return.Interface().(uint64) }
func (C17Probe) RFloat32() float32          { return c17Return.Interface().(float32) }
func (C17Probe) RFloat64() float64          { return c17Return.Interface().(float64) }
func (C17Probe) RString() string            { return c17Return.Interface().(string) }
func (C17Probe) RBool() bool                { return c17Return.Interface().(bool) }

func c17Generic(k string, v data.Value) (any, error) {
	switch k {
	case "int":
		return utils.Convert[int](v)
	case "int8":
		return utils.Convert[int8](v)
	case "int16":
		return utils.Convert[int16](v)
	case "int32":
		return utils.Convert[int32](v)
	case "int64":
		return utils.Convert[int64](v)
	case "uint":
		return utils.Convert[uint](v)
	case "uint8":
		return utils.Convert[uint8](v)
	case "uint16":
		return utils.Convert[uint16](v)
	case "uint32":
		return utils.Convert[uint32](v)
	case "uint64":
		return utils.Convert[uint64](v)
	case "float32":
		return utils.Convert[float32](v)
	case "float64":
		return utils.Convert[float64](v)
	case "string":
		return utils.Convert[string](v)
	}
	return utils.Convert[bool](v)
}

type c17Obs struct {
	kind   string // delivered | error | crash | uncatchable
	detail string
	recv   []reflect.Value
	ret    data.GetValue
}

func title(k string) string { return strings.ToUpper(k[:1]) + k[1:] }

// c17Run performs one scenario against the real boundary code.
func c17Run(vm *runtime.VM, k c17Case) (o c17Obs) {
	sc := k.Sc
	defer func() {
		if r := recover(); r != nil {
			o = c17Obs{kind: "crash", detail: fmt.Sprint(r)}
		}
	}()
	c17Captured = nil
	args := make([]data.Value, len(sc.Sig))
	for i, kk := range sc.Sig {
		if i+1 == sc.Vary {
			args[i] = c17Script(sc.Valfam, sc.Val)
		} else {
			f, s := c17Benign(kk)
			args[i] = c17Script(f, s)
		}
	}
	call := func(fn interface {
		GetVariables() []data.Variable
		Call(data.Context) (data.GetValue, data.Control)
	}) c17Obs {
		vars := fn.GetVariables()
		ctx := vm.CreateContext(vars)
		for i, a := range args {
			ctx.SetVariableValue(vars[i], a)
		}
		ret, ctl := fn.Call(ctx)
		if ctl != nil {
			if _, ok := ctl.(*data.ThrowValue); ok {
				return c17Obs{kind: "error", detail: tailStr(ctl.AsString(), 160), recv: c17Captured}
			}
			return c17Obs{kind: "uncatchable", detail: fmt.Sprintf("%T %s", ctl, tailStr(ctl.AsString(), 120))}
		}
		return c17Obs{kind: "delivered", recv: c17Captured, ret: ret}
	}
	switch sc.Path {
	case "func", "func-named":
		types := c17Types
		if sc.Path == "func-named" {
			types = c17Named
		}
		ins := make([]reflect.Type, len(sc.Sig))
		for i, kk := range sc.Sig {
			ins[i] = types[kk]
		}
		outK := sc.Ret
		if sc.Vary > 0 {
			outK = sc.Sig[sc.Vary-1]
		}
		ft := reflect.FuncOf(ins, []reflect.Type{types[outK]}, false)
		fn := reflect.MakeFunc(ft, func(in []reflect.Value) []reflect.Value {
			c17Captured = append([]reflect.Value{}, in...)
			if sc.Vary == 0 {
				return []reflect.Value{c17Go(sc.Ret, sc.Valfam, sc.Val).Convert(types[sc.Ret])}
			}
			return []reflect.Value{in[sc.Vary-1]}
		})
		return call(runtime.NewReflectFunction("probe", fn.Interface()))
	case "method":
		rc := runtime.NewReflectClass("Probe", &C17Probe{})
		obj, ctl := rc.GetValue(vm.CreateContext(nil))
		if ctl != nil {
			return c17Obs{kind: "uncatchable", detail: "instantiate: " + ctl.AsString()}
		}
		var name string
		if sc.Vary == 0 {
			name = "R" + title(sc.Ret)
			c17Return = c17Go(sc.Ret, sc.Valfam, sc.Val)
		} else {
			name = "E" + title(sc.Sig0())
		}
		m, ok := obj.(*data.ClassValue).GetMethod(name)
		if !ok {
			return c17Obs{kind: "uncatchable", detail: "method not found: " + name}
		}
		return call(m)
	case "generic":
		v, err := c17Generic(sc.Sig[0], args[0])
		if err != nil {
			return c17Obs{kind: "error", detail: err.Error()}
		}
		return c17Obs{kind: "delivered", recv: []reflect.Value{reflect.ValueOf(v)}}
	}
	return c17Obs{kind: "uncatchable", detail: "unknown path"}
}

func (s c17Sc) Sig0() string {
	if len(s.Sig) > 0 {
		return s.Sig[0]
	}
	return ""
}

// C17: values cross the Go boundary unchanged.
func C17(c *Ctx) *kf.Report {
	rep := &kf.Report{Property: "C17", Level: "model_checking", Coverage: map[string]any{}}
	rep.Assumptions = []string{
		"the boundary code is driven at the FuncStmt / Method level (a context with the argument values, then Call), i.e. exactly what a script call does after argument evaluation; a sample of the unary family is also called from real scripts with literal arguments inside try/catch",
		"Go functions of every signature are built with reflect.FuncOf / MakeFunc and capture their arguments; struct methods are static methods of a probe type; the generic converter is instantiated for each kind (utils.Convert[T], the function behind ConvertFromIndex)",
		"representable for float32 means within the float32 range (the value Go receives is float32(v), the script gets float64(float32(v)) back); the return direction of the generic path does not exist (wrappers build script values directly) and is skipped",
	}
	fams := []string{"unary", "return", "cross", "arity2"}
	if c.Thorough() {
		fams = append(fams, "arity3")
	}
	vm, _ := rt.NewVM()
	checked, errorsExpected, skipped := 0, 0, 0
	var scriptCases []c17Case
	for _, f := range fams {
		res := runTLC(rep, tlc.Run{SpecDir: c.SpecDir(), Module: "GoBoundary", Cfg: "GoBoundary.cfg", Workers: 8, Timeout: 20 * time.Minute, Consts: map[string]string{"FAMILY": f}})
		if res == nil {
			return rep
		}
		addTLC(rep, res)
		if res.Violated != "" {
			rep.Infraf("spec GoBoundary(%s): %s violated\n%s", f, res.Violated, res.Tail(20))
			return rep
		}
		for _, raw := range res.Tagged["CASE"] {
			var k c17Case
			must(json.Unmarshal(raw, &k))
			if k.Sc.Path == "generic" && k.Family == "return" {
				skipped++
				continue
			}
			o := c17Run(vm, k)
			checked++
			id := fmt.Sprintf("C17/%s/path=%s/sig=%s/vary=%d/val=%s:%s", k.Family, k.Sc.Path, strings.Join(k.Sc.Sig, ","), k.Sc.Vary, k.Sc.Valfam, k.Sc.Val)
			if k.Family == "return" {
				id = fmt.Sprintf("C17/return/path=%s/ret=%s/val=%s", k.Sc.Path, k.Sc.Ret, k.Sc.Val)
			}
			in := map[string]any{"scenario": k.Sc}
			if o.kind == "crash" || o.kind == "uncatchable" {
				rep.Add(kf.Mismatch{ID: id, Expected: k.Outcome.Kind, Observed: o.kind + ": " + o.detail, ObsKey: o.kind, Input: in})
				continue
			}
			switch k.Outcome.Kind {
			case "no-crash":
				// cross-family arguments: anything but a crash is acceptable
			case "error":
				errorsExpected++
				if o.kind != "error" {
					got := "?"
					if len(o.recv) >= k.Sc.Vary && k.Sc.Vary > 0 {
						got = fmt.Sprintf("%v", o.recv[k.Sc.Vary-1].Interface())
					}
					rep.Add(kf.Mismatch{ID: id, Expected: "a catchable error (value not representable)", Observed: "Go received " + got, ObsKey: "delivered-altered", Input: in})
				} else if len(o.recv) > 0 {
					// GoBoundary.Call: an argument that does not fit => the Go function is NOT entered.  An error raised
					// only afterwards (e.g. by the conversion of the echoed result) means Go ran with a value the script
					// never passed.
					got := "?"
					if len(o.recv) >= k.Sc.Vary && k.Sc.Vary > 0 {
						got = fmt.Sprintf("%v", o.recv[k.Sc.Vary-1].Interface())
					}
					rep.Add(kf.Mismatch{ID: id, Expected: "a catchable error before the Go function is entered", Observed: "Go was entered with " + got + ", error raised afterwards: " + tailStr(o.detail, 80), ObsKey: "entered-altered", Input: in})
				}
			case "delivered":
				if o.kind != "delivered" {
					rep.Add(kf.Mismatch{ID: id, Expected: "delivered unchanged", Observed: "error: " + o.detail, ObsKey: "error", Input: in})
					continue
				}
				if k.Sc.Vary > 0 {
					want := c17Go(k.Sc.Sig[k.Sc.Vary-1], k.Sc.Valfam, k.Sc.Val)
					if len(o.recv) < k.Sc.Vary || !c17Same(o.recv[k.Sc.Vary-1], want) {
						rep.Add(kf.Mismatch{ID: id, Expected: fmt.Sprintf("Go receives %v", tailStr(fmt.Sprint(want.Interface()), 40)), Observed: fmt.Sprintf("%v", o.recv), ObsKey: "received-different", Input: in})
						continue
					}
					// the other (benign) arguments must arrive too
					for i, kk := range k.Sc.Sig {
						if i+1 == k.Sc.Vary {
							continue
						}
						f, s := c17Benign(kk)
						if !c17Same(o.recv[i], c17Go(kk, f, s)) {
							rep.Add(kf.Mismatch{ID: id, Expected: "benign argument delivered", Observed: fmt.Sprintf("arg %d = %v", i, o.recv[i].Interface()), ObsKey: "received-different", Input: in})
						}
					}
				}
				if k.Sc.Path != "generic" {
					outK := k.Sc.Ret
					if k.Sc.Vary > 0 {
						outK = k.Sc.Sig[k.Sc.Vary-1]
					}
					want := c17Go(outK, k.Sc.Valfam, k.Sc.Val)
					if ok, got := c17ScriptEq(o.ret, want); !ok {
						rep.Add(kf.Mismatch{ID: id, Expected: fmt.Sprintf("script receives %s %v", outK, tailStr(fmt.Sprint(want.Interface()), 40)), Observed: tailStr(got, 80), ObsKey: "returned-different", Input: in})
					}
				}
			}
			if k.Family == "unary" && k.Sc.Path == "func" {
				scriptCases = append(scriptCases, k)
			}
		}
	}
	// end-to-end: the same unary functions called from a script with literal arguments
	nScript := c17Scripts(rep, scriptCases)
	rep.Coverage["traces_validated_against_impl"] = checked + nScript
	rep.Coverage["scenarios"] = checked
	rep.Coverage["evaluations"] = checked + nScript
	rep.Coverage["samples"] = []any{
		map[string]any{"path": "func", "sig": []string{"string", "int8", "float32"}, "vary": 2, "value": "i8.max+1 (128)", "expected": "catchable error, Go function not entered"},
		map[string]any{"path": "method", "ret": "uint32", "value": "u32.max (4294967295)", "expected": "script receives int 4294967295"},
		map[string]any{"path": "generic", "sig": []string{"uint16"}, "value": "-1", "expected": "error"},
	}
	rep.Coverage["script_level_calls"] = nScript
	rep.Coverage["distinct_nontrivial"] = errorsExpected
	rep.Coverage["skipped_generic_return"] = skipped
	rep.Coverage["exhaustive"] = true
	rep.Coverage["rule"] = "every initial state of GoBoundary.tla: unary (3 paths x 14 kinds x every boundary value of the kind's family), return (every fitting value returned by Go), cross (values of another family: no crash), arity2 / arity3 (every signature over 14 kinds of arity 2 (thorough: 3), each position varied over the edge values of its kind); non-trivial = cases where the reference demands a catchable error"
	return rep
}

// c17Scripts calls reflectively registered unary functions from scripts (literal-safe values only).
func c17Scripts(rep *kf.Report, cases []c17Case) int {
	s := rt.NewSession()
	n := 0
	var sb strings.Builder
	type ref struct {
		k    c17Case
		want reflect.Value
	}
	var refs []ref
	got := map[int]reflect.Value{}
	for _, k := range cases {
		var lit string
		switch k.Sc.Valfam {
		case "int":
			v := c17Int[k.Sc.Val]
			if v > 1<<53 || v < -(1<<53) {
				continue
			}
			lit = fmt.Sprint(v)
			if v < 0 {
				lit = "(" + lit + ")"
			}
		case "float":
			if k.Sc.Val != "1.5" && k.Sc.Val != "-2.5" && k.Sc.Val != "0.0" {
				continue
			}
			lit = map[string]string{"1.5": "1.5", "-2.5": "(-2.5)", "0.0": "0.0"}[k.Sc.Val]
		case "string":
			if k.Sc.Val == "64KiB" {
				continue
			}
			lit = phpBytes([]byte(c17Str[k.Sc.Val]))
		case "bool":
			lit = k.Sc.Val
		}
		i := len(refs)
		kk := k.Sc.Sig[0]
		ft := reflect.FuncOf([]reflect.Type{c17Types[kk]}, []reflect.Type{c17Types[kk]}, false)
		fn := reflect.MakeFunc(ft, func(in []reflect.Value) []reflect.Value { got[i] = in[0]; return in })
		if ctl := s.VM.RegisterFunction(fmt.Sprintf("probe%d", i), fn.Interface()); ctl != nil {
			rep.Infraf("RegisterFunction: %v", ctl.AsString())
			return n
		}
		fmt.Fprintf(&sb, "$a%d = %s;\ntry { $r%d = probe%d($a%d); echo \"K%d|\", (($r%d === $a%d) ? \"same\" : \"diff\"), \"\\n\"; } catch (\\Throwable $e) { echo \"K%d|error\\n\"; }\n", i, lit, i, i, i, i, i, i, i)
		refs = append(refs, ref{k, c17Go(kk, k.Sc.Valfam, k.Sc.Val)})
	}
	var out strings.Builder
	restore := rt.CaptureOutput(&out)
	res := s.Exec(sb.String(), "c17.zy")
	restore()
	if res.Panic != "" || res.ParseErr != "" {
		rep.Add(kf.Mismatch{ID: "C17/script/kind=crash", Expected: "every call returns or raises a catchable error", Observed: tailStr(res.Panic+res.ParseErr, 300), ObsKey: "crash", Input: tailStr(sb.String(), 1500)})
		return n
	}
	lines := map[string]string{}
	for _, l := range strings.Split(out.String(), "\n") {
		if f := strings.SplitN(l, "|", 2); len(f) == 2 {
			lines[f[0]] = f[1]
		}
	}
	for i, r := range refs {
		n++
		id := fmt.Sprintf("C17/script/sig=%s/val=%s:%s", r.k.Sc.Sig[0], r.k.Sc.Valfam, r.k.Sc.Val)
		o := lines[fmt.Sprintf("K%d", i)]
		switch r.k.Outcome.Kind {
		case "error":
			if o != "error" {
				rep.Add(kf.Mismatch{ID: id, Expected: "catchable error", Observed: o, ObsKey: "delivered-altered", Input: r.k.Sc})
			} else if g, entered := got[i]; entered {
				rep.Add(kf.Mismatch{ID: id, Expected: "catchable error before the Go function is entered", Observed: fmt.Sprintf("Go was entered with %v", g.Interface()), ObsKey: "entered-altered", Input: r.k.Sc})
			}
		case "delivered":
			if o != "same" {
				rep.Add(kf.Mismatch{ID: id, Expected: "result === argument", Observed: o, ObsKey: "script:" + o, Input: r.k.Sc})
			} else if g, ok := got[i]; !ok || !c17Same(g, r.want) {
				rep.Add(kf.Mismatch{ID: id, Expected: "Go receives the literal's value", Observed: fmt.Sprint(g), ObsKey: "received-different", Input: r.k.Sc})
			}
		}
	}
	return n
}
