package props

import (
	"bytes"
	"encoding/json"
	"fmt"
	"net/http"
	"net/http/httptest"
	"os"
	"os/exec"
	"strconv"
	"strings"
	"sync"
	"time"

	"verif/graph"
	"verif/kf"
	"verif/rt"
	"verif/tlc"
)

func init() {
	Registry["C11"] = C11
	Workers["c11par"] = c11ParWorker
}

// c11ParWorker: responses of parallel requests must equal the responses of the same requests run alone.
func c11ParWorker() {
	nreq, _ := strconv.Atoi(os.Getenv("VERIF_N"))
	inflightN, _ := strconv.Atoi(os.Getenv("VERIF_INFLIGHT"))
	var sb strings.Builder
	restore := rt.CaptureOutput(&sb)
	defer restore()
	sess := rt.NewSession()
	sess.VM.RegisterFunction("verif_whoami", func() string { return "?" })
	sess.VM.RegisterFunction("verif_gate", func(me string) string { return "end" })
	if r := sess.Exec(c11Handler, "/verif-virtual/c11.zy"); r.ParseErr != "" || r.Uncaught != "" || r.Panic != "" {
		fmt.Fprintf(os.Stderr, "setup failed: %+v\n", r)
		os.Exit(2)
	}
	sv, _ := sess.Var("server").(interface{ GetSource() any })
	mux, _ := sv.GetSource().(*http.ServeMux)
	render := func(rec *httptest.ResponseRecorder) string {
		res := rec.Result()
		return fmt.Sprintf("%d|%s|%s|%s|%s", res.StatusCode, res.Header.Get("X-Id"), res.Header.Get("X-Echo"), res.Header.Get("X-Mw"), rec.Body.String())
	}
	mkReq := func(i int) *http.Request {
		route := "/w"
		if i%2 == 1 {
			route = "/m" // behind a script middleware
		}
		// every request carries a form key of its own (u<i>), so the key SETS of two requests differ
		return c11NewRequest(fmt.Sprintf("%s/%d", route, i), fmt.Sprintf("q%d", i), fmt.Sprintf("&n=%d&u%d=1", i%23, i%5))
	}
	alone := make([]string, nreq)
	for i := 0; i < nreq; i++ {
		rec := httptest.NewRecorder()
		mux.ServeHTTP(rec, mkReq(i))
		alone[i] = render(rec)
	}
	emit := func(m kf.Mismatch) {
		b, _ := json.Marshal(m)
		fmt.Println("MISMATCH " + string(b))
	}
	// the alone run is itself checked against the request: $req->all() holds exactly gw, pw, n and u<i>
	allOK := func(i int, body string) bool {
		return i%2 == 1 || strings.Contains(body, fmt.Sprintf(";all=4:q%dG;", i))
	}
	for i, nb := 0, 0; i < nreq && nb < 10; i++ {
		if !allOK(i, alone[i]) {
			nb++
			emit(kf.Mismatch{ID: "C11/alone/route=plain/kind=request-all", Expected: fmt.Sprintf("all=4:q%dG (the request's own keys gw, pw, n, u%d)", i, i%5), Observed: alone[i], ObsKey: "request-all", Input: i})
		}
	}
	par := make([]string, nreq)
	pans := make([]any, nreq)
	var wg sync.WaitGroup
	inflight := make(chan struct{}, inflightN)
	for i := 0; i < nreq; i++ {
		wg.Add(1)
		inflight <- struct{}{}
		go func(i int) {
			defer wg.Done()
			defer func() { <-inflight }()
			defer func() { pans[i] = recover() }()
			rec := httptest.NewRecorder()
			mux.ServeHTTP(rec, mkReq(i))
			par[i] = render(rec)
		}(i)
	}
	wg.Wait()
	bad := 0
	for i := 0; i < nreq && bad < 30; i++ {
		route := []string{"plain", "middleware"}[i%2]
		if pans[i] != nil {
			bad++
			emit(kf.Mismatch{ID: "C11/parallel/route=" + route + "/kind=panic", Expected: alone[i], Observed: fmt.Sprint(pans[i]), ObsKey: "panic", Input: i})
		} else if par[i] != alone[i] {
			bad++
			emit(kf.Mismatch{ID: "C11/parallel/route=" + route + "/kind=response", Expected: alone[i], Observed: par[i], ObsKey: "differs", Input: i})
		}
	}
	fmt.Printf("DONE %d\n", nreq)
}

type c11Act struct {
	Op, R, Kind string
	Own, Dev    []string
}

type c11Req struct {
	name   string
	parked chan struct{}
	cmd    chan string
	done   chan struct{}
	rec    *httptest.ResponseRecorder
	pan    any
}

const c11Handler = `use Net\Http\Server;
$server = new Server('127.0.0.1', 0);
$server->post('/t', function ($req, $res) {
  $req->parseForm();
  $me = verif_whoami();
  $out = "";
  $k = verif_gate($me);
  while ($k != "end") {
    if ($k == "get") { $out = $out . "get=" . $_GET['gw'] . ";"; }
    elseif ($k == "post") { $out = $out . "post=" . $_POST['pw'] . ";"; }
    elseif ($k == "cookie") { $out = $out . "cookie=" . $_COOKIE['cw'] . ";"; }
    elseif ($k == "server") { $out = $out . "server=" . $_SERVER['HTTP_X_WHO'] . ";"; }
    elseif ($k == "request") { $out = $out . "request=" . $_REQUEST['gw'] . "," . $_REQUEST['pw'] . "," . $_REQUEST['cw'] . ";"; }
    $k = verif_gate($me);
  }
  $res->write($out);
});
// RequestFrames.tla: what a handler keeps while it serves a request; the step ("w" | "r") comes from the gate
$capArr = ["init"];
$capScalar = "init";
class Bag {
  public $items = ["init"];
  public function add($v) { $this->items[] = $v; }
}
$server->post('/s', function ($req, $res) use ($capArr, $capScalar) {
  $req->parseForm();
  $me = verif_whoami();
  $slot = $req->input('slot');
  $loc = "init";
  $larr = ["init"];
  $bag = new Bag();
  $out = "";
  $k = verif_gate($me);
  while ($k != "end") {
    if ($k == "w") {
      if ($slot == "local") { $loc = $loc . "," . $me; }
      elseif ($slot == "localarr") { $larr[] = $me; }
      elseif ($slot == "capscalar") { $capScalar = $capScalar . "," . $me; }
      elseif ($slot == "caparr") { $capArr[] = $me; }
      elseif ($slot == "object") { $bag->add($me); }
    } else {
      if ($slot == "local") { $out = $out . $loc . ";"; }
      elseif ($slot == "localarr") { $out = $out . implode(",", $larr) . ";"; }
      elseif ($slot == "capscalar") { $out = $out . $capScalar . ";"; }
      elseif ($slot == "caparr") { $out = $out . implode(",", $capArr) . ";"; }
      elseif ($slot == "object") { $out = $out . implode(",", $bag->items) . ";"; }
    }
    $k = verif_gate($me);
  }
  $res->write($out);
});
// the onFormat formatter runs inside $res->format(): its parameter $message and its local $fl are slots too
$server->onFormat(function ($code, $message, $data) {
  $me = verif_whoami();
  $fl = "init";
  $out = "";
  $k = verif_gate($me);
  while ($k != "end") {
    if ($k == "w") {
      if ($data == "fmtarg") { $message = $message . "," . $me; } else { $fl = $fl . "," . $me; }
    } else {
      if ($data == "fmtarg") { $out = $out . $message . ";"; } else { $out = $out . $fl . ";"; }
    }
    $k = verif_gate($me);
  }
  return ["out" => $out];
});
$server->post('/f', function ($req, $res) {
  $req->parseForm();
  $res->format(200, "init", $req->input('slot'));
});
// handlers without superglobals: locals, loops, arrays, objects, closures and the request object
class Acc { public $items = []; public function add($v) { $this->items[] = $v; return $this; } public function sum() { $s = 0; foreach ($this->items as $x) { $s = $s + $x; } return $s; } }
function fib($n) { if ($n < 2) { return $n; } return fib($n - 1) + fib($n - 2); }
$server->post('/w/{id}', function ($req, $res) {
  $req->parseForm();
  $id = $req->pathValue('id');
  $n = (int)$req->input('n');
  $acc = new Acc();
  $arr = [];
  for ($i = 0; $i < $n; $i++) { $arr[] = $i * 2; $acc->add($i); }
  $mul = function ($x) use ($n) { return $x * $n; };
  $tot = 0;
  foreach ($arr as $v) { $tot = $tot + $mul($v); }
  $res->status(200 + ($n % 7));
  $res->header('X-Id', $id);
  $res->header('X-Echo', $req->header('X-Who'));
  // the merged input of THIS request read through the request object: number of keys and one value
  $all = $req->all();
  $c = 0;
  foreach ($all as $k => $v) { $c = $c + 1; }
  $res->write("id=" . $id . ";n=" . $n . ";tot=" . $tot . ";sum=" . $acc->sum() . ";fib=" . fib($n % 12) . ";in=" . $req->input('pw') . ";all=" . $c . ":" . $all->gw . ";");
});
// the same handler behind a script middleware that writes before and after the handler
$server->middleware(function ($req, $res, $next) {
  $who = $req->header('X-Who');
  $res->header('X-Mw', $who);
  $res->write("<" . $who);
  $next($req, $res);
  $res->write(">" . $who);
});
$server->post('/m/{id}', function ($req, $res) {
  $req->parseForm();
  $id = $req->pathValue('id');
  $n = (int)$req->input('n');
  $s = "";
  for ($i = 0; $i < $n; $i++) { $s = $s . $i; }
  $res->header('X-Id', $id);
  $res->write("[" . $id . "|" . $s . "|" . $req->input('pw') . "]");
});
`

func c11NewRequest(path, id string, extra string) *http.Request {
	body := "pw=" + id + "P" + extra
	req := httptest.NewRequest("POST", path+"?gw="+id+"G", strings.NewReader(body))
	req.Header.Set("Content-Type", "application/x-www-form-urlencoded")
	req.Header.Set("X-Who", id+"S")
	req.AddCookie(&http.Cookie{Name: "cw", Value: id + "C"})
	return req
}

// owner strips the trailing kind letter ("r1G" -> "r1")
func c11Owner(v string) string {
	if len(v) > 1 {
		return v[:len(v)-1]
	}
	return v
}

// C11: forced two/three-request interleavings from the Superglobals spec + parallel-vs-alone runs.
func C11(c *Ctx) *kf.Report {
	rep := &kf.Report{Property: "C11", Level: "model_checking", Coverage: map[string]any{}}
	rep.Assumptions = []string{
		"handlers are real closures on a real Server object, requests go through the real ServeMux with httptest recorders",
		"gates are Go functions registered into the VM (verif_gate); a request is identified by its goroutine",
		"a wrong read is classified as the known finding only if it equals what the deviation layer of the spec predicts for that interleaving",
	}
	nreads := 2
	reqs := `{"r1","r2"}`
	// 1. reference design satisfies OwnDataOnly, the pinned mechanism does not
	ok := runTLC(rep, tlc.Run{SpecDir: c.SpecDir(), Module: "Superglobals", Cfg: "Superglobals.cfg",
		Consts: map[string]string{"REQS": reqs, "NREADS": "2", "DEV": "FALSE", "EMIT": "FALSE", "INV": "OwnDataOnly"}})
	if ok == nil {
		return rep
	}
	addTLC(rep, ok)
	if ok.Violated != "" {
		rep.Infraf("Superglobals (per-request cache) violates %s", ok.Violated)
	}
	dev := runTLC(rep, tlc.Run{SpecDir: c.SpecDir(), Module: "Superglobals", Cfg: "Superglobals.cfg",
		Consts: map[string]string{"REQS": reqs, "NREADS": "2", "DEV": "TRUE", "EMIT": "FALSE", "INV": "OwnDataOnly"}})
	if dev != nil {
		rep.Coverage["deviation_counterexample"] = dev.Violated
		if dev.Violated != "OwnDataOnly" {
			rep.Infraf("Superglobals: deviation should violate OwnDataOnly, got %q", dev.Violated)
		}
	}
	// 2. graph with predictions of both layers
	gres := runTLC(rep, tlc.Run{SpecDir: c.SpecDir(), Module: "Superglobals", Cfg: "Superglobals.cfg", Timeout: 10 * time.Minute,
		Consts: map[string]string{"REQS": reqs, "NREADS": fmt.Sprint(nreads), "DEV": "TRUE", "EMIT": "TRUE", "INV": "TypeOK"}})
	if gres == nil {
		return rep
	}
	addTLC(rep, gres)
	g, err := graph.Build(gres.Tagged["INIT"], gres.Tagged["EDGE"])
	if err != nil {
		rep.Infraf("graph: %v", err)
		return rep
	}
	rep.Coverage["graph_states"] = len(g.States)
	rep.Coverage["graph_edges"] = g.NEdges

	var sb strings.Builder
	restore := rt.CaptureOutput(&sb)
	defer restore()
	sess := rt.NewSession()
	var mu sync.Mutex
	byGID := map[uint64]*c11Req{}
	byName := map[string]*c11Req{}
	sess.VM.RegisterFunction("verif_whoami", func() string {
		mu.Lock()
		defer mu.Unlock()
		if r := byGID[curGID()]; r != nil {
			return r.name
		}
		return "?"
	})
	var wrongLocal []string
	sess.VM.RegisterFunction("verif_gate", func(me string) string {
		mu.Lock()
		r := byName[me]
		// the handler local $me must still hold the identity of the request this goroutine serves
		if own := byGID[curGID()]; own != nil && own.name != me {
			wrongLocal = append(wrongLocal, fmt.Sprintf("request %s finds %q in its local $me", own.name, me))
			r = own
		}
		mu.Unlock()
		if r == nil {
			return "end"
		}
		r.parked <- struct{}{}
		return <-r.cmd
	})
	if r := sess.Exec(c11Handler, "/verif-virtual/c11.zy"); r.ParseErr != "" || r.Uncaught != "" || r.Panic != "" {
		rep.Infraf("C11 setup failed: %+v", r)
		return rep
	}
	sv, _ := sess.Var("server").(interface{ GetSource() any })
	mux, _ := sv.GetSource().(*http.ServeMux)
	if mux == nil {
		rep.Infraf("C11: no mux")
		return rep
	}
	reqPath, reqExtra := "/t", ""
	start := func(name string) *c11Req {
		r := &c11Req{name: name, parked: make(chan struct{}, 1), cmd: make(chan string), done: make(chan struct{}), rec: httptest.NewRecorder()}
		mu.Lock()
		byName[name] = r
		mu.Unlock()
		ready := make(chan struct{})
		go func() {
			defer close(r.done)
			defer func() { r.pan = recover() }()
			mu.Lock()
			byGID[curGID()] = r
			mu.Unlock()
			close(ready)
			mux.ServeHTTP(r.rec, c11NewRequest(reqPath, name, reqExtra))
		}()
		<-ready
		return r
	}
	wait := func(ch chan struct{}) bool {
		select {
		case <-ch:
			return true
		case <-time.After(5 * time.Second):
			return false
		}
	}

	paths, reads := 0, 0
	broken := false
	nontrivial := map[string]bool{}
	var samples []any
	limit := c.Pick(12000, 200000)
	rng := c.Rng()
	runPath := func(path []graph.Edge) {
		paths++
		live := map[string]*c11Req{}
		var acts []c11Act
		var sched []string
		stalled := false
		for _, e := range path {
			var a c11Act
			must(json.Unmarshal(e.Act, &a))
			acts = append(acts, a)
			sched = append(sched, a.R+":"+a.Op+a.Kind)
			switch a.Op {
			case "begin":
				r := start(a.R)
				live[a.R] = r
				if !wait(r.parked) {
					stalled = true
				}
			case "read":
				live[a.R].cmd <- a.Kind
				if !wait(live[a.R].parked) {
					stalled = true
				}
			case "end":
				live[a.R].cmd <- "end"
				if !wait(live[a.R].done) {
					stalled = true
				}
			}
			if len(wrongLocal) > 0 {
				rep.Add(kf.Mismatch{ID: "C11/kind=local/foreign", Expected: "handler locals belong to the request being served", Observed: wrongLocal, ObsKey: "foreign-local", Input: sched})
				wrongLocal = nil
				broken = true
				return
			}
			if stalled {
				rep.Infraf("C11: request stalled at %v", sched)
				return
			}
		}
		mu.Lock()
		for k := range byGID {
			delete(byGID, k)
		}
		mu.Unlock()
		// parse what each request saw
		seen := map[string][][]string{}
		for name, r := range live {
			if r.pan != nil {
				rep.Add(kf.Mismatch{ID: "C11/kind=panic", Expected: "handler completes", Observed: fmt.Sprint(r.pan), ObsKey: "panic", Input: sched})
				return
			}
			for _, f := range strings.Split(strings.TrimSuffix(r.rec.Body.String(), ";"), ";") {
				kv := strings.SplitN(f, "=", 2)
				if len(kv) != 2 {
					continue
				}
				var owners []string
				for _, v := range strings.Split(kv[1], ",") {
					owners = append(owners, c11Owner(v))
				}
				seen[name] = append(seen[name], owners)
			}
		}
		idx := map[string]int{}
		inter := false
		for _, a := range acts {
			if a.Op != "read" {
				continue
			}
			reads++
			i := idx[a.R]
			idx[a.R]++
			var got []string
			if i < len(seen[a.R]) {
				got = seen[a.R][i]
			}
			if jsonStr(a.Own) != jsonStr(a.Dev) {
				inter = true
			}
			if jsonStr(got) == jsonStr(a.Own) {
				continue
			}
			id := "C11/kind=" + a.Kind + "/unexplained"
			if jsonStr(got) == jsonStr(a.Dev) {
				id = "C11/deviation=process-wide-cache/kind=" + a.Kind
			}
			rep.Add(kf.Mismatch{ID: id, Expected: a.Own, Observed: got, ObsKey: "foreign-data", Input: sched,
				Detail: map[string]any{"request": a.R, "read_index": i, "deviation_prediction": a.Dev}})
		}
		if inter {
			nontrivial[strings.Join(sched, ",")] = true
		}
		if len(samples) < 3 && inter && paths%37 == 0 {
			samples = append(samples, map[string]any{"schedule": sched})
		}
	}
	// count maximal paths first to decide between exhaustive and sampled replay
	total := 0
	g.AllPaths(64, func(_ string, _ []graph.Edge) bool { total++; return total <= limit })
	exhaustive := total <= limit
	if exhaustive {
		g.AllPaths(64, func(_ string, p []graph.Edge) bool {
			runPath(append([]graph.Edge{}, p...))
			return len(rep.Infra) == 0 && !broken
		})
	} else {
		for i := 0; i < limit && len(rep.Infra) == 0 && !broken; i++ {
			_, p := g.RandomPath(rng, 64)
			runPath(p)
		}
	}
	rep.Coverage["forced_interleavings"] = paths
	rep.Coverage["forced_exhaustive"] = exhaustive
	rep.Coverage["reads_compared"] = reads

	// 2b. RequestFrames.tla: locals, by-value captures, objects and the formatter frame under every
	// interleaving of two requests (each: begin, two steps write|read on one slot kind, end)
	frames, frameReads := 0, 0
	if len(rep.Infra) == 0 && !broken {
		fok := runTLC(rep, tlc.Run{SpecDir: c.SpecDir(), Module: "RequestFrames", Cfg: "RequestFrames.cfg", Timeout: 10 * time.Minute,
			Consts: map[string]string{"SHARED": "{}", "EMIT": "TRUE", "PROPS": "OwnFrameOnly NoForeignName"}})
		fdev := runTLC(rep, tlc.Run{SpecDir: c.SpecDir(), Module: "RequestFrames", Cfg: "RequestFrames.cfg",
			Consts: map[string]string{"SHARED": `{"caparr", "fmtarg"}`, "EMIT": "FALSE", "PROPS": "OwnFrameOnly"}})
		if fdev != nil && fdev.Violated != "OwnFrameOnly" {
			rep.Infraf("RequestFrames: a shared frame should violate OwnFrameOnly, got %q", fdev.Violated)
		}
		if fok != nil {
			addTLC(rep, fok)
			if fok.Violated != "" {
				rep.Infraf("RequestFrames violates %s", fok.Violated)
			}
			fg, err := graph.Build(fok.Tagged["INIT"], fok.Tagged["EDGE"])
			if err != nil {
				rep.Infraf("RequestFrames graph: %v", err)
			} else {
				type fAct struct {
					Op, R    string
					Own, Dev []string
				}
				runFrames := func(init string, path []graph.Edge) bool {
					var st struct{ Slot string }
					must(json.Unmarshal(fg.States[init], &st))
					reqPath, reqExtra = "/s", "&slot="+st.Slot
					if strings.HasPrefix(st.Slot, "fmt") {
						reqPath = "/f"
					}
					frames++
					live := map[string]*c11Req{}
					var acts []fAct
					var sched []string
					for _, e := range path {
						var a fAct
						must(json.Unmarshal(e.Act, &a))
						acts = append(acts, a)
						sched = append(sched, a.R+":"+a.Op)
						okStep := true
						switch a.Op {
						case "begin":
							live[a.R] = start(a.R)
							okStep = wait(live[a.R].parked)
						case "write", "read":
							live[a.R].cmd <- a.Op[:1]
							okStep = wait(live[a.R].parked)
						case "end":
							live[a.R].cmd <- "end"
							okStep = wait(live[a.R].done)
						}
						if len(wrongLocal) > 0 {
							rep.Add(kf.Mismatch{ID: "C11/frames/slot=" + st.Slot + "/kind=local-me", Expected: "handler locals belong to the request being served", Observed: wrongLocal, ObsKey: "foreign-local", Input: sched})
							wrongLocal = nil
							broken = true
							return false
						}
						if !okStep {
							rep.Infraf("C11 frames: request stalled at %v (slot %s)", sched, st.Slot)
							return false
						}
					}
					mu.Lock()
					for k := range byGID {
						delete(byGID, k)
					}
					mu.Unlock()
					seen := map[string][]string{}
					for name, r := range live {
						if r.pan != nil {
							rep.Add(kf.Mismatch{ID: "C11/frames/slot=" + st.Slot + "/kind=panic", Expected: "handler completes", Observed: fmt.Sprint(r.pan), ObsKey: "panic", Input: sched})
							return true
						}
						body := r.rec.Body.String()
						if reqPath == "/f" {
							var env struct{ Out string }
							if json.Unmarshal([]byte(body), &env) != nil {
								rep.Add(kf.Mismatch{ID: "C11/frames/slot=" + st.Slot + "/kind=envelope", Expected: `{"out": ...} built by the formatter`, Observed: body, ObsKey: "envelope", Input: sched})
								return true
							}
							body = env.Out
						}
						if body != "" {
							seen[name] = strings.Split(strings.TrimSuffix(body, ";"), ";")
						}
					}
					idx := map[string]int{}
					for _, a := range acts {
						if a.Op != "read" {
							continue
						}
						frameReads++
						i := idx[a.R]
						idx[a.R]++
						got := "<no output>"
						if i < len(seen[a.R]) {
							got = seen[a.R][i]
						}
						if exp := strings.Join(a.Own, ","); got != exp {
							rep.Add(kf.Mismatch{ID: "C11/frames/slot=" + st.Slot, Expected: exp, Observed: got, ObsKey: "foreign-or-lost", Input: sched,
								Detail: map[string]any{"request": a.R, "read_index": i}})
							return true
						}
					}
					nontrivial["frames:"+st.Slot+":"+strings.Join(sched, ",")] = true
					return true
				}
				before := len(rep.Mismatches)
				fg.AllPaths(64, func(init string, p []graph.Edge) bool {
					return runFrames(init, append([]graph.Edge{}, p...)) && len(rep.Infra) == 0 && len(rep.Mismatches)-before < 40
				})
				reqPath, reqExtra = "/t", ""
			}
		}
	}
	rep.Coverage["frame_interleavings"] = frames
	rep.Coverage["frame_reads_compared"] = frameReads

	// 3. parallel vs alone (handlers without superglobals), in a subprocess: a crash of the interpreter
	// under parallel requests must not take the checker down
	nreq := c.Pick(600, 6000)
	inflightN := 2 + int(c.Seed%63)
	cmd := exec.Command(c.Self, "-worker", "c11par")
	cmd.Env = append(os.Environ(), fmt.Sprintf("VERIF_N=%d", nreq), fmt.Sprintf("VERIF_INFLIGHT=%d", inflightN))
	var pout, perr bytes.Buffer
	cmd.Stdout, cmd.Stderr = &pout, &perr
	tm := time.AfterFunc(10*time.Minute, func() { cmd.Process.Kill() })
	perrRun := cmd.Run()
	tm.Stop()
	nPar := 0
	for _, line := range strings.Split(pout.String(), "\n") {
		if strings.HasPrefix(line, "MISMATCH ") {
			var m kf.Mismatch
			if json.Unmarshal([]byte(line[9:]), &m) == nil {
				rep.Add(m)
			}
		}
		if strings.HasPrefix(line, "DONE ") {
			fmt.Sscanf(line, "DONE %d", &nPar)
		}
	}
	if perrRun != nil || nPar == 0 {
		tail := perr.String()
		if len(tail) > 2500 {
			tail = tail[:2500]
		}
		if strings.Contains(tail, "fatal error") || strings.Contains(tail, "panic") || strings.Contains(tail, "SIGSEGV") {
			rep.Add(kf.Mismatch{ID: "C11/parallel/kind=crash", Expected: "parallel requests are served", Observed: tail, ObsKey: "crash", Input: map[string]any{"requests": nreq, "inflight": inflightN}})
		} else {
			rep.Infraf("c11par worker: %v\n%s", perrRun, tail)
		}
	}
	inflight := make(chan struct{}, inflightN)
	rep.Coverage["parallel_requests"] = nreq
	rep.Coverage["parallel_inflight"] = cap(inflight)
	rep.Coverage["traces_validated_against_impl"] = paths + nreq
	rep.Coverage["evaluations"] = reads + nreq
	rep.Coverage["distinct_nontrivial"] = len(nontrivial)
	rep.Coverage["rule"] = "every interleaving of 2 requests x 2 steps (write | read) on each of 7 slot kinds (locals, by-value captures, handler-created object, onFormat formatter parameter and local) from the RequestFrames graph forced through gates on a real Server, every read compared with init + the reader's own writes; every interleaving of 2 requests x 2 superglobal reads (all 625 read programs) from the Superglobals graph forced through gates on a real Server, each read compared with the reference (own data) and, when wrong, with the deviation layer; plus parallel-vs-alone comparison of responses for handlers using locals, loops, arrays, objects, closures, recursion and the request object; non-trivial = interleavings in which the pinned mechanism would serve foreign data"
	rep.Coverage["exhaustive"] = exhaustive
	if len(samples) == 0 {
		samples = append(samples, "none")
	}
	rep.Coverage["samples"] = samples
	return rep
}
