package props

import (
	"bytes"
	"encoding/base64"
	"encoding/json"
	"fmt"
	"os"
	"path/filepath"
	"regexp"
	"sort"
	"strings"
	"time"

	"github.com/php-any/origami/lexer"

	"verif/kf"
	"verif/lang"
	"verif/tlc"
)

func init() { Registry["C01"] = C01 }

// the bytes of every fragment of spec/SourceGen.tla
var c01Frag = map[string]string{
	"DOLLAR": "$", "VAR": "$x", "IDENT": "foo", "INT": "1", "NEGINT": "-1", "SPACE": " ", "NL": "\n", "SEMI": ";", "COMMA": ",", "ASSIGN": "=", "ARROW": "=>",
	"GT": ">", "PLUS": "+", "STAR": "*", "DOT": ".", "LPAREN": "(", "RPAREN": ")", "LBRACK": "[", "RBRACK": "]", "LBRACE": "{", "RBRACE": "}",
	"DQUOTE": "\"", "SQUOTE": "'", "INTERP": "{$", "HEREDOC": "<<<EOT\n", "NOWDOC": "<<<'EOT'\n", "HEREDOC_END": "\nEOT;\n", "HEREDOC_END0": "EOT;\n", "BLOCK_OPEN": "/*", "BLOCK_CLOSE": "*/", "LINE_COMMENT": "//",
	"OPEN_TAG": "<?php ", "CLOSE_TAG": "?>", "FN": "fn(", "FUNCTION": "function(){", "IF": "if(", "E380": "\xe3\x80", "E38080": "\xe3\x80\x80", "BACKSLASH": "\\",
	"CRLF": "\r\n", "HASH": "#", "NUL": "\x00", "UTF8": "é你", "CASE": "case 1:", "SWITCH": "switch($x){", "CLASS": "class A{", "NEW": "new ", "ECHO": "echo ",
	"RETURN": "return ", "OBJ_ARROW": "->", "SCOPE": "::", "QUESTION": "?", "COLON": ":", "AMP": "&", "AT": "@", "FOR": "for($i=0;", "WHILE": "while(", "FOREACH": "foreach($x as ",
	"TRY": "try{", "CATCH": "catch(", "MATCH": "match($x){", "STRING": "\"s\"", "FLOAT": "1.5", "TRUE": "true", "NULLSAFE": "?->", "SPREAD": "...", "BANG": "!",
}

type c01Input struct {
	id       string // family-level id used for grouping
	detail   string // the concrete input's description
	src      string
	template bool
	run      bool
}

type c01Event map[string]any

var c01Frame = regexp.MustCompile(`github\.com/php-any/origami/((?:lexer|parser|node|data|runtime|std|utils|token)(?:/[\w/]+)?\.(?:\(\*?\w+\)\.)?[\w.]+)\(`)

// c01Site extracts the first interpreter frame from a Go stack trace.
func c01Site(stack string) string {
	for _, m := range c01Frame.FindAllStringSubmatch(stack, -1) {
		f := m[1]
		if strings.Contains(f, "func") && strings.Contains(f, "rt.") {
			continue
		}
		f = strings.NewReplacer("(*", "", ")", "", "/", ".").Replace(f)
		return f
	}
	return "unknown"
}

var c01ParserFrame = regexp.MustCompile(`github\.com/php-any/origami/parser\.\(\*(\w+)\)\.(\w+)\(`)

// c01LoopSite names the innermost construct-level parser method in a goroutine dump of a looping front end
// (the top frames of a sampled stack are whatever helper happened to run; the construct parser is stable).
func c01LoopSite(stack string) string {
	for _, m := range c01ParserFrame.FindAllStringSubmatch(stack, -1) {
		if m[1] == "Parser" || m[1] == "ExpressionParser" || m[1] == "DefaultScope" || m[1] == "PositionTracker" {
			continue
		}
		return "parser." + m[1] + "." + m[2]
	}
	return c01Site(stack)
}

func c01Lines(s string) int { return strings.Count(s, "\n") + 1 }

// c01Mutants: token-boundary prefixes, single-token deletions and duplications of src (boundaries from the real lexer).
func c01Mutants(src string, template bool, pick func(n int) []int) []string {
	var spans [][2]int
	func() {
		defer func() { recover() }()
		var ts []lexer.Token
		if template {
			ts = lexer.NewLexer().TokenizeTemplate(src)
		} else {
			ts = lexer.NewLexer().Tokenize(src)
		}
		for _, t := range ts {
			if t.Start() >= 0 && t.End() <= len(src) && t.Start() < t.End() {
				spans = append(spans, [2]int{t.Start(), t.End()})
			}
		}
	}()
	var out []string
	for _, i := range pick(len(spans)) {
		s, e := spans[i][0], spans[i][1]
		out = append(out, src[:e])                  // prefix ending after token i
		out = append(out, src[:s]+src[e:])          // token i deleted
		out = append(out, src[:e]+" "+src[s:e]+src[e:]) // token i duplicated
	}
	return out
}

// C01: any source lexes and parses to a program or a positioned diagnostic; accepted programs run without internal crash.
func C01(c *Ctx) *kf.Report {
	rep := &kf.Report{Property: "C01", Level: "exploration", Coverage: map[string]any{}}
	rep.Assumptions = []string{
		"time bound per input: 5 s + 1 ms per byte for lexing + parsing (three orders of magnitude above the typical 0.5 ms); a timeout is re-run alone with a 10x budget before it counts",
		"the run-after-accept clause is explored on prefixes and mutants of generated side-effect-free programs only; a run that does not finish within 5 s after a successful parse is a script-level loop (inconclusive), not a violation",
		"every execution is recorded as events (lex, statement-loop iterations through the verif hook, parse outcome with diagnostic position, run outcome, crash / timeout) and validated by TLC against Front.tla; the specification does not model the recursive-descent parser itself (level: exploration)",
	}
	// ------------------------------------------------------------ progress obligation
	for _, gd := range []string{"TRUE", "FALSE"} {
		res := runTLC(rep, tlc.Run{SpecDir: c.SpecDir(), Module: "FrontLive", Cfg: "FrontLive.cfg", Workers: 1, Timeout: 5 * time.Minute, Consts: map[string]string{"GUARD": gd}})
		if res == nil {
			return rep
		}
		if gd == "TRUE" && res.Violated != "" {
			rep.Infraf("FrontLive with the guard: %s violated", res.Violated)
			return rep
		}
		if gd == "FALSE" && res.Violated == "" {
			rep.Infraf("FrontLive without the guard should violate Terminates (vacuity check of the progress obligation)")
			return rep
		}
		addTLC(rep, res)
	}
	// ------------------------------------------------------------ inputs
	var inputs []c01Input
	maxLen, alphabet := "3", "core"
	if c.Thorough() {
		alphabet = "full"
	}
	sg := runTLC(rep, tlc.Run{SpecDir: c.SpecDir(), Module: "SourceGen", Cfg: "SourceGen.cfg", Workers: 8, Timeout: 30 * time.Minute,
		Consts: map[string]string{"MAXLEN": maxLen, "ALPHABET": alphabet}})
	if sg == nil {
		return rep
	}
	addTLC(rep, sg)
	if sg.Violated != "" {
		rep.Infraf("spec SourceGen: %s violated", sg.Violated)
		return rep
	}
	finalModes := map[string]int{}
	openEnded := 0
	for _, raw := range sg.Tagged["CASE"] {
		var k struct {
			Frags []string
			Mode  string
			Depth int
		}
		must(json.Unmarshal(raw, &k))
		finalModes[k.Mode]++
		if k.Depth > 0 {
			openEnded++
		}
		var sb strings.Builder
		for _, f := range k.Frags {
			b, ok := c01Frag[f]
			if !ok {
				rep.Infraf("no bytes for fragment %q", f)
				return rep
			}
			sb.WriteString(b)
		}
		name := strings.Join(k.Frags, " ")
		inputs = append(inputs, c01Input{id: "sourcegen/script", detail: name, src: sb.String()})
		inputs = append(inputs, c01Input{id: "sourcegen/template", detail: name, src: "<?php\n" + sb.String(), template: true})
	}
	nSourceGen := len(inputs)
	// longer fragment sequences: TLC -simulate
	sim := runTLC(rep, tlc.Run{SpecDir: c.SpecDir(), Module: "SourceGen", Cfg: "SourceGen.cfg", Workers: 1, Timeout: 10 * time.Minute, Simulate: fmt.Sprintf("num=%d", c.Pick(300, 4000)), Depth: 9, Seed: c.Seed,
		Consts: map[string]string{"MAXLEN": "8", "ALPHABET": "full"}})
	if sim != nil {
		for _, raw := range sim.Tagged["CASE"] {
			var k struct{ Frags []string }
			if json.Unmarshal(raw, &k) != nil || len(k.Frags) < 4 {
				continue
			}
			var sb strings.Builder
			for _, f := range k.Frags {
				sb.WriteString(c01Frag[f])
			}
			inputs = append(inputs, c01Input{id: "sourcegen-long/script", detail: strings.Join(k.Frags, " "), src: sb.String()})
			inputs = append(inputs, c01Input{id: "sourcegen-long/template", detail: strings.Join(k.Frags, " "), src: "<?php\n" + sb.String(), template: true})
		}
	}
	nLong := len(inputs) - nSourceGen
	// corpus prefixes and single-token mutants
	rng := c.Rng()
	var corpus []string
	for _, root := range []string{"/repo/tests", "/repo/examples"} {
		filepath.Walk(root, func(p string, info os.FileInfo, err error) error {
			if err == nil && !info.IsDir() && (strings.HasSuffix(p, ".php") || strings.HasSuffix(p, ".zy")) {
				corpus = append(corpus, p)
			}
			return nil
		})
	}
	sort.Strings(corpus)
	perFile := c.Pick(12, 400)
	nCorpusMut, nCorpusCRLF, nCorpusScript := 0, 0, 0
	for _, f := range corpus {
		b, err := os.ReadFile(f)
		if err != nil || len(b) > 60000 {
			continue
		}
		tmpl := strings.HasSuffix(f, ".php")
		rel := strings.TrimPrefix(f, "/repo/")
		addMutants := func(family, src string, tmpl bool, k int) int {
			n := 0
			for mi, m := range c01Mutants(src, tmpl, func(n int) []int {
				if n <= k {
					idx := make([]int, n)
					for i := range idx {
						idx[i] = i
					}
					return idx
				}
				idx := rng.Perm(n)[:k]
				sort.Ints(idx)
				return idx
			}) {
				inputs = append(inputs, c01Input{id: family, detail: fmt.Sprintf("%s #%d (%s)", rel, mi/3, []string{"prefix", "delete", "duplicate"}[mi%3]), src: m, template: tmpl})
				n++
			}
			return n
		}
		nCorpusMut += addMutants("corpus-mutant", string(b), tmpl, perFile)
		// the same file with CRLF line ends (the corpus has none): line accounting of diagnostics, line-oriented constructs
		if !bytes.Contains(b, []byte("\r")) {
			nCorpusCRLF += addMutants("corpus-mutant-crlf", strings.ReplaceAll(string(b), "\n", "\r\n"), tmpl, (perFile+2)/3)
		}
		// a pure-code .php file without its opening tag is a script-mode source (the lexer of .zy files is a separate
		// copy of the loop): LF and CRLF forms
		if tmpl && bytes.HasPrefix(b, []byte("<?php\n")) && !bytes.Contains(b, []byte("?>")) && !bytes.Contains(b, []byte("\r")) {
			body := string(b[len("<?php\n"):])
			nCorpusScript += addMutants("corpus-mutant-script", body, false, (perFile+5)/6)
			nCorpusScript += addMutants("corpus-mutant-script-crlf", strings.ReplaceAll(body, "\n", "\r\n"), false, (perFile+5)/6)
		}
	}
	// generated programs: prefixes and mutants, run when accepted
	nGenMut := 0
	var gens []*lang.Program
	for i := 0; i < c.Pick(40, 400); i++ {
		gens = append(gens, lang.Random(rng, lang.GenCfg{MaxDepth: 3, ContinueWhile: true}))
	}
	tries := lang.EnumTry(rng, 0)
	for i := int(c.Seed) % 7; i < len(tries); i += 7 {
		gens = append(gens, tries[i])
	}
	for gi, p := range gens {
		src := "<?php\n" + p.Source("")
		for mi, m := range c01Mutants(src, true, func(n int) []int {
			k := c.Pick(10, 40)
			if n <= k {
				idx := make([]int, n)
				for i := range idx {
					idx[i] = i
				}
				return idx
			}
			idx := rng.Perm(n)[:k]
			sort.Ints(idx)
			return idx
		}) {
			inputs = append(inputs, c01Input{id: "gen-mutant", detail: fmt.Sprintf("gen %d #%d (%s)", gi, mi/3, []string{"prefix", "delete", "duplicate"}[mi%3]), src: m, template: true, run: true})
			nGenMut++
		}
	}
	// byte-level mutants of the above (seeded): one random byte replaced / inserted / removed
	nByte := c.Pick(2000, 20000)
	base := len(inputs)
	interesting := []byte{'$', '"', '\'', '{', '}', '(', ')', '[', ']', ';', '\\', '<', '?', '>', 0x00, 0xe3, 0x80, '\n', '#', '/', '*', '&', '@', '`'}
	for i := 0; i < nByte && base > 0; i++ {
		in := inputs[rng.Intn(base)]
		b := []byte(in.src)
		if len(b) == 0 {
			continue
		}
		p := rng.Intn(len(b))
		ch := interesting[rng.Intn(len(interesting))]
		switch rng.Intn(3) {
		case 0:
			b[p] = ch
		case 1:
			b = append(b[:p], append([]byte{ch}, b[p:]...)...)
		case 2:
			b = append(b[:p], b[p+1:]...)
		}
		inputs = append(inputs, c01Input{id: "byte-mutant", detail: in.id + ": " + tailStr(in.detail, 80), src: string(b), template: in.template})
	}

	// ------------------------------------------------------------ execute: parse everything, then run the accepted run-enabled ones
	baseMs := c.Pick(2000, 5000)
	limitMs := func(n int) int { return baseMs + n }
	jobs := make([]Job, len(inputs))
	for i, in := range inputs {
		jobs[i] = Job{B64: base64.StdEncoding.EncodeToString([]byte(in.src)), Template: in.template, NoRun: true, Front: true, LimitMs: limitMs(len(in.src))}
	}
	rs, err := RunJobs(c.Self, jobs, 0, time.Minute)
	if err != nil {
		rep.Infraf("pool: %v", err)
		return rep
	}
	// confirm timeouts alone with a 10x budget: all of them up to 48, beyond that a seeded sample of 48
	var again []int
	for i, r := range rs {
		if r.Hang {
			again = append(again, i)
		}
	}
	timeouts := len(again)
	if len(again) > 48 {
		rng.Shuffle(len(again), func(a, b int) { again[a], again[b] = again[b], again[a] })
		again = again[:48]
	}
	confirmed := 0
	if len(again) > 0 {
		aj := make([]Job, len(again))
		for k, i := range again {
			aj[k] = jobs[i]
			aj[k].LimitMs *= 10
		}
		ar, err := RunJobs(c.Self, aj, 16, time.Minute)
		if err != nil {
			rep.Infraf("pool: %v", err)
			return rep
		}
		for k, i := range again {
			if ar[k].Hang {
				confirmed++
			}
			rs[i] = ar[k]
		}
	}
	rep.Coverage["timeouts"] = timeouts
	rep.Coverage["timeouts_rerun_with_10x_budget"] = len(again)
	rep.Coverage["timeouts_confirmed"] = confirmed
	var runIdx []int
	for i, r := range rs {
		if inputs[i].run && !r.Hang && !r.Died && r.Panic == "" && r.ParseErr == "" && r.LexPanic == "" {
			runIdx = append(runIdx, i)
		}
	}
	runJobs := make([]Job, len(runIdx))
	for k, i := range runIdx {
		runJobs[k] = Job{B64: jobs[i].B64, Template: true}
	}
	rr, err := RunJobs(c.Self, runJobs, 0, 5*time.Second)
	if err != nil {
		rep.Infraf("pool: %v", err)
		return rep
	}
	runRes := map[int]JobResult{}
	for k, i := range runIdx {
		runRes[i] = rr[k]
	}

	// ------------------------------------------------------------ record traces
	type trace struct {
		ID    string     `json:"id"`
		Len   int        `json:"len"`
		Lines int        `json:"lines"`
		Ev    []c01Event `json:"ev"`
	}
	sites := map[int]string{}
	diagOwn, diagElsewhere, diagNoPos := 0, 0, 0
	mk := func(i int) trace {
		in, r := inputs[i], rs[i]
		t := trace{ID: fmt.Sprint(i), Len: len(in.src), Lines: c01Lines(in.src), Ev: []c01Event{}}
		if r.LexPanic != "" {
			sites[i] = c01Site(r.LexStack)
			t.Ev = append(t.Ev, c01Event{"e": "crash", "where": "lex", "what": tailStr(r.LexPanic, 100)})
			return t
		}
		if (r.Hang || r.Died) && r.Stage == "lex" {
			kind := "timeout"
			sites[i] = c01Site(r.Stderr)
			if r.Died {
				kind = "crash"
			}
			t.Ev = append(t.Ev, c01Event{"e": kind, "where": "lex", "what": tailStr(r.Stderr, 100)})
			return t
		}
		t.Ev = append(t.Ev, c01Event{"e": "lex", "ntok": r.Ntok})
		for _, it := range r.Iters {
			t.Ev = append(t.Ev, c01Event{"e": "iter", "p": it[0], "q": it[1], "ntok": it[2], "nil": it[3]})
		}
		switch {
		case r.Hang:
			sites[i] = c01LoopSite(r.Stderr)
			t.Ev = append(t.Ev, c01Event{"e": "timeout", "where": "parse", "what": ""})
			return t
		case r.Died:
			sites[i] = c01Site(r.Stderr)
			t.Ev = append(t.Ev, c01Event{"e": "crash", "where": "parse", "what": tailStr(firstLine(r.Stderr, "fatal error", "panic"), 100)})
			return t
		case r.Panic != "":
			sites[i] = c01Site(r.PanicStack)
			where := "parse"
			if r.Phase == "lex" {
				where = "lex"
			}
			t.Ev = append(t.Ev, c01Event{"e": "crash", "where": where, "what": tailStr(r.Panic, 100)})
			return t
		case r.ParseErr != "":
			// "own": the diagnostic's position refers to the input itself (it may also refer to a file the parser
			// loaded on the way, or -- for an error raised by the host -- to the Go source line that raised it)
			own := 0
			if r.File != "" && r.ParseSrc == r.File {
				own = 1
				diagOwn++
			} else if r.ParseSrc == "" {
				diagNoPos++
			} else {
				diagElsewhere++
			}
			t.Ev = append(t.Ev, c01Event{"e": "parse_err", "line": r.ParseLine, "col": r.ParseCol, "own": own})
			return t
		}
		t.Ev = append(t.Ev, c01Event{"e": "parse_ok"})
		rr, ran := runRes[i]
		switch {
		case !ran:
			t.Ev = append(t.Ev, c01Event{"e": "run", "kind": "not_run"})
		case rr.Hang:
			t.Ev = append(t.Ev, c01Event{"e": "run", "kind": "loops"})
		case rr.Died:
			sites[i] = c01Site(rr.Stderr)
			t.Ev = append(t.Ev, c01Event{"e": "crash", "where": "run", "what": tailStr(firstLine(rr.Stderr, "fatal error", "panic"), 100)})
		case rr.Panic != "":
			sites[i] = c01Site(rr.PanicStack)
			t.Ev = append(t.Ev, c01Event{"e": "crash", "where": "run", "what": tailStr(rr.Panic, 100)})
		case rr.Uncaught != "":
			t.Ev = append(t.Ev, c01Event{"e": "run", "kind": "script_error"})
		default:
			t.Ev = append(t.Ev, c01Event{"e": "run", "kind": "output"})
		}
		return t
	}
	// ------------------------------------------------------------ validate against Front.tla (in chunks)
	accepted, rejected := 0, 0
	outcome := map[string]int{}
	const chunk = 40000
	for b0 := 0; b0 < len(inputs); b0 += chunk {
		b1 := b0 + chunk
		if b1 > len(inputs) {
			b1 = len(inputs)
		}
		var buf bytes.Buffer
		enc := json.NewEncoder(&buf)
		for i := b0; i < b1; i++ {
			t := mk(i)
			last := t.Ev[len(t.Ev)-1]
			outcome[fmt.Sprint(last["e"], ":", last["kind"], last["where"])]++
			enc.Encode(t)
		}
		res := runTLC(rep, tlc.Run{SpecDir: c.SpecDir(), Module: "Front", Cfg: "Front.cfg", Workers: 8, Timeout: 30 * time.Minute, Stack: "512m",
			Files: map[string][]byte{"trace.ndjson": buf.Bytes()}})
		if res == nil {
			return rep
		}
		addTLC(rep, res)
		if res.Violated != "" {
			rep.Infraf("spec Front: %s violated\n%s", res.Violated, res.Tail(20))
			return rep
		}
		accepted += len(res.Tagged["ACCEPT"])
		if len(res.Tagged["ACCEPT"])+len(res.Tagged["REJECT"]) != b1-b0 {
			rep.Infraf("Front: %d traces, %d accepted + %d rejected", b1-b0, len(res.Tagged["ACCEPT"]), len(res.Tagged["REJECT"]))
		}
		for _, raw := range res.Tagged["REJECT"] {
			var r struct {
				Id    string
				At    int
				Why   string
				Event map[string]any
				Phase string
			}
			must(json.Unmarshal(raw, &r))
			var i int
			fmt.Sscan(r.Id, &i)
			rejected++
			in := inputs[i]
			id := fmt.Sprintf("C01/%s/%s", strings.ReplaceAll(r.Why, " ", "-"), in.id)
			key := strings.ReplaceAll(r.Why, " ", "-")
			if s, ok := sites[i]; ok && s != "unknown" {
				id = fmt.Sprintf("C01/%s/site=%s", strings.ReplaceAll(r.Why, " ", "-"), s)
			} else if strings.HasPrefix(r.Why, "timeout") {
				id = fmt.Sprintf("C01/%s/%s/shape=%s", strings.ReplaceAll(r.Why, " ", "-"), in.id, c01Shape(in))
			}
			rep.Add(kf.Mismatch{ID: id, Expected: "a program or a positioned diagnostic (and a run that ends in output, a script error or exit)",
				Observed: map[string]any{"rejected_at_event": r.At, "why": r.Why, "event": r.Event, "phase": r.Phase, "input": in.detail, "family": in.id, "diagnostic": tailStr(rs[i].ParseErr, 300), "diagnostic_file": rs[i].ParseSrc, "parsed_as": rs[i].File},
				ObsKey:   key, Input: map[string]any{"b64": jobs[i].B64, "template": in.template, "source": tailStr(in.src, 300)}})
		}
	}
	rep.Coverage["evaluations"] = len(inputs) + len(runIdx)
	rep.Coverage["traces_validated_against_impl"] = len(inputs)
	rep.Coverage["traces_accepted"] = accepted
	rep.Coverage["traces_rejected"] = rejected
	rep.Coverage["diagnostics_positioned_in_the_input"] = diagOwn
	rep.Coverage["diagnostics_positioned_in_another_file_or_host_source"] = diagElsewhere
	rep.Coverage["diagnostics_without_source_file"] = diagNoPos
	rep.Coverage["inputs_sourcegen"] = nSourceGen
	rep.Coverage["inputs_sourcegen_long"] = nLong
	rep.Coverage["inputs_corpus_mutants"] = nCorpusMut
	rep.Coverage["inputs_corpus_mutants_crlf"] = nCorpusCRLF
	rep.Coverage["inputs_corpus_mutants_script_mode"] = nCorpusScript
	rep.Coverage["inputs_generated_program_mutants"] = nGenMut
	rep.Coverage["inputs_byte_mutants"] = len(inputs) - base
	rep.Coverage["programs_run_after_accept"] = len(runIdx)
	rep.Coverage["final_modes_of_sourcegen_inputs"] = finalModes
	rep.Coverage["sourcegen_inputs_ending_with_open_brackets"] = openEnded
	rep.Coverage["outcomes"] = outcome
	rep.Coverage["distinct_nontrivial"] = nSourceGen + nLong + nCorpusMut + nCorpusCRLF + nCorpusScript + nGenMut
	rep.Coverage["exhaustive"] = false
	rep.Coverage["rule"] = "SourceGen.tla: every fragment sequence up to length 3 over the 37-fragment core alphabet (thorough: 65 fragments) in both lexing modes, plus TLC -simulate walks up to 8 fragments; corpus: token-boundary prefixes, single-token deletions and duplications of the 331 corpus files at seeded positions (quick 12 per file, thorough 400 = nearly all), of their CRLF forms (a third of the positions) and, for pure-code .php files, of the script-mode source without the opening tag in LF and CRLF form (a sixth each); the same mutations of generated side-effect-free programs, which are also run when accepted; seeded byte-level mutants; non-trivial = structured inputs (byte mutants not counted)"
	if len(inputs) > 3 {
		rep.Coverage["samples"] = []any{map[string]any{"family": inputs[100].id, "fragments": inputs[100].detail, "source": inputs[100].src},
			map[string]any{"family": inputs[nSourceGen+nLong].id, "what": inputs[nSourceGen+nLong].detail, "source_tail": tailStr(inputs[nSourceGen+nLong].src, 200)}}
	}
	return rep
}

// c01Shape abstracts an input for grouping timeouts: the last fragments / the tail of the source, letters and digits folded.
func c01Shape(in c01Input) string {
	if strings.HasPrefix(in.id, "sourcegen") {
		f := strings.Fields(in.detail)
		if len(f) > 3 {
			f = f[len(f)-3:]
		}
		return strings.Join(f, "_")
	}
	t := strings.TrimSpace(in.src)
	if len(t) > 24 {
		t = t[len(t)-24:]
	}
	var sb strings.Builder
	for _, r := range t {
		switch {
		case r >= 'a' && r <= 'z' || r >= 'A' && r <= 'Z':
			if !strings.HasSuffix(sb.String(), "a") {
				sb.WriteByte('a')
			}
		case r >= '0' && r <= '9':
			if !strings.HasSuffix(sb.String(), "0") {
				sb.WriteByte('0')
			}
		case r == ' ' || r == '\n' || r == '\t' || r == '\r':
		case r == '/' || r == '*':
			sb.WriteByte('~')
		default:
			sb.WriteRune(r)
		}
	}
	return sb.String()
}

func firstLine(s string, keys ...string) string {
	for _, l := range strings.Split(s, "\n") {
		for _, k := range keys {
			if strings.Contains(l, k) {
				return l
			}
		}
	}
	return tailStr(s, 100)
}
