package props

import (
	"bufio"
	"bytes"
	"encoding/base64"
	"encoding/json"
	"fmt"
	"io"
	"os"
	"os/exec"
	"runtime"
	"runtime/debug"
	"sync"
	"syscall"
	"time"

	"github.com/php-any/origami/lexer"
	"github.com/php-any/origami/parser"

	"verif/rt"
)

// Script jobs run in subprocess workers: a hang or a fatal runtime error of the interpreter under
// test kills one worker, is recorded as the job's outcome, and the worker is restarted.

type Job struct {
	Src      string `json:"src"`
	B64      string `json:"b64,omitempty"` // source as base64 (arbitrary bytes); overrides Src
	Template bool   `json:"template,omitempty"`
	NoRun    bool   `json:"norun,omitempty"`
	Front    bool   `json:"front,omitempty"` // C01: also tokenize separately and record the statement-loop iterations
	LimitMs  int    `json:"-"`               // per-job limit (0: the limit given to RunJobs)
}

type JobResult struct {
	rt.Result
	Hang   bool   `json:"hang,omitempty"`   // did not finish within the per-job limit (worker killed)
	Died   bool   `json:"died,omitempty"`   // worker process died while running the job
	Stderr string `json:"stderr,omitempty"` // tail of the worker's stderr when it died
	// Front mode
	Ntok     int      `json:"ntok,omitempty"`
	LexPanic string   `json:"lex_panic,omitempty"`
	LexStack string   `json:"lex_stack,omitempty"`
	Iters    [][4]int `json:"iters,omitempty"` // before, after, ntok, nil-statement
	Stage    string   `json:"stage,omitempty"` // last stage entered: lex | parse | run (read from the progress line when the worker dies)
}

func init() { Workers["script"] = scriptWorker }

func scriptWorker() {
	rt.RunTimeout = time.Hour // the parent enforces the limit
	in := bufio.NewReaderSize(os.Stdin, 1<<20)
	out := bufio.NewWriter(os.Stdout)
	for {
		line, err := in.ReadBytes('\n')
		if len(line) > 0 {
			var j Job
			if json.Unmarshal(line, &j) == nil {
				if j.B64 != "" {
					raw, _ := base64.StdEncoding.DecodeString(j.B64)
					j.Src = string(raw)
				}
				var jr JobResult
				if j.Front {
					frontLex(&j, &jr, out)
				}
				r := rt.Run(j.Src, rt.Opts{Template: j.Template, NoRun: j.NoRun})
				parser.VerifParseIter = nil
				r.PanicStack = tailStr(r.PanicStack, 1500)
				jr.Result = r
				b, _ := json.Marshal(jr)
				out.WriteString(resMarker)
				out.Write(b)
				out.WriteByte('\n')
				out.Flush()
			}
		}
		if err != nil {
			return
		}
	}
}

// frontLex tokenizes the source on its own (recovering a lexer panic) and installs the statement-loop hook.
func frontLex(j *Job, jr *JobResult, out *bufio.Writer) {
	func() {
		defer func() {
			if r := recover(); r != nil {
				jr.LexPanic = fmt.Sprint(r)
				jr.LexStack = tailStr(string(debug.Stack()), 2500)
			}
		}()
		if j.Template {
			jr.Ntok = len(lexer.NewLexer().TokenizeTemplate(j.Src))
		} else {
			jr.Ntok = len(lexer.NewLexer().Tokenize(j.Src))
		}
	}()
	// progress line: if the worker dies or hangs later, the parent knows the lexer had returned
	fmt.Fprintf(out, "%slexed %d\n", progMarker, jr.Ntok)
	out.Flush()
	parser.VerifParseIter = func(before, after, ntok int, nilStmt bool) {
		n := 0
		if nilStmt {
			n = 1
		}
		if len(jr.Iters) < 64 {
			jr.Iters = append(jr.Iters, [4]int{before, after, ntok, n})
		}
	}
}

const progMarker = "\x01VERIF-PROGRESS "

// resMarker prefixes protocol lines: the interpreter under test may print to stdout on its own.
const resMarker = "\x01VERIF-RESULT "

func tailStr(s string, n int) string {
	if len(s) > n {
		return s[:n]
	}
	return s
}

type poolWorker struct {
	cmd    *exec.Cmd
	stdin  io.WriteCloser
	stdout *bufio.Reader
	stderr *tailBuf
}

type tailBuf struct {
	mu   sync.Mutex
	buf  []byte
	head bool // keep the first bytes instead of the last (goroutine dump after SIGQUIT: the running goroutine comes first)
}

func (t *tailBuf) Write(p []byte) (int, error) {
	t.mu.Lock()
	defer t.mu.Unlock()
	if t.head {
		if len(t.buf) < 12000 {
			t.buf = append(t.buf, p...)
		}
		return len(p), nil
	}
	t.buf = append(t.buf, p...)
	if len(t.buf) > 8000 {
		t.buf = t.buf[len(t.buf)-4000:]
	}
	return len(p), nil
}

func (t *tailBuf) headMode() { t.mu.Lock(); t.buf, t.head = nil, true; t.mu.Unlock() }
func (t *tailBuf) String() string { t.mu.Lock(); defer t.mu.Unlock(); return string(t.buf) }

// startWorker starts one worker process whose temp directory is tmp (a directory no other worker uses).
func startWorker(self, tmp string) (*poolWorker, error) {
	cmd := exec.Command(self, "-worker", "script")
	if tmp != "" {
		os.RemoveAll(tmp) // what a killed predecessor left behind
		if err := os.MkdirAll(tmp, 0o755); err != nil {
			return nil, err
		}
		cmd.Env = append(os.Environ(), "TMPDIR="+tmp)
	}
	stdin, err := cmd.StdinPipe()
	if err != nil {
		return nil, err
	}
	so, err := cmd.StdoutPipe()
	if err != nil {
		return nil, err
	}
	tb := &tailBuf{}
	cmd.Stderr = tb
	if err := cmd.Start(); err != nil {
		return nil, err
	}
	return &poolWorker{cmd: cmd, stdin: stdin, stdout: bufio.NewReaderSize(so, 1<<20), stderr: tb}, nil
}

func (w *poolWorker) kill() {
	if w != nil && w.cmd.Process != nil {
		w.cmd.Process.Kill()
		w.cmd.Wait()
	}
}

func jobLimit(j Job, def time.Duration) time.Duration {
	if j.LimitMs > 0 {
		return time.Duration(j.LimitMs) * time.Millisecond
	}
	return def
}

// RunJobs runs all jobs on n workers (0 = number of CPUs) with a per-job limit.
func RunJobs(self string, jobs []Job, n int, limit time.Duration) ([]JobResult, error) {
	if n <= 0 {
		n = runtime.NumCPU()
	}
	if n > len(jobs) {
		n = len(jobs)
	}
	res := make([]JobResult, len(jobs))
	// one temp directory per worker, removed with the pool: the interpreter under test looks at the directory
	// of the file it parses (annotation-driven scans, require relative to __DIR__), so workers must not share one
	poolTmp, err := os.MkdirTemp("", "verif-pool-")
	if err != nil {
		return nil, err
	}
	defer os.RemoveAll(poolTmp)
	var next int
	var mu sync.Mutex
	var wg sync.WaitGroup
	var firstErr error
	for wi := 0; wi < n; wi++ {
		wg.Add(1)
		wtmp := fmt.Sprintf("%s/w%d", poolTmp, wi)
		go func() {
			defer wg.Done()
			var w *poolWorker
			defer func() { w.kill() }()
			for {
				mu.Lock()
				i := next
				next++
				mu.Unlock()
				if i >= len(jobs) {
					return
				}
				if w == nil {
					var err error
					if w, err = startWorker(self, wtmp); err != nil {
						mu.Lock()
						firstErr = err
						mu.Unlock()
						return
					}
				}
				b, _ := json.Marshal(jobs[i])
				w.stdin.Write(append(b, '\n'))
				type rd struct {
					line []byte
					err  error
				}
				ch := make(chan rd, 1)
				var pmu sync.Mutex
				lexed, lexedN := false, 0
				go func(r *bufio.Reader) {
					for {
						l, e := r.ReadBytes('\n')
						if e == nil && bytes.Contains(l, []byte(progMarker)) {
							pmu.Lock()
							lexed = true
							fmt.Sscanf(string(l[bytes.Index(l, []byte(progMarker))+len(progMarker):]), "lexed %d", &lexedN)
							pmu.Unlock()
							continue
						}
						if e == nil && !bytes.Contains(l, []byte(resMarker)) {
							continue // stray output of the interpreter
						}
						if e == nil {
							l = l[bytes.Index(l, []byte(resMarker))+len(resMarker):]
						}
						ch <- rd{l, e}
						return
					}
				}(w.stdout)
				select {
				case r := <-ch:
					if r.err != nil || json.Unmarshal(r.line, &res[i]) != nil {
						w.kill()
						res[i].Died = true
						res[i].Stderr = tailStr(w.stderr.String(), 3000)
						w = nil
					}
				case <-time.After(jobLimit(jobs[i], limit)):
					res[i].Hang = true
					if jobs[i].Front {
						// ask the Go runtime for a goroutine dump: where is the front end looping?
						w.stderr.headMode()
						w.cmd.Process.Signal(syscall.SIGQUIT)
						exited := make(chan struct{})
						go func(c *exec.Cmd) { c.Wait(); close(exited) }(w.cmd)
						select {
						case <-exited:
						case <-time.After(3 * time.Second):
						}
						res[i].Stderr = w.stderr.String()
					}
					w.kill()
					w = nil
				}
				if res[i].Hang || res[i].Died {
					pmu.Lock()
					if lexed {
						res[i].Stage, res[i].Ntok = "parse", lexedN
					} else if jobs[i].Front {
						res[i].Stage = "lex"
					}
					pmu.Unlock()
				}
			}
		}()
	}
	wg.Wait()
	if firstErr != nil {
		return res, fmt.Errorf("worker: %v", firstErr)
	}
	return res, nil
}
