package props

import (
	"bufio"
	"bytes"
	"encoding/json"
	"fmt"
	"io"
	"os"
	"os/exec"
	"runtime"
	"sync"
	"time"

	"verif/rt"
)

// Script jobs run in subprocess workers: a hang or a fatal runtime error of the interpreter under
// test kills one worker, is recorded as the job's outcome, and the worker is restarted.

type Job struct {
	Src      string `json:"src"`
	Template bool   `json:"template,omitempty"`
	NoRun    bool   `json:"norun,omitempty"`
}

type JobResult struct {
	rt.Result
	Hang   bool   `json:"hang,omitempty"`   // did not finish within the per-job limit (worker killed)
	Died   bool   `json:"died,omitempty"`   // worker process died while running the job
	Stderr string `json:"stderr,omitempty"` // tail of the worker's stderr when it died
}

func init() { Workers["script"] = scriptWorker }

func scriptWorker() {
	rt.RunTimeout = time.Hour // the parent enforces the limit
	in := bufio.NewReaderSize(os.Stdin, 1<<20)
	out := bufio.NewWriter(os.Stdout)
	for {
		line, err := in.ReadBytes('\n')
		if len(line) > 0 {
			var j Job
			if json.Unmarshal(line, &j) == nil {
				r := rt.Run(j.Src, rt.Opts{Template: j.Template, NoRun: j.NoRun})
				r.PanicStack = tailStr(r.PanicStack, 1500)
				b, _ := json.Marshal(r)
				out.WriteString(resMarker)
				out.Write(b)
				out.WriteByte('\n')
				out.Flush()
			}
		}
		if err != nil {
			return
		}
	}
}

// resMarker prefixes protocol lines: the interpreter under test may print to stdout on its own.
const resMarker = "\x01VERIF-RESULT "

func tailStr(s string, n int) string {
	if len(s) > n {
		return s[:n]
	}
	return s
}

type poolWorker struct {
	cmd    *exec.Cmd
	stdin  io.WriteCloser
	stdout *bufio.Reader
	stderr *tailBuf
}

type tailBuf struct {
	mu  sync.Mutex
	buf []byte
}

func (t *tailBuf) Write(p []byte) (int, error) {
	t.mu.Lock()
	defer t.mu.Unlock()
	t.buf = append(t.buf, p...)
	if len(t.buf) > 8000 {
		t.buf = t.buf[len(t.buf)-4000:]
	}
	return len(p), nil
}
func (t *tailBuf) String() string { t.mu.Lock(); defer t.mu.Unlock(); return string(t.buf) }

func startWorker(self string) (*poolWorker, error) {
	cmd := exec.Command(self, "-worker", "script")
	stdin, err := cmd.StdinPipe()
	if err != nil {
		return nil, err
	}
	so, err := cmd.StdoutPipe()
	if err != nil {
		return nil, err
	}
	tb := &tailBuf{}
	cmd.Stderr = tb
	if err := cmd.Start(); err != nil {
		return nil, err
	}
	return &poolWorker{cmd: cmd, stdin: stdin, stdout: bufio.NewReaderSize(so, 1<<20), stderr: tb}, nil
}

func (w *poolWorker) kill() {
	if w != nil && w.cmd.Process != nil {
		w.cmd.Process.Kill()
		w.cmd.Wait()
	}
}

// RunJobs runs all jobs on n workers (0 = number of CPUs) with a per-job limit.
func RunJobs(self string, jobs []Job, n int, limit time.Duration) ([]JobResult, error) {
	if n <= 0 {
		n = runtime.NumCPU()
	}
	if n > len(jobs) {
		n = len(jobs)
	}
	res := make([]JobResult, len(jobs))
	var next int
	var mu sync.Mutex
	var wg sync.WaitGroup
	var firstErr error
	for wi := 0; wi < n; wi++ {
		wg.Add(1)
		go func() {
			defer wg.Done()
			var w *poolWorker
			defer func() { w.kill() }()
			for {
				mu.Lock()
				i := next
				next++
				mu.Unlock()
				if i >= len(jobs) {
					return
				}
				if w == nil {
					var err error
					if w, err = startWorker(self); err != nil {
						mu.Lock()
						firstErr = err
						mu.Unlock()
						return
					}
				}
				b, _ := json.Marshal(jobs[i])
				w.stdin.Write(append(b, '\n'))
				type rd struct {
					line []byte
					err  error
				}
				ch := make(chan rd, 1)
				go func(r *bufio.Reader) {
					for {
						l, e := r.ReadBytes('\n')
						if e == nil && !bytes.Contains(l, []byte(resMarker)) {
							continue // stray output of the interpreter
						}
						if e == nil {
							l = l[bytes.Index(l, []byte(resMarker))+len(resMarker):]
						}
						ch <- rd{l, e}
						return
					}
				}(w.stdout)
				select {
				case r := <-ch:
					if r.err != nil || json.Unmarshal(r.line, &res[i].Result) != nil {
						w.kill()
						res[i].Died = true
						res[i].Stderr = tailStr(w.stderr.String(), 3000)
						w = nil
					}
				case <-time.After(limit):
					res[i].Hang = true
					w.kill()
					w = nil
				}
			}
		}()
	}
	wg.Wait()
	if firstErr != nil {
		return res, fmt.Errorf("worker: %v", firstErr)
	}
	return res, nil
}
