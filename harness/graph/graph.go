// Package graph rebuilds the labelled state graph a spec printed as INIT/EDGE lines and
// enumerates paths through it for the replay engine (DESIGN.md §2, direction A).
package graph

import (
	"bytes"
	"encoding/json"
	"fmt"
	"math/rand"
)

// Edge is one labelled transition of the spec.
type Edge struct {
	From, To string          // canonical JSON text of the states
	Act      json.RawMessage // action label with arguments
	ToState  json.RawMessage
}

// Graph of a history-free spec.
type Graph struct {
	Init   []string
	States map[string]json.RawMessage
	Out    map[string][]Edge
	NEdges int
}

// Canon re-marshals a JSON document with sorted keys.
func Canon(raw json.RawMessage) (string, error) {
	var v any
	d := json.NewDecoder(bytes.NewReader(raw))
	d.UseNumber()
	if err := d.Decode(&v); err != nil {
		return "", err
	}
	b, err := json.Marshal(v)
	return string(b), err
}

// Build constructs the graph from tagged TLC lines.
func Build(inits, edges []json.RawMessage) (*Graph, error) {
	g := &Graph{States: map[string]json.RawMessage{}, Out: map[string][]Edge{}}
	for _, r := range inits {
		k, err := Canon(r)
		if err != nil {
			return nil, fmt.Errorf("INIT: %v", err)
		}
		if _, ok := g.States[k]; !ok {
			g.Init = append(g.Init, k)
		}
		g.States[k] = r
	}
	seen := map[string]bool{}
	for _, r := range edges {
		var e struct{ From, Act, To json.RawMessage }
		if err := json.Unmarshal(r, &e); err != nil {
			return nil, fmt.Errorf("EDGE: %v: %.200s", err, r)
		}
		f, err := Canon(e.From)
		if err != nil {
			return nil, err
		}
		t, err := Canon(e.To)
		if err != nil {
			return nil, err
		}
		a, err := Canon(e.Act)
		if err != nil {
			return nil, err
		}
		key := f + "|" + a + "|" + t
		if seen[key] {
			continue
		}
		seen[key] = true
		g.States[f] = e.From
		g.States[t] = e.To
		g.Out[f] = append(g.Out[f], Edge{From: f, To: t, Act: e.Act, ToState: e.To})
		g.NEdges++
	}
	return g, nil
}

// AllPaths calls fn for every maximal path from every initial state (a path ends at a state without
// outgoing edges or at maxDepth). fn returns false to stop. The path slice is reused.
func (g *Graph) AllPaths(maxDepth int, fn func(init string, path []Edge) bool) {
	var path []Edge
	var rec func(init, s string) bool
	rec = func(init, s string) bool {
		out := g.Out[s]
		if len(out) == 0 || len(path) >= maxDepth {
			return fn(init, path)
		}
		for _, e := range out {
			path = append(path, e)
			ok := rec(init, e.To)
			path = path[:len(path)-1]
			if !ok {
				return false
			}
		}
		return true
	}
	for _, i := range g.Init {
		if !rec(i, i) {
			return
		}
	}
}

// RandomPath walks random edges from a random initial state until a leaf or maxDepth.
func (g *Graph) RandomPath(rng *rand.Rand, maxDepth int) (string, []Edge) {
	if len(g.Init) == 0 {
		return "", nil
	}
	s := g.Init[rng.Intn(len(g.Init))]
	init := s
	var path []Edge
	for len(path) < maxDepth {
		out := g.Out[s]
		if len(out) == 0 {
			break
		}
		e := out[rng.Intn(len(out))]
		path = append(path, e)
		s = e.To
	}
	return init, path
}
