package main

import (
	"encoding/json"
	"fmt"
	"io"
	"os"
	"time"

	"verif/rt"
)

func main() {
	src, _ := io.ReadAll(os.Stdin)
	t := time.Now()
	r := rt.Run(string(src), rt.Opts{Template: len(os.Args) > 1 && os.Args[1] == "php"})
	b, _ := json.MarshalIndent(r, "", " ")
	fmt.Println(string(b), time.Since(t))
}
