package main

import (
	"fmt"
	"io"
	"net/http"
	"net/http/httptest"
	"os"
	"strings"

	"verif/rt"
)

func main() {
	src, _ := io.ReadAll(os.Stdin)
	var sb strings.Builder
	restore := rt.CaptureOutput(&sb)
	defer restore()
	s := rt.NewSession()
	r := s.Exec(string(src), "/verif-virtual/probe.zy")
	fmt.Fprintf(os.Stderr, "exec: %+v out=%q\n", r, sb.String())
	sv, _ := s.Var("server").(interface{ GetSource() any })
	if sv == nil {
		return
	}
	mux := sv.GetSource().(*http.ServeMux)
	for _, u := range os.Args[1:] {
		req := httptest.NewRequest("POST", u, strings.NewReader("pw=PP&x=bodyx"))
		req.Header.Set("Content-Type", "application/x-www-form-urlencoded")
		req.Header.Set("X-Who", "HH")
		req.AddCookie(&http.Cookie{Name: "cw", Value: "CC"})
		rec := httptest.NewRecorder()
		func() {
			defer func() {
				if r := recover(); r != nil {
					fmt.Fprintf(os.Stderr, "panic: %v\n", r)
				}
			}()
			mux.ServeHTTP(rec, req)
		}()
		fmt.Fprintf(os.Stderr, "%s -> %d %q out=%q\n", u, rec.Code, rec.Body.String(), sb.String())
	}
}
