package main

import (
	"encoding/json"
	"fmt"
	"io"
	"os"

	"verif/rt"
)

func main() {
	src, _ := io.ReadAll(os.Stdin)
	r := rt.Run(string(src), rt.Opts{Template: len(os.Args) > 1 && os.Args[1] == "php"})
	r.PanicStack = ""
	b, _ := json.MarshalIndent(r, "", " ")
	fmt.Println(string(b))
}
