package main
import ("fmt";"os";"strings";"github.com/php-any/origami/lexer")
func main(){ b,_:=os.ReadFile(os.Args[1]); src:=string(b); var ts []lexer.Token
 if strings.Contains(src,"<?php") { ts=lexer.NewLexer().TokenizeTemplate(src) } else { ts=lexer.NewLexer().Tokenize(src) }
 for _,t:=range ts { fmt.Printf("%d-%d line=%d nl=%d type=%d %q\n", t.Start(), t.End(), t.Line(), strings.Count(src[:t.Start()],"\n"), t.Type(), t.Literal()) } }
