// vcheck is the single entry point of the /verif machinery:
//
//	vcheck -prop C13 -tier quick|thorough [-seed N] [-replay path]
package main

import (
	"flag"
	"fmt"
	"os"
	"path/filepath"
	"strconv"
	"time"

	"verif/kf"
	"verif/props"
)

func main() {
	prop := flag.String("prop", "", "property id")
	tier := flag.String("tier", "quick", "quick|thorough")
	seed := flag.Int64("seed", -1, "seed (default VERIF_SEED or 1)")
	replay := flag.String("replay", "", "replay file")
	verif := flag.String("verif", "/verif", "verif dir")
	worker := flag.String("worker", "", "internal: run as subprocess worker of the given kind")
	flag.Parse()
	if *worker != "" {
		props.RunWorker(*worker)
		return
	}
	if *seed < 0 {
		*seed = 1
		if s := os.Getenv("VERIF_SEED"); s != "" {
			if n, err := strconv.ParseInt(s, 10, 64); err == nil {
				*seed = n
			}
		}
	}
	if t := os.Getenv("VERIF_TIER"); t != "" && !isFlagSet("tier") {
		*tier = t
	}
	d, ok := props.Registry[*prop]
	if !ok {
		fmt.Fprintln(os.Stderr, "unknown property", *prop)
		os.Exit(2)
	}
	self, _ := os.Executable()
	self, _ = filepath.Abs(self)
	t0 := time.Now()
	c := &props.Ctx{Tier: *tier, Seed: *seed, VerifDir: *verif, Self: self, Replay: *replay}
	var rep *kf.Report
	func() {
		defer func() {
			if r := recover(); r != nil {
				rep = &kf.Report{Property: *prop, Level: "model_checking"}
				rep.Infraf("driver panic: %v", r)
				panic(r)
			}
		}()
		rep = d(c)
	}()
	os.Exit(kf.Finish(*verif, *tier, *seed, t0, rep))
}

func isFlagSet(name string) bool {
	set := false
	flag.Visit(func(f *flag.Flag) {
		if f.Name == name {
			set = true
		}
	})
	return set
}
