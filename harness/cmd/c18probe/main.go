package main

import (
	"fmt"
	"os"
	"path/filepath"
	"sort"
	"strings"

	"github.com/php-any/origami/lexer"
)

func main() {
	counts := map[string]int{}
	ex := map[string]string{}
	files := 0
	toks := 0
	for _, root := range os.Args[1:] {
		filepath.Walk(root, func(p string, info os.FileInfo, err error) error {
			if err != nil || info.IsDir() || !(strings.HasSuffix(p, ".php") || strings.HasSuffix(p, ".zy")) {
				return nil
			}
			b, _ := os.ReadFile(p)
			src := string(b)
			var ts []lexer.Token
			func() {
				defer func() {
					if r := recover(); r != nil {
						counts["PANIC"]++
						ex["PANIC"] = p + ": " + fmt.Sprint(r)
					}
				}()
				if strings.Contains(src, "<?php") {
					ts = lexer.NewLexer().TokenizeTemplate(src)
				} else {
					ts = lexer.NewLexer().Tokenize(src)
				}
			}()
			files++
			prevEnd := 0
			for _, t := range ts {
				toks++
				note := func(k string) {
					k = fmt.Sprintf("%s type=%d", k, t.Type())
					counts[k]++
					if _, ok := ex[k]; !ok {
						ex[k] = fmt.Sprintf("%s @%d-%d line %d lit=%.30q", p, t.Start(), t.End(), t.Line(), t.Literal())
					}
				}
				if t.Start() < 0 || t.End() > len(src) || t.Start() > t.End() {
					note("out-of-bounds")
					continue
				}
				if t.Start() < prevEnd {
					note("overlap")
				}
				if t.End() > prevEnd {
					prevEnd = t.End()
				}
				if t.Line() != strings.Count(src[:t.Start()], "\n") {
					note(fmt.Sprintf("line-off(%+d)", t.Line()-strings.Count(src[:t.Start()], "\n")))
				}
				if src[t.Start():t.End()] != t.Literal() {
					note("text-differs")
				} else {
					counts[fmt.Sprintf("text-same type=%d", t.Type())]++
				}
			}
			return nil
		})
	}
	fmt.Println("files", files, "tokens", toks)
	var ks []string
	for k := range counts {
		ks = append(ks, k)
	}
	sort.Strings(ks)
	for _, k := range ks {
		if strings.HasPrefix(k, "text-same") {
			continue
		}
		fmt.Printf("%6d %s   e.g. %s\n", counts[k], k, ex[k])
	}
}
