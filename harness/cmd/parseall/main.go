// Dev tool: parse (do not run) every corpus file and print accept / reject, to compare parser changes.
package main

import (
	"fmt"
	"os"
	"path/filepath"
	"sort"
	"strings"

	"verif/rt"
)

func main() {
	var files []string
	for _, root := range os.Args[1:] {
		filepath.Walk(root, func(p string, info os.FileInfo, err error) error {
			if err == nil && !info.IsDir() && (strings.HasSuffix(p, ".php") || strings.HasSuffix(p, ".zy")) {
				files = append(files, p)
			}
			return nil
		})
	}
	sort.Strings(files)
	for _, f := range files {
		b, _ := os.ReadFile(f)
		r := rt.Run(string(b), rt.Opts{Template: strings.HasSuffix(f, ".php"), NoRun: true})
		st := "ok"
		if r.ParseErr != "" {
			st = "reject: " + r.ParseErr
			if len(st) > 120 {
				st = st[:120]
			}
		}
		if r.Panic != "" {
			st = "panic: " + r.Panic
		}
		fmt.Printf("%s\t%s\n", f, strings.ReplaceAll(st, "\n", " "))
	}
}
