package main

import (
	"encoding/json"
	"fmt"
	"verif/lang"
)

func main() {
	for _, p := range lang.EnumLoops(false)[:3] {
		b, _ := json.Marshal(p.JSON())
		fmt.Println(string(b))
	}
}
