// Package tlc runs the TLC model checker on a spec from /verif/spec in a scratch directory
// and parses its statistics and the tagged JSON lines the specs print.
package tlc

import (
	"bufio"
	"bytes"
	"context"
	"encoding/json"
	"fmt"
	"os"
	"os/exec"
	"path/filepath"
	"regexp"
	"strconv"
	"strings"
	"syscall"
	"time"
)

// Run describes one TLC invocation.
type Run struct {
	SpecDir    string            // directory holding the .tla/.cfg files (copied to scratch)
	Module     string            // module name (file Module.tla)
	Cfg        string            // cfg file name (relative to SpecDir)
	Workers    int               // 0 = auto
	Timeout    time.Duration     // hard limit (SIGKILL)
	Simulate   string            // e.g. "num=100" ; empty = exhaustive
	Depth      int               // -depth for simulate
	Seed       int64             // -seed (simulate) / -fp index
	Extra      []string          // extra args
	Files      map[string][]byte // extra files written into the scratch dir (traces, cases)
	Consts     map[string]string // text substitutions applied to the cfg: "@@NAME@@" -> value
	DFS        bool              // use StateDeque (depth-first queue)
	Coverage   bool
	NoDeadlock bool
	Stack      string // -Xss value
}

// Result of a TLC run.
type Result struct {
	ExitCode  int
	Generated int64
	Distinct  int64
	Diameter  int
	Tagged    map[string][]json.RawMessage // tag -> JSON docs printed as <<"TAG", "json">>
	Errors    []string                     // lines following "Error:"
	Violated  string                       // invariant / property name if violated
	Raw       string
	Wall      time.Duration
	ZeroCov   []string // action names with zero coverage (if Coverage)
	Cmd       string
}

var (
	reStats   = regexp.MustCompile(`(\d+) states generated, (\d+) distinct states found`)
	reDiam    = regexp.MustCompile(`The depth of the complete state graph search is (\d+)`)
	reInv     = regexp.MustCompile(`Invariant (\S+) is violated`)
	reProp    = regexp.MustCompile(`(?:Action|Temporal) property (\S+) (?:is|was) violated`)
	reTagged  = regexp.MustCompile(`^<<"([A-Z_]+)", "(.*)">>$`)
	reCovZero = regexp.MustCompile(`^<(\w+) line .*>: 0:0$`)
)

// Unescape turns the TLA+ string literal body printed by TLC into the raw string.
func Unescape(s string) string {
	var b strings.Builder
	for i := 0; i < len(s); i++ {
		c := s[i]
		if c == '\\' && i+1 < len(s) {
			i++
			switch s[i] {
			case 'n':
				b.WriteByte('\n')
			case 't':
				b.WriteByte('\t')
			case 'r':
				b.WriteByte('\r')
			case 'f':
				b.WriteByte('\f')
			default:
				b.WriteByte(s[i])
			}
			continue
		}
		b.WriteByte(c)
	}
	return b.String()
}

// Exec runs TLC.
func Exec(r Run) (*Result, error) {
	scratch, err := os.MkdirTemp("", "verif-tlc-")
	if err != nil {
		return nil, err
	}
	defer os.RemoveAll(scratch)
	ents, err := os.ReadDir(r.SpecDir)
	if err != nil {
		return nil, err
	}
	for _, e := range ents {
		if e.IsDir() {
			continue
		}
		n := e.Name()
		if !(strings.HasSuffix(n, ".tla") || n == r.Cfg) {
			continue
		}
		b, err := os.ReadFile(filepath.Join(r.SpecDir, n))
		if err != nil {
			return nil, err
		}
		if n == r.Cfg {
			s := string(b)
			for k, v := range r.Consts {
				s = strings.ReplaceAll(s, "@@"+k+"@@", v)
			}
			b = []byte(s)
		}
		if err := os.WriteFile(filepath.Join(scratch, n), b, 0o644); err != nil {
			return nil, err
		}
	}
	for n, b := range r.Files {
		if err := os.WriteFile(filepath.Join(scratch, n), b, 0o644); err != nil {
			return nil, err
		}
	}
	if r.Timeout == 0 {
		r.Timeout = 10 * time.Minute
	}
	w := "auto"
	if r.Workers > 0 {
		w = strconv.Itoa(r.Workers)
	}
	jtmp := filepath.Join(scratch, "jtmp") // TLC leaves tlc-* directories in java.io.tmpdir: keep them in the scratch directory
	os.MkdirAll(jtmp, 0o755)
	args := []string{"-XX:+UseParallelGC", "-Djava.io.tmpdir=" + jtmp, "-Dfile.encoding=UTF-8", "-Dstdout.encoding=UTF-8", "-Dsun.stdout.encoding=UTF-8"}
	if r.Stack != "" {
		args = append(args, "-Xss"+r.Stack)
	}
	if r.DFS {
		args = append(args, "-Dtlc2.tool.queue.IStateQueue=StateDeque")
	}
	args = append(args, "-cp", "/opt/veriftools/tla/tla2tools.jar:/opt/veriftools/tla/CommunityModules-deps.jar", "tlc2.TLC",
		"-workers", w, "-metadir", filepath.Join(scratch, "meta"), "-config", r.Cfg, "-nowarning")
	if r.Simulate != "" {
		args = append(args, "-simulate", r.Simulate)
		if r.Depth > 0 {
			args = append(args, "-depth", strconv.Itoa(r.Depth))
		}
		args = append(args, "-seed", strconv.FormatInt(r.Seed, 10))
	}
	if r.Coverage {
		args = append(args, "-coverage", "1")
	}
	if r.NoDeadlock {
		args = append(args, "-deadlock")
	}
	args = append(args, r.Extra...)
	args = append(args, r.Module+".tla")
	ctx, cancel := context.WithTimeout(context.Background(), r.Timeout)
	defer cancel()
	cmd := exec.CommandContext(ctx, "java", args...)
	cmd.Dir = scratch
	cmd.SysProcAttr = &syscall.SysProcAttr{Setpgid: true}
	cmd.Cancel = func() error { return syscall.Kill(-cmd.Process.Pid, syscall.SIGKILL) }
	var out bytes.Buffer
	cmd.Stdout = &out
	cmd.Stderr = &out
	t0 := time.Now()
	runErr := cmd.Run()
	res := &Result{Tagged: map[string][]json.RawMessage{}, Wall: time.Since(t0), Cmd: "java " + strings.Join(args, " ")}
	res.Raw = out.String()
	if ctx.Err() != nil {
		return res, fmt.Errorf("tlc timeout after %v", r.Timeout)
	}
	if ee, ok := runErr.(*exec.ExitError); ok {
		res.ExitCode = ee.ExitCode()
	} else if runErr != nil {
		return res, runErr
	}
	sc := bufio.NewScanner(strings.NewReader(res.Raw))
	sc.Buffer(make([]byte, 1<<20), 1<<28)
	inErr := 0
	for sc.Scan() {
		line := sc.Text()
		if m := reTagged.FindStringSubmatch(line); m != nil {
			res.Tagged[m[1]] = append(res.Tagged[m[1]], json.RawMessage(Unescape(m[2])))
			continue
		}
		if m := reStats.FindStringSubmatch(line); m != nil {
			res.Generated, _ = strconv.ParseInt(m[1], 10, 64)
			res.Distinct, _ = strconv.ParseInt(m[2], 10, 64)
		}
		if m := reDiam.FindStringSubmatch(line); m != nil {
			res.Diameter, _ = strconv.Atoi(m[1])
		}
		if m := reInv.FindStringSubmatch(line); m != nil {
			res.Violated = m[1]
		}
		if m := reProp.FindStringSubmatch(line); m != nil {
			res.Violated = m[1]
		}
		if m := reCovZero.FindStringSubmatch(line); m != nil {
			res.ZeroCov = append(res.ZeroCov, m[1])
		}
		if strings.HasPrefix(line, "Error:") {
			res.Errors = append(res.Errors, line)
			inErr = 3
		} else if inErr > 0 {
			res.Errors = append(res.Errors, line)
			inErr--
		}
	}
	return res, nil
}

// Tail returns the last n lines of raw output (for diagnostics).
func (r *Result) Tail(n int) string {
	ls := strings.Split(strings.TrimRight(r.Raw, "\n"), "\n")
	if len(ls) > n {
		ls = ls[len(ls)-n:]
	}
	return strings.Join(ls, "\n")
}
