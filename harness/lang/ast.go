// Package lang builds, prints and generates programs of the control-flow core as JSON ASTs
// shared with spec/Lang.tla (schema: DESIGN.md appendix A.2).
package lang

import (
	"fmt"
	"sort"
	"strings"
)

// N is one AST node: an object with a "k" field.
type N = map[string]any

var none = N{"k": "none"}

func Int(v int) N             { return N{"k": "int", "v": v} }
func Str(s string) N          { return N{"k": "str", "v": s} }
func Bool(b bool) N           { return N{"k": "bool", "v": b} }
func Null() N                 { return N{"k": "null"} }
func Var(n string) N          { return N{"k": "var", "n": n} }
func Bin(op string, l, r N) N { return N{"k": "bin", "op": op, "l": l, "r": r} }
func Un(op string, e N) N     { return N{"k": "un", "op": op, "e": e} }
func Tern(c, t, f N) N        { return N{"k": "tern", "c": c, "t": t, "f": f} }
func Arr(vals ...N) N {
	items := []any{}
	for _, v := range vals {
		items = append(items, N{"key": none, "val": v})
	}
	return N{"k": "arr", "items": items}
}
func ArrKV(kv ...N) N { // key, val, key, val ...
	items := []any{}
	for i := 0; i+1 < len(kv); i += 2 {
		items = append(items, N{"key": kv[i], "val": kv[i+1]})
	}
	return N{"k": "arr", "items": items}
}

func Assign(n string, e N) N       { return N{"k": "assign", "n": n, "e": e} }
func OpAssign(n, op string, e N) N { return N{"k": "opassign", "n": n, "op": op, "e": e} }
func Incr(n string, d int) N       { return N{"k": "incr", "n": n, "d": d} }
func Echo(e N) N                   { return N{"k": "echo", "e": e} }
func EchoMsg(n string) N           { return N{"k": "echomsg", "n": n} }
func Mark(id int) N                { return N{"k": "mark", "id": id} }
func Break(n int) N                { return N{"k": "break", "n": n} }
func Continue(n int) N             { return N{"k": "continue", "n": n} }
func Return(e N) N                 { return N{"k": "return", "e": e} }
func ReturnVoid() N                { return N{"k": "return", "e": none} }
func Throw(cls, msg string) N      { return N{"k": "throw", "cls": cls, "msg": msg} }
func Rethrow(n string) N           { return N{"k": "rethrow", "n": n} }
func Static(n string, e N) N       { return N{"k": "static", "n": n, "e": e} }
func Call(target, f string, args ...N) N {
	a := []any{}
	for _, x := range args {
		a = append(a, x)
	}
	return N{"k": "call", "n": target, "f": f, "args": a}
}
func block(b []N) []any {
	out := []any{}
	for _, s := range b {
		out = append(out, s)
	}
	return out
}

type Arm struct {
	C    N
	Body []N
}

func If(arms []Arm, els []N) N {
	as := []any{}
	for _, a := range arms {
		as = append(as, N{"c": a.C, "body": block(a.Body)})
	}
	return N{"k": "if", "arms": as, "else": block(els)}
}
func While(c N, body []N) N   { return N{"k": "while", "c": c, "body": block(body)} }
func DoWhile(c N, body []N) N { return N{"k": "dowhile", "c": c, "body": block(body)} }
func For(init []N, c N, incr []N, body []N) N {
	return N{"k": "for", "init": block(init), "c": c, "incr": block(incr), "body": block(body)}
}
func Foreach(src N, key, val string, body []N) N {
	return N{"k": "foreach", "src": src, "key": key, "val": val, "body": block(body)}
}

type Case struct {
	V     N
	IsDef bool
	Body  []N
}

func Switch(e N, cases []Case) N {
	cs := []any{}
	for _, c := range cases {
		v := c.V
		if c.IsDef {
			v = Int(0)
		}
		cs = append(cs, N{"v": v, "isdef": c.IsDef, "body": block(c.Body)})
	}
	return N{"k": "switch", "e": e, "cases": cs}
}

type MatchArm struct {
	V []N
	R N
}

func Match(target string, e N, arms []MatchArm, def N) N {
	as := []any{}
	for _, a := range arms {
		vs := []any{}
		for _, v := range a.V {
			vs = append(vs, v)
		}
		as = append(as, N{"v": vs, "r": a.R})
	}
	if def == nil {
		def = none
	}
	return N{"k": "match", "n": target, "e": e, "arms": as, "default": def}
}

type Catch struct {
	Types []string
	Var   string
	Body  []N
}

func Try(body []N, catches []Catch, hasFin bool, fin []N) N {
	cs := []any{}
	for _, c := range catches {
		ts := []any{}
		for _, t := range c.Types {
			ts = append(ts, t)
		}
		cs = append(cs, N{"types": ts, "var": c.Var, "body": block(c.Body)})
	}
	return N{"k": "try", "body": block(body), "catches": cs, "hasfin": hasFin, "finally": block(fin)}
}

type Param struct {
	Name string
	Def  N // nil = required
}

type Func struct {
	Params []Param
	Body   []N
}

type Class struct {
	Ext  string
	Impl []string
}

// Iface is an interface declaration with the interfaces it extends.
type Iface struct {
	Name string
	Ext  []string
}

// Program is a whole program.
type Program struct {
	Funcs   map[string]Func
	Classes map[string]Class // exception classes; roots extend \Exception
	Ifaces  []Iface // parents before children
	Main    []N
	Tags    []string // scenario id components
}

// JSON renders the program as the object Lang.tla reads.
func (p *Program) JSON() N {
	fs := N{}
	for n, f := range p.Funcs {
		ps := []any{}
		for _, q := range f.Params {
			d := q.Def
			if d == nil {
				d = none
			}
			ps = append(ps, N{"n": q.Name, "def": d})
		}
		fs[n] = N{"params": ps, "body": block(f.Body)}
	}
	cs := N{}
	for n, c := range p.Classes {
		im := []any{}
		for _, i := range c.Impl {
			im = append(im, i)
		}
		cs[n] = N{"ext": c.Ext, "impl": im}
	}
	// interfaces are entries of the same table: their parents are listed under impl
	for _, i := range p.Ifaces {
		im := []any{}
		for _, e := range i.Ext {
			im = append(im, e)
		}
		cs[i.Name] = N{"ext": "", "impl": im}
	}
	// TLC needs a non-empty record to take DOMAIN of; add inert entries
	fs["zz_unused"] = N{"params": []any{}, "body": []any{}}
	cs["ZZUnused"] = N{"ext": "", "impl": []any{}}
	return N{"funcs": fs, "classes": cs, "main": block(p.Main)}
}

// ---------------------------------------------------------------- unparser

type printer struct {
	sb  strings.Builder
	ind int
	// inside a namespace some fixture classes are spelled like classes of the global namespace (the local
	// class shadows the global one for unqualified names): spelled maps the model's name to that spelling
	spelled map[string]string
}

func (p *printer) cls(n string) string {
	if s, ok := p.spelled[n]; ok {
		return s
	}
	return n
}

func (p *printer) line(f string, a ...any) {
	p.sb.WriteString(strings.Repeat("  ", p.ind))
	fmt.Fprintf(&p.sb, f, a...)
	p.sb.WriteByte('\n')
}

func phpStr(s string) string {
	return `"` + strings.NewReplacer(`\`, `\\`, `"`, `\"`, `$`, `\$`, "\n", `\n`).Replace(s) + `"`
}

// Expr prints an expression fully parenthesised.
func Expr(e N) string {
	switch e["k"] {
	case "int":
		v := e["v"].(int)
		if v < 0 {
			return fmt.Sprintf("(%d)", v)
		}
		return fmt.Sprint(v)
	case "str":
		return phpStr(e["v"].(string))
	case "bool":
		if e["v"].(bool) {
			return "true"
		}
		return "false"
	case "null":
		return "null"
	case "var":
		return "$" + e["n"].(string)
	case "bin":
		return "(" + Expr(e["l"].(N)) + " " + e["op"].(string) + " " + Expr(e["r"].(N)) + ")"
	case "un":
		return "(" + e["op"].(string) + Expr(e["e"].(N)) + ")"
	case "tern":
		return "(" + Expr(e["c"].(N)) + " ? " + Expr(e["t"].(N)) + " : " + Expr(e["f"].(N)) + ")"
	case "arr":
		var parts []string
		for _, it := range e["items"].([]any) {
			m := it.(N)
			if m["key"].(N)["k"] == "none" {
				parts = append(parts, Expr(m["val"].(N)))
			} else {
				parts = append(parts, Expr(m["key"].(N))+" => "+Expr(m["val"].(N)))
			}
		}
		return "[" + strings.Join(parts, ", ") + "]"
	}
	panic(fmt.Sprintf("expr kind %v", e["k"]))
}

func simple(s N) string { // init / incr statements of a for loop
	switch s["k"] {
	case "assign":
		return "$" + s["n"].(string) + " = " + Expr(s["e"].(N))
	case "incr":
		if s["d"].(int) > 0 {
			return "$" + s["n"].(string) + "++"
		}
		return "$" + s["n"].(string) + "--"
	case "opassign":
		return "$" + s["n"].(string) + " " + s["op"].(string) + "= " + Expr(s["e"].(N))
	}
	panic("simple stmt")
}

func (p *printer) blockOf(b any) {
	p.ind++
	for _, s := range b.([]any) {
		p.stmt(s.(N))
	}
	p.ind--
}

func lvl(kw string, n int) string {
	if n <= 1 {
		return kw + ";"
	}
	return fmt.Sprintf("%s %d;", kw, n)
}

func (p *printer) stmt(s N) {
	switch s["k"] {
	case "assign", "incr", "opassign":
		p.line("%s;", simple(s))
	case "echo":
		p.line("echo %s, \"\\n\";", Expr(s["e"].(N)))
	case "echomsg":
		p.line("echo $%s->getMessage(), \"\\n\";", s["n"])
	case "mark":
		p.line("echo \"#%d\\n\";", s["id"])
	case "if":
		for i, a := range s["arms"].([]any) {
			m := a.(N)
			kw := "if"
			if i > 0 {
				kw = "} elseif"
			}
			p.line("%s (%s) {", kw, Expr(m["c"].(N)))
			p.blockOf(m["body"])
		}
		if els := s["else"].([]any); len(els) > 0 {
			p.line("} else {")
			p.blockOf(els)
		}
		p.line("}")
	case "while":
		p.line("while (%s) {", Expr(s["c"].(N)))
		p.blockOf(s["body"])
		p.line("}")
	case "dowhile":
		p.line("do {")
		p.blockOf(s["body"])
		p.line("} while (%s);", Expr(s["c"].(N)))
	case "for":
		var ini, inc []string
		for _, x := range s["init"].([]any) {
			ini = append(ini, simple(x.(N)))
		}
		for _, x := range s["incr"].([]any) {
			inc = append(inc, simple(x.(N)))
		}
		p.line("for (%s; %s; %s) {", strings.Join(ini, ", "), Expr(s["c"].(N)), strings.Join(inc, ", "))
		p.blockOf(s["body"])
		p.line("}")
	case "foreach":
		if s["key"].(string) == "" {
			p.line("foreach (%s as $%s) {", Expr(s["src"].(N)), s["val"])
		} else {
			p.line("foreach (%s as $%s => $%s) {", Expr(s["src"].(N)), s["key"], s["val"])
		}
		p.blockOf(s["body"])
		p.line("}")
	case "switch":
		p.line("switch (%s) {", Expr(s["e"].(N)))
		p.ind++
		for _, c := range s["cases"].([]any) {
			m := c.(N)
			if m["isdef"].(bool) {
				p.line("default:")
			} else {
				p.line("case %s:", Expr(m["v"].(N)))
			}
			p.blockOf(m["body"])
		}
		p.ind--
		p.line("}")
	case "match":
		var arms []string
		for _, a := range s["arms"].([]any) {
			m := a.(N)
			var vs []string
			for _, v := range m["v"].([]any) {
				vs = append(vs, Expr(v.(N)))
			}
			arms = append(arms, strings.Join(vs, ", ")+" => "+Expr(m["r"].(N)))
		}
		if d := s["default"].(N); d["k"] != "none" {
			arms = append(arms, "default => "+Expr(d))
		}
		p.line("$%s = match (%s) { %s };", s["n"], Expr(s["e"].(N)), strings.Join(arms, ", "))
	case "break":
		p.line("%s", lvl("break", s["n"].(int)))
	case "continue":
		p.line("%s", lvl("continue", s["n"].(int)))
	case "return":
		if e := s["e"].(N); e["k"] == "none" {
			p.line("return;")
		} else {
			p.line("return %s;", Expr(e))
		}
	case "throw":
		p.line("throw new %s(%s);", p.cls(s["cls"].(string)), phpStr(s["msg"].(string)))
	case "rethrow":
		p.line("throw $%s;", s["n"])
	case "static":
		p.line("static $%s = %s;", s["n"], Expr(s["e"].(N)))
	case "call":
		var as []string
		for _, a := range s["args"].([]any) {
			as = append(as, Expr(a.(N)))
		}
		if s["n"].(string) == "" {
			p.line("%s(%s);", s["f"], strings.Join(as, ", "))
		} else {
			p.line("$%s = %s(%s);", s["n"], s["f"], strings.Join(as, ", "))
		}
	case "try":
		p.line("try {")
		p.blockOf(s["body"])
		for _, c := range s["catches"].([]any) {
			m := c.(N)
			var ts []string
			for _, t := range m["types"].([]any) {
				t := t.(string)
				if t == "Throwable" || t == "Exception" {
					t = "\\" + t
				}
				ts = append(ts, p.cls(t))
			}
			p.line("} catch (%s $%s) {", strings.Join(ts, " | "), m["var"])
			p.blockOf(m["body"])
		}
		if s["hasfin"].(bool) {
			p.line("} finally {")
			p.blockOf(s["finally"])
		}
		p.line("}")
	default:
		panic(fmt.Sprintf("stmt kind %v", s["k"]))
	}
}

// Source prints the program as script source (plain-script mode).
func (p *Program) Source(ns string) string {
	pr := &printer{}
	if ns != "" {
		pr.line("namespace %s;", ns)
		if _, ok := p.Classes["ErrB"]; ok {
			pr.spelled = map[string]string{"ErrB": "RuntimeException"}
		}
	}
	for _, i := range p.Ifaces {
		if len(i.Ext) > 0 {
			pr.line("interface %s extends %s {}", i.Name, strings.Join(i.Ext, ", "))
		} else {
			pr.line("interface %s {}", i.Name)
		}
	}
	// parents before children
	names := make([]string, 0, len(p.Classes))
	for n := range p.Classes {
		names = append(names, n)
	}
	sort.Strings(names)
	done := map[string]bool{}
	var emit func(n string)
	emit = func(n string) {
		if done[n] {
			return
		}
		c := p.Classes[n]
		if c.Ext != "" {
			if _, ok := p.Classes[c.Ext]; ok {
				emit(c.Ext)
			}
		}
		done[n] = true
		ext := c.Ext
		if ext == "" || ext == "Exception" {
			ext = "\\Exception"
		}
		im := ""
		if len(c.Impl) > 0 {
			im = " implements " + strings.Join(c.Impl, ", ")
		}
		pr.line("class %s extends %s%s {}", pr.cls(n), pr.cls(ext), im)
	}
	for _, n := range names {
		emit(n)
	}
	fnames := make([]string, 0, len(p.Funcs))
	for n := range p.Funcs {
		fnames = append(fnames, n)
	}
	sort.Strings(fnames)
	for _, n := range fnames {
		f := p.Funcs[n]
		var ps []string
		for _, q := range f.Params {
			if q.Def == nil {
				ps = append(ps, "$"+q.Name)
			} else {
				ps = append(ps, "$"+q.Name+" = "+Expr(q.Def))
			}
		}
		pr.line("function %s(%s) {", n, strings.Join(ps, ", "))
		pr.blockOf(block(f.Body))
		pr.line("}")
	}
	for _, s := range p.Main {
		pr.stmt(s)
	}
	return pr.sb.String()
}
