package lang

import (
	"sort"
	"fmt"
	"math/rand"
)

// ---------------------------------------------------------------- enumerated loop x control shapes (C02)

var LoopKinds = []string{"for", "while", "dowhile", "foreach"}

// loop builds a loop of the given kind whose counter variable v takes the values 1..n in the body.
// Counters of while/do-while loops are advanced at the top of the body so that `continue` cannot
// skip the increment.
func loop(kind, v string, n int, body []N) []N {
	switch kind {
	case "for":
		return []N{For([]N{Assign(v, Int(1))}, Bin("<=", Var(v), Int(n)), []N{Incr(v, 1)}, body)}
	case "while":
		return []N{Assign(v, Int(0)), While(Bin("<", Var(v), Int(n)), append([]N{Incr(v, 1)}, body...))}
	case "dowhile":
		return []N{Assign(v, Int(0)), DoWhile(Bin("<", Var(v), Int(n)), append([]N{Incr(v, 1)}, body...))}
	case "foreach":
		vals := []N{}
		for i := 1; i <= n; i++ {
			vals = append(vals, Int(i))
		}
		return []N{Foreach(Arr(vals...), "", v, body)}
	}
	panic(kind)
}

type Control struct {
	Kind  string // break | continue | return
	Level int
}

// wrapVia places the control statement: directly under an if, inside a switch case (which adds one
// level for break/continue), or inside try/finally (the finally block prints a marker).
func wrapVia(via string, cond N, ctl N, extraLevel *int) []N {
	switch via {
	case "if":
		return []N{If([]Arm{{cond, []N{ctl}}}, nil)}
	case "switch":
		*extraLevel = 1
		return []N{If([]Arm{{cond, []N{Switch(Int(1), []Case{{V: Int(1), Body: []N{Mark(70), ctl}}, {IsDef: true, Body: []N{Mark(72)}}})}}}, nil)}
	case "try":
		return []N{Try([]N{If([]Arm{{cond, []N{ctl}}}, nil), Mark(80)}, nil, true, []N{Mark(81)})}
	}
	panic(via)
}

// EnumLoops enumerates nests of 2 (and, if deep, 3) loops with one control statement fired at a
// chosen iteration of the innermost loop.
func EnumLoops(deep bool) []*Program {
	var out []*Program
	ctrls := []Control{{"break", 1}, {"break", 2}, {"continue", 1}, {"continue", 2}, {"return", 0}}
	if deep {
		ctrls = append(ctrls, Control{"break", 3}, Control{"continue", 3})
	}
	vias := []string{"if", "switch", "try"}
	build := func(kinds []string, c Control, via string) *Program {
		if c.Level > len(kinds) {
			return nil
		}
		extra := 0
		var ctl N
		switch c.Kind {
		case "break":
			ctl = Break(c.Level)
		case "continue":
			ctl = Continue(c.Level)
		default:
			ctl = Return(Int(7))
		}
		vars := []string{"i", "j", "k"}[:len(kinds)]
		// fire when every counter equals 2
		cond := Bin("==", Var(vars[0]), Int(2))
		for _, v := range vars[1:] {
			cond = Bin("&&", cond, Bin("==", Var(v), Int(2)))
		}
		// the switch variant needs the level adjusted before the statement is built
		if via == "switch" && c.Kind != "return" {
			if c.Kind == "break" {
				ctl = Break(c.Level + 1)
			} else {
				ctl = Continue(c.Level + 1)
			}
		}
		inner := append([]N{Mark(30)}, wrapVia(via, cond, ctl, &extra)...)
		val := Var(vars[0])
		for _, v := range vars[1:] {
			val = Bin("+", Bin("*", val, Int(10)), Var(v))
		}
		inner = append(inner, Echo(val))
		body := inner
		for d := len(kinds) - 1; d >= 0; d-- {
			l := loop(kinds[d], vars[d], 3, body)
			body = append([]N{Mark(10 + d)}, l...)
			body = append(body, Mark(20+d))
		}
		p := &Program{Funcs: map[string]Func{}, Classes: map[string]Class{}}
		tag := fmt.Sprintf("shape=%s/ctl=%s%d/via=%s/depth=%d", join(kinds), c.Kind, c.Level, via, len(kinds))
		if c.Kind == "return" {
			p.Funcs["run"] = Func{Body: append(body, Return(Int(0)))}
			p.Main = []N{Mark(1), Call("r", "run"), Echo(Var("r")), Mark(2)}
		} else {
			p.Main = append(append([]N{Mark(1)}, body...), Mark(2))
		}
		p.Tags = []string{"fam=enum", tag}
		return p
	}
	for _, k1 := range LoopKinds {
		for _, k2 := range LoopKinds {
			for _, c := range ctrls {
				for _, via := range vias {
					if p := build([]string{k1, k2}, c, via); p != nil {
						out = append(out, p)
					}
				}
			}
		}
	}
	if deep {
		for _, k1 := range LoopKinds {
			for _, k2 := range LoopKinds {
				for _, k3 := range LoopKinds {
					for _, c := range ctrls {
						if p := build([]string{k1, k2, k3}, c, "if"); p != nil {
							out = append(out, p)
						}
					}
				}
			}
		}
	}
	// integer fast-path family: counters initialised from other variables, copies kept live
	for _, k2 := range LoopKinds {
		tri := &Program{Funcs: map[string]Func{}, Classes: map[string]Class{}}
		var innerLoop []N
		switch k2 {
		case "for":
			innerLoop = []N{For([]N{Assign("j", Var("i"))}, Bin("<=", Var("j"), Int(3)), []N{Incr("j", 1)}, []N{Echo(Bin("+", Bin("*", Var("i"), Int(10)), Var("j")))})}
		case "while":
			innerLoop = []N{Assign("j", Var("i")), While(Bin("<=", Var("j"), Int(3)), []N{Echo(Bin("+", Bin("*", Var("i"), Int(10)), Var("j"))), Incr("j", 1)})}
		case "dowhile":
			innerLoop = []N{Assign("j", Var("i")), DoWhile(Bin("<=", Var("j"), Int(3)), []N{Echo(Bin("+", Bin("*", Var("i"), Int(10)), Var("j"))), Incr("j", 1)})}
		default:
			innerLoop = []N{Assign("j", Var("i")), Foreach(Arr(Int(1), Int(2)), "", "w", []N{Incr("j", 1), Echo(Bin("+", Bin("*", Var("i"), Int(10)), Var("j")))})}
		}
		tri.Main = []N{Mark(1), For([]N{Assign("i", Int(1))}, Bin("<=", Var("i"), Int(3)), []N{Incr("i", 1)}, append(append([]N{Mark(10)}, innerLoop...), Echo(Var("i")))), Mark(2)}
		tri.Tags = []string{"fam=enum", "shape=fastpath-triangular-" + k2}
		out = append(out, tri)
	}
	{
		p := &Program{Funcs: map[string]Func{
			"sumrange": {Params: []Param{{"lo", nil}, {"hi", nil}}, Body: []N{Assign("s", Int(0)), For([]N{Assign("k", Var("lo"))}, Bin("<=", Var("k"), Var("hi")), []N{Incr("k", 1)}, []N{OpAssign("s", "+", Var("k"))}), Echo(Var("lo")), Return(Var("s"))}},
		}, Classes: map[string]Class{}}
		p.Main = []N{Assign("lo", Int(2)), Call("r", "sumrange", Var("lo"), Int(4)), Echo(Var("r")), Echo(Var("lo")), Call("r", "sumrange", Var("lo"), Int(4)), Echo(Var("r")),
			Assign("best", Int(0)), For([]N{Assign("p", Int(1))}, Bin("<=", Var("p"), Int(5)), []N{Incr("p", 1)}, []N{If([]Arm{{Bin("==", Var("p"), Int(3)), []N{Assign("best", Var("p"))}}}, nil)}), Echo(Var("best")), Echo(Var("p"))}
		p.Tags = []string{"fam=enum", "shape=fastpath-copies"}
		out = append(out, p)
	}
	// switch fall-through and match families
	for sub := 0; sub <= 4; sub++ {
		for _, withBreak := range []bool{true, false} {
			cases := []Case{}
			for v := 1; v <= 3; v++ {
				b := []N{Mark(40 + v)}
				if withBreak || v == 2 {
					b = append(b, Break(1))
				}
				cases = append(cases, Case{V: Int(v), Body: b})
			}
			cases = append(cases[:2], append([]Case{{IsDef: true, Body: []N{Mark(49)}}}, cases[2:]...)...)
			p := &Program{Funcs: map[string]Func{}, Classes: map[string]Class{}}
			p.Main = []N{Mark(1), Assign("x", Int(sub)), Switch(Var("x"), cases), Mark(2),
				Match("m", Var("x"), []MatchArm{{[]N{Int(1), Int(2)}, Str("low")}, {[]N{Int(3)}, Str("three")}}, Str("other")), Echo(Var("m"))}
			p.Tags = []string{"fam=enum", fmt.Sprintf("shape=switch/sub=%d/breaks=%v", sub, withBreak)}
			out = append(out, p)
		}
	}
	// a function that falls off its end returns null, whatever its last statement evaluated to
	lasts := []struct {
		name string
		body []N
	}{
		{"assign", []N{Assign("q", Bin("+", Var("x"), Int(1)))}},
		{"echo", []N{Echo(Var("x"))}},
		{"if", []N{If([]Arm{{C: Bin(">", Var("x"), Int(0)), Body: []N{Assign("q", Int(7))}}}, []N{Assign("q", Int(8))})}},
		{"loop", loop("for", "i", 2, []N{Assign("q", Var("i"))})},
		{"call", []N{Call("", "helper", Var("x"))}},
		{"match", []N{Match("q", Var("x"), []MatchArm{{[]N{Int(1)}, Int(11)}}, Int(12))}},
		{"empty", nil},
		{"return-in-branch", []N{If([]Arm{{C: Bin(">", Var("x"), Int(5)), Body: []N{Return(Int(99))}}}, nil), Assign("q", Int(3))}},
	}
	for _, l := range lasts {
		p := &Program{Funcs: map[string]Func{}, Classes: map[string]Class{}}
		p.Funcs["helper"] = Func{Params: []Param{{Name: "y"}}, Body: []N{Return(Bin("*", Var("y"), Int(2)))}}
		p.Funcs["nr"] = Func{Params: []Param{{Name: "x"}}, Body: l.body}
		p.Main = []N{Mark(1), Assign("r", Int(5)), Call("r", "nr", Int(1)), Echo(Tern(Bin("===", Var("r"), Null()), Str("null"), Str("value"))), Echo(Var("r")), Mark(2)}
		p.Tags = []string{"fam=enum", "shape=no-return/last=" + l.name}
		out = append(out, p)
	}
	// a static local is ONE variable for all activations: what an inner (recursive) call adds is there when the outer continues
	for _, how := range []string{"assign", "incr"} {
		upd := N(Assign("c", Bin("+", Var("c"), Int(1))))
		if how == "incr" {
			upd = Incr("c", 1)
		}
		p := &Program{Funcs: map[string]Func{}, Classes: map[string]Class{}}
		p.Funcs["rec"] = Func{Params: []Param{{Name: "n"}}, Body: []N{Static("c", Int(0)), upd,
			If([]Arm{{C: Bin(">", Var("n"), Int(0)), Body: []N{Call("", "rec", Bin("-", Var("n"), Int(1)))}}}, nil), Echo(Var("c")), Return(Var("c"))}}
		p.Main = []N{Mark(1), Call("r", "rec", Int(2)), Echo(Var("r")), Call("r", "rec", Int(0)), Echo(Var("r")), Mark(2)}
		p.Tags = []string{"fam=enum", "shape=static-recursion/update=" + how}
		out = append(out, p)
	}
	// match compares strictly: arms of another type never match a subject that is loosely equal to them
	subjects := []struct {
		name string
		e    N
	}{{"int0", Int(0)}, {"int1", Int(1)}, {"str1", Str("1")}, {"str-empty", Str("")}, {"true", Bool(true)}, {"false", Bool(false)}, {"null", Null()}}
	for _, sj := range subjects {
		for order := 0; order < 2; order++ {
			arms := []MatchArm{{[]N{Null()}, Str("null-arm")}, {[]N{Bool(false)}, Str("false-arm")}, {[]N{Str("1")}, Str("str1-arm")},
				{[]N{Int(1), Str("0")}, Str("int1-or-str0-arm")}, {[]N{Bool(true)}, Str("true-arm")}, {[]N{Int(0), Str("")}, Str("int0-or-empty-arm")}}
			if order == 1 {
				for i, j := 0, len(arms)-1; i < j; i, j = i+1, j-1 {
					arms[i], arms[j] = arms[j], arms[i]
				}
			}
			p := &Program{Funcs: map[string]Func{}, Classes: map[string]Class{}}
			p.Main = []N{Mark(1), Assign("x", sj.e), Match("m", Var("x"), arms, Str("default-arm")), Echo(Var("m")), Mark(2)}
			p.Tags = []string{"fam=enum", fmt.Sprintf("shape=match-mixed/subject=%s/order=%d", sj.name, order)}
			out = append(out, p)
		}
	}
	return out
}

func join(s []string) string {
	o := ""
	for i, x := range s {
		if i > 0 {
			o += "-"
		}
		o += x
	}
	return o
}

// ---------------------------------------------------------------- seeded typed generator (C02)

// GenCfg restricts the seeded generator to constructs whose behaviour is either correct on the
// pinned interpreter or covered by a modelled deviation.
type GenCfg struct {
	MaxDepth      int
	Levels        bool // allow break/continue with level > 1
	Switch        bool // allow switch statements
	ContinueWhile bool // allow `continue` directly inside while bodies
}

type gen struct {
	rng    *rand.Rand
	cfg    GenCfg
	nloop  int
	loops  []string // kinds of enclosing loops (innermost last), "switch" included
	inFunc bool
	ints   []string
	markID int
	budget int
}

func (g *gen) pick(n int) int { return g.rng.Intn(n) }

func (g *gen) intExpr(d int) N {
	if d <= 0 || g.pick(3) == 0 {
		if g.pick(2) == 0 {
			return Int(g.pick(9) - 2)
		}
		return Var(g.ints[g.pick(len(g.ints))])
	}
	switch g.pick(5) {
	case 0:
		return Bin("+", g.intExpr(d-1), g.intExpr(d-1))
	case 1:
		return Bin("-", g.intExpr(d-1), g.intExpr(d-1))
	case 2:
		return Bin("*", g.intExpr(d-1), Int(g.pick(4)))
	case 3:
		return Bin("%", g.intExpr(d-1), Int(2+g.pick(5)))
	default:
		return Tern(g.boolExpr(d-1), g.intExpr(d-1), g.intExpr(d-1))
	}
}

func (g *gen) boolExpr(d int) N {
	ops := []string{"<", "<=", ">", ">=", "==", "!="}
	if d <= 0 || g.pick(3) > 0 {
		return Bin(ops[g.pick(len(ops))], g.intExpr(d-1), g.intExpr(d-1))
	}
	switch g.pick(3) {
	case 0:
		return Bin("&&", g.boolExpr(d-1), g.boolExpr(d-1))
	case 1:
		return Bin("||", g.boolExpr(d-1), g.boolExpr(d-1))
	default:
		return Un("!", g.boolExpr(d-1))
	}
}

func (g *gen) mark() N { g.markID++; return Mark(g.markID) }

func (g *gen) stmts(depth, n int) []N {
	var out []N
	for i := 0; i < n; i++ {
		out = append(out, g.stmt(depth)...)
	}
	return out
}

// bounded keeps values small: TLC integers are 32 bit
func bounded(e N) N { return Bin("%", e, Int(1000)) }

func (g *gen) stmt(depth int) []N {
	g.budget--
	if g.budget < 0 || depth <= 0 {
		return []N{Assign(g.ints[g.pick(len(g.ints))], bounded(g.intExpr(2))), Echo(g.intExpr(1))}
	}
	switch g.pick(15) {
	case 13:
		// plain copy of one integer variable into another (the interpreter has a fused fast path for it)
		x, y := g.ints[g.pick(len(g.ints))], g.ints[g.pick(len(g.ints))]
		return []N{Assign(x, Var(y)), Incr(x, 1), Echo(Var(x)), Echo(Var(y))}
	case 14:
		// a for loop whose counter starts as a copy of a live variable and is advanced by the loop's own
		// increment; the source variable must keep its value
		g.nloop++
		v := fmt.Sprintf("l%d", g.nloop)
		src := g.ints[g.pick(len(g.ints))]
		g.loops = append(g.loops, "for")
		body := append([]N{g.mark(), Echo(Bin(".", Var(v), Bin(".", Str("/"), Var(src))))}, g.stmts(depth-1, 1)...)
		g.loops = g.loops[:len(g.loops)-1]
		return []N{Assign(src, Bin("%", Var(src), Int(5))), Assign("lim", Bin("+", Var(src), Int(2))),
			For([]N{Assign(v, Var(src))}, Bin("<=", Var(v), Var("lim")), []N{Incr(v, 1)}, body), Echo(Var(src))}
	case 0, 1:
		return []N{Assign(g.ints[g.pick(len(g.ints))], bounded(g.intExpr(2)))}
	case 2:
		return []N{Echo(g.intExpr(2))}
	case 3:
		return []N{Echo(Bin(".", Str("s"), g.intExpr(1))), g.mark()}
	case 4:
		arms := []Arm{{g.boolExpr(2), g.stmts(depth-1, 1+g.pick(2))}}
		if g.pick(2) == 0 {
			arms = append(arms, Arm{g.boolExpr(1), g.stmts(depth-1, 1)})
		}
		var els []N
		if g.pick(2) == 0 {
			els = g.stmts(depth-1, 1)
		}
		return []N{If(arms, els)}
	case 5, 6, 7:
		kind := LoopKinds[g.pick(4)]
		g.nloop++
		v := fmt.Sprintf("l%d", g.nloop)
		g.loops = append(g.loops, kind)
		body := append([]N{g.mark()}, g.stmts(depth-1, 1+g.pick(3))...)
		g.loops = g.loops[:len(g.loops)-1]
		if kind == "foreach" && g.pick(2) == 0 {
			k := fmt.Sprintf("k%d", g.nloop)
			return []N{Foreach(ArrKV(Int(3), Int(5), Int(7), Int(2), Int(1), Int(9)), k, v, append([]N{Echo(Bin(".", Var(k), Bin(".", Str(":"), Var(v))))}, body...))}
		}
		return loop(kind, v, 2+g.pick(3), body)
	case 8:
		if len(g.loops) == 0 {
			return []N{g.mark()}
		}
		inner := g.loops[len(g.loops)-1]
		nl := 0
		for _, k := range g.loops {
			_ = k
			nl++
		}
		lvl := 1
		if g.cfg.Levels && nl > 1 && g.pick(2) == 0 {
			lvl = 1 + g.pick(nl)
		}
		if g.pick(2) == 0 {
			return []N{If([]Arm{{g.boolExpr(1), []N{Break(lvl)}}}, nil)}
		}
		if inner == "while" && !g.cfg.ContinueWhile && lvl == 1 {
			return []N{If([]Arm{{g.boolExpr(1), []N{Break(lvl)}}}, nil)}
		}
		if inner == "switch" {
			return []N{g.mark()}
		}
		return []N{If([]Arm{{g.boolExpr(1), []N{Continue(lvl)}}}, nil)}
	case 9:
		if !g.cfg.Switch {
			return []N{g.mark()}
		}
		g.loops = append(g.loops, "switch")
		cases := []Case{}
		for v := 0; v < 3; v++ {
			b := g.stmts(depth-1, 1)
			if g.pick(3) > 0 {
				b = append(b, Break(1))
			}
			cases = append(cases, Case{V: Int(v), Body: b})
		}
		cases = append(cases, Case{IsDef: true, Body: g.stmts(depth-1, 1)})
		g.loops = g.loops[:len(g.loops)-1]
		return []N{Switch(Bin("%", g.intExpr(1), Int(4)), cases)}
	case 10:
		t := g.ints[g.pick(len(g.ints))]
		fs := []string{"addmul", "fact", "tick", "sumto", "locals"}
		f := fs[g.pick(len(fs))]
		switch f {
		case "addmul":
			if g.pick(2) == 0 {
				return []N{Call(t, f, g.intExpr(1), g.intExpr(1)), Echo(Var(t))}
			}
			return []N{Call(t, f, g.intExpr(1)), Echo(Var(t))}
		case "fact":
			return []N{Call(t, f, Int(g.pick(6))), Echo(Var(t))}
		case "tick":
			if g.pick(2) == 0 {
				return []N{Call(t, f), Echo(Var(t))}
			}
			return []N{Call(t, f, Int(1+g.pick(3))), Echo(Var(t))}
		case "sumto":
			return []N{Call(t, f, Int(g.pick(5)), Int(0)), Echo(Var(t))}
		default:
			return []N{Call(t, f, g.intExpr(1)), Echo(Var(t)), Echo(Var("a"))}
		}
	case 11:
		t := g.ints[g.pick(len(g.ints))]
		return []N{Match(t, Bin("%", g.intExpr(1), Int(3)), []MatchArm{{[]N{Int(0)}, g.intExpr(1)}, {[]N{Int(1), Int(2)}, g.intExpr(1)}}, g.intExpr(1))}
	default:
		if g.inFunc && g.pick(4) == 0 {
			return []N{If([]Arm{{g.boolExpr(1), []N{Return(g.intExpr(1))}}}, nil)}
		}
		x := g.ints[g.pick(len(g.ints))]
		return []N{OpAssign(x, []string{"+", "-"}[g.pick(2)], g.intExpr(1)), Assign(x, bounded(Var(x)))}
	}
}

// stdFuncs are the user functions every seeded program declares: defaults, recursion, a static
// local, and a function whose locals shadow the caller's variable names.
func stdFuncs(g *gen) map[string]Func {
	fs := map[string]Func{
		"addmul": {Params: []Param{{"x", nil}, {"y", Int(3)}}, Body: []N{Assign("a", Bin("*", Var("x"), Var("y"))), Return(bounded(Bin("+", Var("a"), Var("x"))))}},
		"fact":   {Params: []Param{{"n", nil}}, Body: []N{If([]Arm{{Bin("<=", Var("n"), Int(1)), []N{Return(Int(1))}}}, nil), Call("r", "fact", Bin("-", Var("n"), Int(1))), Return(Bin("*", Var("n"), Var("r")))}},
		"tick":   {Params: []Param{{"d", Int(1)}}, Body: []N{Static("cnt", Int(0)), OpAssign("cnt", "+", Var("d")), Return(Var("cnt"))}},
		"sumto":  {Params: []Param{{"n", nil}, {"acc", Int(0)}}, Body: []N{If([]Arm{{Bin("<=", Var("n"), Int(0)), []N{Return(Var("acc"))}}}, nil), Call("r", "sumto", Bin("-", Var("n"), Int(1)), Bin("+", Var("acc"), Var("n"))), Return(Var("r"))}},
	}
	// locals: uses the names a, b, c as its own locals, with loops and early return
	save := *g
	g.inFunc = true
	g.loops = nil
	body := []N{Assign("a", Var("p")), Assign("b", Int(1)), Assign("c", Int(2))}
	body = append(body, g.stmts(2, 2)...)
	body = append(body, Return(bounded(Bin("+", Var("a"), Var("b")))))
	fs["locals"] = Func{Params: []Param{{"p", nil}}, Body: body}
	g.inFunc, g.loops = save.inFunc, save.loops
	return fs
}

// Random generates one seeded program.
func Random(rng *rand.Rand, cfg GenCfg) *Program {
	g := &gen{rng: rng, cfg: cfg, ints: []string{"a", "b", "c"}, budget: 40}
	p := &Program{Classes: map[string]Class{}}
	p.Funcs = stdFuncs(g)
	g.budget = 40
	p.Main = []N{Assign("a", Int(1)), Assign("b", Int(2)), Assign("c", Int(3))}
	p.Main = append(p.Main, g.stmts(cfg.MaxDepth, 3+g.pick(3))...)
	p.Main = append(p.Main, Echo(Var("a")), Echo(Var("b")), Echo(Var("c")))
	p.Tags = []string{"fam=seeded"}
	return p
}

// ---------------------------------------------------------------- try / catch / finally shapes (C05)

var excClasses = map[string]Class{
	"Base":  {Ext: "", Impl: nil},
	"ErrA":  {Ext: "Base", Impl: []string{"Marked"}},
	"ErrA2": {Ext: "ErrA"},
	"ErrB":  {Ext: "Base", Impl: []string{"Rooted"}},
	"Other": {Ext: ""},
}

// Marked extends Tagged extends Rooted: ErrA implements Marked directly, ErrA2 inherits it, ErrB implements Rooted
var excIfaces = []Iface{{Name: "Rooted"}, {Name: "Tagged", Ext: []string{"Rooted"}}, {Name: "Marked", Ext: []string{"Tagged"}}}

var catchLists = [][]Catch{
	nil,
	{{Types: []string{"ErrA"}, Var: "e"}},
	{{Types: []string{"Base"}, Var: "e"}},
	{{Types: []string{"ErrB"}, Var: "e"}, {Types: []string{"ErrA"}, Var: "e"}},
	{{Types: []string{"ErrA"}, Var: "e"}, {Types: []string{"Base"}, Var: "e"}},
	{{Types: []string{"Base"}, Var: "e"}, {Types: []string{"ErrA"}, Var: "e"}},
	{{Types: []string{"Marked"}, Var: "e"}, {Types: []string{"Base"}, Var: "e"}},
	{{Types: []string{"ErrA2"}, Var: "e"}, {Types: []string{"Marked"}, Var: "e"}},
	{{Types: []string{"ErrB", "Other"}, Var: "e"}},
	{{Types: []string{"Other"}, Var: "e"}, {Types: []string{"Exception"}, Var: "e"}},
	{{Types: []string{"Throwable"}, Var: "e"}},
	{{Types: []string{"Tagged"}, Var: "e"}},
	{{Types: []string{"ErrB"}, Var: "e"}, {Types: []string{"Rooted"}, Var: "e"}},
	{{Types: []string{"Marked"}, Var: "e"}, {Types: []string{"Rooted"}, Var: "e"}},
}

var BodyExits = []string{"fall", "throwA", "throwA2", "throwB", "throwOther", "return", "break", "continue"}
var CatchExits = []string{"fall", "rethrow", "thrownew", "return"}
var FinExits = []string{"none", "fall", "return", "throw", "break"}
var TryCtxs = []string{"top", "loop", "func", "rec", "reccatch"}

func exitStmts(kind string, site int) []N {
	switch kind {
	case "fall":
		return nil
	case "throwA":
		return []N{Throw("ErrA", fmt.Sprintf("A@%d", site))}
	case "throwA2":
		return []N{Throw("ErrA2", fmt.Sprintf("A2@%d", site))}
	case "throwB":
		return []N{Throw("ErrB", fmt.Sprintf("B@%d", site))}
	case "throwOther":
		return []N{Throw("Other", fmt.Sprintf("O@%d", site))}
	case "thrownew":
		return []N{Throw("ErrB", fmt.Sprintf("N@%d", site))}
	case "throw":
		return []N{Throw("Other", fmt.Sprintf("F@%d", site))}
	case "rethrow":
		return []N{Rethrow("e")}
	case "return":
		return []N{Return(Int(site))}
	case "break":
		return []N{Break(1)}
	case "continue":
		return []N{Continue(1)}
	}
	panic(kind)
}

func validIn(ctx, exit string) bool {
	switch exit {
	case "break", "continue":
		return ctx == "loop"
	case "return":
		return ctx == "func" || ctx == "rec" || ctx == "reccatch"
	}
	return true
}

// tryStmt builds one try statement; base numbers its markers.
func tryStmt(base int, body []N, bodyExit string, catches []Catch, catchExit, finExit string) N {
	b := append([]N{Mark(base + 1)}, body...)
	b = append(b, exitStmts(bodyExit, base+1)...)
	b = append(b, Mark(base+2))
	var cs []Catch
	for i, c := range catches {
		cb := []N{Mark(base + 10 + i), EchoMsg(c.Var)}
		cb = append(cb, exitStmts(catchExit, base+10+i)...)
		cb = append(cb, Mark(base+20+i))
		cs = append(cs, Catch{Types: c.Types, Var: c.Var, Body: cb})
	}
	var fin []N
	if finExit != "none" {
		fin = append([]N{Mark(base + 30)}, exitStmts(finExit, base+30)...)
		fin = append(fin, Mark(base+31))
	}
	return Try(b, cs, finExit != "none", fin)
}

// withRecursion returns a copy of try statement t that calls run($n - 1) while $n > 0: at the start of
// its try block, or (inCatch) at the start of each catch block (the try block then needs to throw).
func withRecursion(t N, inCatch bool) N {
	rec := If([]Arm{{C: Bin(">", Var("n"), Int(0)), Body: []N{Call("q", "run", Bin("-", Var("n"), Int(1))), Echo(Var("q"))}}}, nil)
	c := N{}
	for k, v := range t {
		c[k] = v
	}
	if !inCatch {
		c["body"] = append([]any{rec}, t["body"].([]any)...)
		return c
	}
	var cs []any
	for _, x := range t["catches"].([]any) {
		cl := N{}
		for k, v := range x.(N) {
			cl[k] = v
		}
		cl["body"] = append([]any{rec}, cl["body"].([]any)...)
		cs = append(cs, cl)
	}
	if cs == nil {
		cs = []any{}
	}
	c["catches"] = cs
	return c
}

// place puts the try statement into its context and wraps the whole program in an outer catch-all
// so that most shapes end normally (uncaught outcomes are a separate family).
func place(ctx string, t N, outerCatch bool) *Program {
	p := &Program{Funcs: map[string]Func{}, Classes: excClasses, Ifaces: excIfaces}
	var core []N
	switch ctx {
	case "top":
		core = []N{t, Mark(3)}
	case "loop":
		core = append(loop("for", "i", 2, []N{Mark(4), t, Mark(5)}), Mark(3))
	case "func":
		p.Funcs["run"] = Func{Body: []N{t, Mark(5), Return(Int(0))}}
		core = []N{Call("r", "run"), Echo(Var("r")), Mark(3)}
	case "rec", "reccatch":
		// the same try statement is re-entered while an outer activation of it is still open
		p.Funcs["run"] = Func{Params: []Param{{Name: "n"}}, Body: []N{withRecursion(t, ctx == "reccatch"), Mark(5), Return(Var("n"))}}
		core = []N{Call("r", "run", Int(2)), Echo(Var("r")), Mark(3)}
	}
	if outerCatch {
		p.Main = []N{Mark(1), Try(core, []Catch{{Types: []string{"Throwable"}, Var: "o", Body: []N{Mark(6), EchoMsg("o")}}}, true, []N{Mark(7)}), Mark(2)}
	} else {
		p.Main = append([]N{Mark(1)}, core...)
	}
	return p
}

// EnumTry enumerates depth-1 shapes completely and depth-2 shapes (a try nested in the body or in a
// catch of another try) for a sample chosen by rng.
func EnumTry(rng *rand.Rand, depth2 int) []*Program {
	var out []*Program
	for _, ctx := range TryCtxs {
		for _, be := range BodyExits {
			if !validIn(ctx, be) {
				continue
			}
			for ci, cl := range catchLists {
				for _, ce := range CatchExits {
					if !validIn(ctx, ce) || (len(cl) == 0 && ce != "fall") {
						continue
					}
					for _, fe := range FinExits {
						if !validIn(ctx, fe) || (len(cl) == 0 && fe == "none") {
							continue
						}
						p := place(ctx, tryStmt(100, nil, be, cl, ce, fe), true)
						p.Tags = []string{"fam=try", fmt.Sprintf("body=%s/catches=%d/cbody=%s/fin=%s/nest=none/in=%s", be, ci, ce, fe, ctx)}
						out = append(out, p)
					}
				}
			}
		}
	}
	for i := 0; i < depth2; i++ {
		ctx := TryCtxs[rng.Intn(len(TryCtxs))]
		pickExit := func(l []string) string {
			for {
				e := l[rng.Intn(len(l))]
				if validIn(ctx, e) {
					return e
				}
			}
		}
		ci, co := rng.Intn(len(catchLists)), 1+rng.Intn(len(catchLists)-1)
		inner := tryStmt(200, nil, pickExit(BodyExits), catchLists[ci], pickExit(CatchExits), pickExit(FinExits))
		var outer N
		where := "body"
		if rng.Intn(2) == 0 {
			outer = tryStmt(100, []N{inner}, pickExit(BodyExits), catchLists[co], pickExit(CatchExits), pickExit(FinExits))
		} else {
			where = "catch"
			// inner try inside the first catch body of the outer try
			cl := append([]Catch{}, catchLists[co]...)
			o := tryStmt(100, nil, "throwA2", cl, "fall", pickExit(FinExits))
			cs := o["catches"].([]any)
			first := cs[0].(N)
			first["body"] = append([]any{inner}, first["body"].([]any)...)
			outer = o
		}
		p := place(ctx, outer, true)
		p.Tags = []string{"fam=try", fmt.Sprintf("nest=%s/in=%s/seeded=%d", where, ctx, i)}
		out = append(out, p)
	}
	return out
}

// Uncaught builds programs that end with an uncaught throwable after some output (exit status family).
func Uncaught() []*Program {
	var out []*Program
	for _, be := range []string{"throwA", "throwOther"} {
		for _, fe := range []string{"none", "fall"} {
			p := place("top", tryStmt(100, nil, be, catchLists[3][:1], "fall", fe), false)
			p.Tags = []string{"fam=uncaught", fmt.Sprintf("body=%s/fin=%s", be, fe)}
			out = append(out, p)
		}
	}
	return out
}

// ExcIsA is the reference subtype relation of the exception fixture (the Go twin of Lang.tla's IsA).
func ExcIsA(c, t string) bool {
	if c == t || t == "Throwable" || t == "Exception" {
		return true
	}
	var ifaceIsA func(i, t string) bool
	ifaceIsA = func(i, t string) bool {
		if i == t {
			return true
		}
		for _, f := range excIfaces {
			if f.Name == i {
				for _, e := range f.Ext {
					if ifaceIsA(e, t) {
						return true
					}
				}
			}
		}
		return false
	}
	cl, ok := excClasses[c]
	if !ok {
		return false
	}
	for _, i := range cl.Impl {
		if ifaceIsA(i, t) {
			return true
		}
	}
	return cl.Ext != "" && ExcIsA(cl.Ext, t)
}

// ExcFixtureSource declares the exception fixture (interfaces, then classes parents first).
func ExcFixtureSource() string {
	p := &Program{Funcs: map[string]Func{}, Classes: excClasses, Ifaces: excIfaces}
	return p.Source("")
}

// ExcTypes lists the fixture's classes and interfaces.
func ExcTypes() (classes, ifaces []string) {
	for c := range excClasses {
		classes = append(classes, c)
	}
	sort.Strings(classes)
	for _, i := range excIfaces {
		ifaces = append(ifaces, i.Name)
	}
	return
}
