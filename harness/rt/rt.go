// Package rt runs origami scripts in-process on a fresh parser+VM+std per run.
package rt

import (
	"fmt"
	"os"
	"runtime/debug"
	"strings"
	"sync"
	"time"

	"github.com/php-any/origami/data"
	"github.com/php-any/origami/node"
	"github.com/php-any/origami/parser"
	"github.com/php-any/origami/runtime"
	"github.com/php-any/origami/std"
	netannotation "github.com/php-any/origami/std/net/annotation"
	"github.com/php-any/origami/std/net/http"
	"github.com/php-any/origami/std/net/websocket"
	"github.com/php-any/origami/std/php"
	"github.com/php-any/origami/std/system"
)

// Result is what a script or client can observe from one run.
type Result struct {
	Out           string `json:"out"`
	ParseErr      string `json:"parse_err,omitempty"` // non-empty: source rejected (diagnostic text)
	ParseLine     int    `json:"parse_line,omitempty"`
	ParseCol      int    `json:"parse_col,omitempty"`
	ParseSrc      string `json:"parse_src,omitempty"` // the file the diagnostic's position refers to (a script, or a Go source file for errors raised by the host)
	File          string `json:"file,omitempty"`      // the name under which the source was parsed
	Uncaught      string `json:"uncaught,omitempty"` // non-empty: uncaught control reached the top level (AsString)
	UncaughtClass string `json:"uncaught_class,omitempty"`
	Panic         string `json:"panic,omitempty"` // Go panic escaped the interpreter
	PanicStack    string `json:"panic_stack,omitempty"`
	Phase         string `json:"phase,omitempty"` // where the panic happened: lex|parse|run
}

// RunTimeout bounds one in-process run; OnHang is called before the process exits.
var RunTimeout = 20 * time.Second
var OnHang func(src string)

// mu serialises runs: data.WriteOutput is process-global.
var mu sync.Mutex

// NewVM builds a fresh parser + VM with the same libraries the CLI loads.
func NewVM() (*runtime.VM, *parser.Parser) {
	p := parser.NewParser()
	vm := runtime.NewVM(p)
	std.Load(vm)
	php.Load(vm)
	http.Load(vm)
	websocket.Load(vm)
	netannotation.Load(vm)
	system.Load(vm)
	return vm.(*runtime.VM), p
}

// Opts selects lexing mode etc.
type Opts struct {
	Template bool   // <?php template mode (file name ends in .php)
	File     string // virtual file name
	NoRun    bool   // parse only
}

type uncaughtPanic struct{ acl data.Control }

// Run executes src on a fresh VM and returns what was observed.
func Run(src string, o Opts) (res Result) {
	mu.Lock()
	defer mu.Unlock()
	// watchdog: an in-process run cannot be cancelled; a script that does not finish is reported on
	// stderr and the process exits with status 3 so that the driver's caller sees an infrastructure
	// failure instead of a silent hang (drivers that expect hangs use subprocess workers instead)
	done := make(chan struct{})
	defer close(done)
	go func() {
		select {
		case <-done:
		case <-time.After(RunTimeout):
			fmt.Fprintf(os.Stderr, "rt.Run: script did not finish within %v:\n%s\n", RunTimeout, src)
			if OnHang != nil {
				OnHang(src)
			}
			os.Exit(3)
		}
	}()
	var sb strings.Builder
	old := data.WriteOutput
	data.WriteOutput = func(s string) { sb.WriteString(s) }
	defer func() { data.WriteOutput = old }()
	// Every run gets a directory of its own, <tmp>/verif-run-*/src/: constructs that look at the directory of the
	// file at parse time (#[Application(scan: __DIR__)] loads and runs every script below it, boot() may
	// require dirname(__DIR__)/...) must see neither the inputs of concurrent runs nor anything else in the
	// shared temp directory.
	file := o.File
	priv := ""
	if file == "" {
		d, err := os.MkdirTemp("", "verif-run-")
		if err != nil {
			panic(err)
		}
		defer os.RemoveAll(d)
		priv = d + "/src"
		if err := os.Mkdir(priv, 0o755); err != nil {
			panic(err)
		}
		if o.Template {
			file = priv + "/input.php"
		} else {
			file = priv + "/input.zy"
		}
	}
	res.File = file
	res.Phase = "init"
	// a Go panic recovered by a try statement is still a crash of the interpreter, not an error of the script
	tryPanicMu.Lock()
	tryPanic, tryPanicStack = "", ""
	tryPanicMu.Unlock()
	node.VerifTryPanic = noteTryPanic
	defer func() {
		tryPanicMu.Lock()
		defer tryPanicMu.Unlock()
		if res.Panic == "" && tryPanic != "" {
			res.Panic = "recovered by a try statement: " + tryPanic
			res.PanicStack = tryPanicStack
		}
	}()
	defer func() {
		if r := recover(); r != nil {
			if up, ok := r.(uncaughtPanic); ok {
				res.Out = sb.String()
				res.Uncaught = up.acl.AsString()
				res.UncaughtClass = throwClass(up.acl)
				return
			}
			res.Out = sb.String()
			res.Panic = fmt.Sprint(r)
			res.PanicStack = string(debug.Stack())
		}
	}()
	vm, p := NewVM()
	vm.SetThrowControl(func(acl data.Control) { panic(uncaughtPanic{acl}) })
	res.Phase = "parse"
	pp := p.Clone()
	var prog data.GetValue
	var acl data.Control
	if o.Template {
		// mirror Parser.ParseFile for .php: write to a temp file so the real path is exercised
		if priv == "" {
			d, err := os.MkdirTemp("", "verif-run-")
			if err != nil {
				panic(err)
			}
			defer os.RemoveAll(d)
			priv = d + "/src"
			if err := os.Mkdir(priv, 0o755); err != nil {
				panic(err)
			}
		}
		res.File = priv + "/input.php"
		if err := os.WriteFile(res.File, []byte(src), 0o644); err != nil {
			panic(err)
		}
		pr, a := pp.ParseFile(res.File)
		prog, acl = pr, a
		if a != nil {
			prog = nil
		}
	} else {
		pr, a := pp.ParseString(src, file)
		prog, acl = pr, a
		if a != nil {
			prog = nil
		}
	}
	if acl != nil {
		res.ParseErr = acl.AsString()
		if res.ParseErr == "" {
			res.ParseErr = "(empty diagnostic)"
		}
		res.ParseLine, res.ParseCol, res.ParseSrc = fromOf(acl)
		res.Phase = "rejected"
		return
	}
	if o.NoRun {
		res.Phase = "parsed"
		return
	}
	res.Phase = "run"
	vars := pp.GetVariables()
	ctx := vm.CreateContext(vars)
	vm.RegisterGlobalContext(vars, ctx)
	_, ctl := prog.GetValue(ctx)
	if data.FlushAllBuffersFn != nil {
		data.FlushAllBuffersFn()
	}
	res.Out = sb.String()
	if ctl != nil {
		res.Uncaught = ctl.AsString()
		res.UncaughtClass = throwClass(ctl)
	}
	res.Phase = "done"
	return
}

var (
	tryPanicMu    sync.Mutex
	tryPanic      string
	tryPanicStack string
)

// noteTryPanic is the handler of node.VerifTryPanic: it keeps the first panic a try statement recovered.
// The runner's own unwinding of an uncaught control (uncaughtPanic) is not a crash.
func noteTryPanic(r any, stack string) {
	if _, ok := r.(uncaughtPanic); ok {
		return
	}
	tryPanicMu.Lock()
	defer tryPanicMu.Unlock()
	if tryPanic == "" {
		tryPanic = fmt.Sprint(r)
		tryPanicStack = stack
	}
}

func throwClass(acl data.Control) string {
	if tv, ok := acl.(*data.ThrowValue); ok && tv != nil {
		if tv.Object != nil {
			return tv.Object.Class.GetName()
		}
		return "<go-error>"
	}
	return fmt.Sprintf("%T", acl)
}

type getFrom interface{ GetFrom() data.From }

func fromOf(acl data.Control) (int, int, string) {
	if tv, ok := acl.(*data.ThrowValue); ok && tv != nil && tv.Error != nil && tv.Error.From != nil {
		l, c := tv.Error.From.GetStartPosition()
		return l + 1, c + 1, tv.Error.From.GetSource()
	}
	if g, ok := acl.(getFrom); ok && g.GetFrom() != nil {
		l, c := g.GetFrom().GetStartPosition()
		return l + 1, c + 1, g.GetFrom().GetSource()
	}
	return -1, -1, ""
}

// Session is a long-lived VM on which several scripts can be run and whose variables can be read
// from Go (used by drivers that need real objects created by scripts, e.g. an HTTP server mux).
type Session struct {
	VM   *runtime.VM
	P    *parser.Parser
	Ctx  data.Context
	Vars []data.Variable
	Out  strings.Builder
}

// NewSession creates a VM whose uncaught controls panic (recovered by Exec).
func NewSession() *Session {
	vm, p := NewVM()
	s := &Session{VM: vm, P: p}
	vm.SetThrowControl(func(acl data.Control) { panic(uncaughtPanic{acl}) })
	return s
}

// Exec parses and runs src on the session VM. Output goes to s.Out while the script runs.
// Callers must hold no other run concurrently (data.WriteOutput is process-global); use Lock/Unlock.
func (s *Session) Exec(src, file string) (res Result) {
	defer func() {
		if r := recover(); r != nil {
			if up, ok := r.(uncaughtPanic); ok {
				res.Uncaught = up.acl.AsString()
				res.UncaughtClass = throwClass(up.acl)
				return
			}
			res.Panic = fmt.Sprint(r)
			res.PanicStack = string(debug.Stack())
		}
	}()
	pp := s.P.Clone()
	prog, acl := pp.ParseString(src, file)
	if acl != nil {
		res.ParseErr = acl.AsString()
		res.ParseLine, res.ParseCol, res.ParseSrc = fromOf(acl)
		return
	}
	s.Vars = pp.GetVariables()
	s.Ctx = s.VM.CreateContext(s.Vars)
	s.VM.RegisterGlobalContext(s.Vars, s.Ctx)
	_, ctl := prog.GetValue(s.Ctx)
	if ctl != nil {
		res.Uncaught = ctl.AsString()
		res.UncaughtClass = throwClass(ctl)
	}
	return
}

// Var returns the value of a top-level variable of the last Exec.
func (s *Session) Var(name string) data.Value {
	for _, v := range s.Vars {
		if v.GetName() == name {
			val, _ := s.Ctx.GetVariableValue(v)
			return val
		}
	}
	return nil
}

// CaptureOutput redirects script output to w until the returned restore func is called.
// It takes the global run lock.
func CaptureOutput(w *strings.Builder) (restore func()) {
	mu.Lock()
	old := data.WriteOutput
	data.WriteOutput = func(s string) { w.WriteString(s) }
	return func() { data.WriteOutput = old; mu.Unlock() }
}

// SwapOutput redirects script output without taking the run lock (caller already holds it via
// CaptureOutput, or is single-threaded).
func SwapOutput(w *strings.Builder) (restore func()) {
	old := data.WriteOutput
	data.WriteOutput = func(s string) { w.WriteString(s) }
	return func() { data.WriteOutput = old }
}
