SPECIFICATION Spec
CONSTANTS
  MaxLen0 = @@MAXLEN0@@
  Emit = TRUE
ACTION_CONSTRAINT EmitEdge
INVARIANTS PrefixLaw SubstringWhole SubstringSymmetric SplitJoinLaw TrimIdempotent
PROPERTIES ReceiverUntouched
CHECK_DEADLOCK FALSE
