SPECIFICATION Spec
CONSTANTS
  MaxInst = @@MAXINST@@
  MaxOps = @@MAXOPS@@
  Emit = TRUE
  Vias = @@VIAS@@
VIEW View
ACTION_CONSTRAINT EmitEdge
INVARIANTS ExactlyOwnType
PROPERTIES Independence WritesDoNotRetype
CHECK_DEADLOCK FALSE
