---------------------------- MODULE Generic ----------------------------
\* C19 -- a generic instantiation enforces its own type arguments, whatever came before.
\*
\* Reference: an instance created as Cls<args> accepts in a member declared with type parameter P
\* exactly the values whose kind equals the argument bound to P.
\* Mechanism (node/class_generic.go, pinned): every instantiation shares one class declaration;
\* the first lookup of a generic-typed property REWRITES the declared type with the looking
\* instance's argument, so later instantiations inherit it -- named deviation
\* "first-instantiation-wins" (variable decl).  Method parameters declared with a type parameter are
\* not checked at all by the pinned code -- named deviation "params-unchecked".
\*
\* Every transition is printed as an EDGE line; Write edges carry the reference verdict (ok) and
\* the deviation layer's verdict (dev).
EXTENDS Integers, Sequences, FiniteSets, TLC, Json

CONSTANTS MaxInst, MaxOps, Emit,
          Vias    \* subset of {"direct", "helper", "this-call"} explored in this run

Types == {"int", "string", "array", "U", "W"}     \* two user classes: instantiations that differ only by class name
Kinds == Types \cup {"X"}                          \* X: an unrelated class, accepted by nobody
\* generic classes: member -> type parameter position
\* Repo<T> extends a non-generic parent class: the instantiation must keep its type arguments through inheritance
Members == [Box |-> [v |-> 1, id |-> 1], Pair |-> [k |-> 1, v |-> 2, setv |-> 2], Repo |-> [last |-> 1, save |-> 1]]
IsParam == [Box |-> [v |-> FALSE, id |-> TRUE], Pair |-> [k |-> FALSE, v |-> FALSE, setv |-> TRUE], Repo |-> [last |-> FALSE, save |-> TRUE]]
ArgChoices == [Box |-> {<<t>> : t \in Types},
               Pair |-> {<<a, b>> : a \in {"int", "string"}, b \in {"string", "array", "U", "W"}},
               Repo |-> {<<t>> : t \in {"int", "string", "U"}}]
Classes == {"Box", "Pair", "Repo"}
\* where the write is written: at its own source position, or inside a helper function shared by every
\* instance (one write site executed for different instantiations -- anything cached per site must not decide)
\* this-call: the typed method is reached from inside the class, through $this, by an untyped relay method
AllVias == {"direct", "helper", "this-call"}

VARIABLES insts,   \* sequence of [cls, args]
          decl,    \* mechanism: decl[cls][member] = "T" (still generic) or the concrete type written into the shared declaration
          n, act
vars == <<insts, decl, n, act>>

Init == /\ insts = <<>> /\ n = 0
        /\ decl = [c \in Classes |-> [m \in DOMAIN Members[c] |-> "T"]]
        /\ act = [op |-> "init", i |-> 0, cls |-> "", args |-> <<>>, member |-> "", kind |-> "", via |-> "", ok |-> TRUE, dev |-> TRUE]
        /\ (Emit => PrintT(<<"INIT", ToJson([insts |-> insts, decl |-> decl])>>))

Instantiate(c, a) ==
  /\ Len(insts) < MaxInst /\ n < MaxOps
  /\ insts' = Append(insts, [cls |-> c, args |-> a]) /\ n' = n + 1
  /\ act' = [op |-> "new", i |-> Len(insts) + 1, cls |-> c, args |-> a, member |-> "", kind |-> "", via |-> "", ok |-> TRUE, dev |-> TRUE]
  /\ UNCHANGED decl

\* reference acceptance of kind k in member m of instance i
Accepts(ins, i, m, k) == k = ins[i].args[Members[ins[i].cls][m]]

Write(i, m, k, via) ==
  /\ i \in 1..Len(insts) /\ n < MaxOps /\ m \in DOMAIN Members[insts[i].cls]
  /\ (via = "this-call" => IsParam[insts[i].cls][m])
  /\ LET c == insts[i].cls
         own == insts[i].args[Members[c][m]]
         \* deviation layer: a property lookup pins the shared declaration on first use; parameters are unchecked
         d1 == IF IsParam[c][m] THEN decl
               ELSE IF decl[c][m] = "T" THEN [decl EXCEPT ![c][m] = own] ELSE decl
         devOk == IF IsParam[c][m] THEN TRUE ELSE k = d1[c][m]
     IN /\ decl' = d1
        /\ act' = [op |-> "write", i |-> i, cls |-> c, args |-> insts[i].args, member |-> m, kind |-> k, via |-> via,
                   ok |-> (k = own), dev |-> devOk]
  /\ n' = n + 1 /\ UNCHANGED insts

Next == \/ \E c \in Classes : \E a \in ArgChoices[c] : Instantiate(c, a)
        \/ \E i \in 1..MaxInst, m \in {"v", "id", "k", "setv", "last", "save"}, k \in Kinds, via \in Vias : Write(i, m, k, via)
Spec == Init /\ [][Next]_vars

St  == [insts |-> insts, decl |-> decl]
St1 == [insts |-> insts', decl |-> decl']
EmitEdge == Emit => PrintT(<<"EDGE", ToJson([from |-> St, act |-> act', to |-> St1])>>)
View == <<insts, decl, n>>

\* ---- properties of the reference layer
\* instantiating never changes what an existing instance accepts
Independence == [][act'.op = "new" => \A i \in 1..Len(insts) : \A m \in DOMAIN Members[insts[i].cls] : \A k \in Kinds :
                      Accepts(insts', i, m, k) = Accepts(insts, i, m, k)]_vars
\* a write never changes what any instance accepts
WritesDoNotRetype == [][act'.op = "write" => insts' = insts]_vars
\* exactly one kind is accepted per member
ExactlyOwnType == \A i \in 1..Len(insts) : \A m \in DOMAIN Members[insts[i].cls] :
                     Cardinality({k \in Kinds : Accepts(insts, i, m, k)}) = 1
=============================================================================
