SPECIFICATION Spec
CONSTANTS
  Keys = {"a", "b", "c", "d"}
  Vals = {1, 2}
  Emit = TRUE
INVARIANTS NoDuplicateKeys
PROPERTIES OrderStable NewKeysAtEnd
ACTION_CONSTRAINT EmitEdge
VIEW View
CHECK_DEADLOCK FALSE
