---------------------------- MODULE RegistryLin ----------------------------
\* C10, direction B -- recorded call/return histories of concurrent registry calls on a real VM
\* are validated against Registry, the atomic reference specification.  Linearizability is
\* compositional, so the recorder splits the history per name; one name is one object across the
\* class and interface tables (they share a name space), the function table, the constant table
\* and the global-variable table.
\*
\* Reference semantics of one name (cell):
\*   addClass(f)  -> ok | dup     dup when a class or interface of that name from another file exists;
\*                                the same file again is accepted and changes nothing
\*   addIface(f)  -> ok | dup     likewise
\*   getClass     -> f | none     getIface -> f | none
\*   addFunc      -> ok | dup     getFunc  -> found | none
\*   setConst(v)  -> ok | dup     first writer wins;   getConst -> v | none
\*   ensureGlobal -> id           the first call creates the cell, every call returns the same id
\* "every successful registration is visible to all later lookups" and "a duplicate is rejected for all
\* but one registrant" are consequences of these rules plus real-time order.
EXTENDS Integers, Sequences, FiniteSets, TLC, Json

Hists == ndJsonDeserialize("hist.ndjson")
\* line: [ops |-> <<[op, arg, res]>>, ev |-> <<[t, id]>>]

VARIABLES h, pos, pend, lin, cls, ifc, fn, cst, glb
vars == <<h, pos, pend, lin, cls, ifc, fn, cst, glb>>
No == "none"

H == Hists[h]
Report(p) == (p > Len(H.ev)) => PrintT(<<"ACCEPT", ToJson([h |-> h])>>)

Init == /\ h \in 1..Len(Hists) /\ pos = 1 /\ pend = {} /\ lin = {}
        /\ cls = No /\ ifc = No /\ fn = FALSE /\ cst = No /\ glb = No
        /\ Report(IF Len(Hists[h].ev) = 0 THEN 1 ELSE 0)

Call == /\ pos <= Len(H.ev) /\ H.ev[pos].t = "c"
        /\ pend' = pend \cup {H.ev[pos].id} /\ pos' = pos + 1 /\ Report(pos')
        /\ UNCHANGED <<h, lin, cls, ifc, fn, cst, glb>>
Ret  == /\ pos <= Len(H.ev) /\ H.ev[pos].t = "r" /\ H.ev[pos].id \in lin
        /\ lin' = lin \ {H.ev[pos].id} /\ pos' = pos + 1 /\ Report(pos')
        /\ UNCHANGED <<h, pend, cls, ifc, fn, cst, glb>>

Is(id, r) == H.ops[id].res = "pending" \/ H.ops[id].res = r

Lin(id) ==
  /\ id \in pend
  /\ LET o == H.ops[id] IN
     CASE o.op = "addClass" ->
            IF cls # No THEN Is(id, IF cls = o.arg THEN "ok" ELSE "dup") /\ UNCHANGED <<cls, ifc, fn, cst, glb>>
            ELSE IF ifc # No THEN Is(id, IF ifc = o.arg THEN "ok" ELSE "dup") /\ UNCHANGED <<cls, ifc, fn, cst, glb>>
            ELSE Is(id, "ok") /\ cls' = o.arg /\ UNCHANGED <<ifc, fn, cst, glb>>
       [] o.op = "addIface" ->
            IF cls # No THEN Is(id, IF cls = o.arg THEN "ok" ELSE "dup") /\ UNCHANGED <<cls, ifc, fn, cst, glb>>
            ELSE IF ifc # No THEN Is(id, IF ifc = o.arg THEN "ok" ELSE "dup") /\ UNCHANGED <<cls, ifc, fn, cst, glb>>
            ELSE Is(id, "ok") /\ ifc' = o.arg /\ UNCHANGED <<cls, fn, cst, glb>>
       [] o.op = "getClass" -> Is(id, cls) /\ UNCHANGED <<cls, ifc, fn, cst, glb>>
       [] o.op = "getIface" -> Is(id, ifc) /\ UNCHANGED <<cls, ifc, fn, cst, glb>>
       [] o.op = "addFunc"  -> IF fn THEN Is(id, "dup") /\ UNCHANGED <<cls, ifc, fn, cst, glb>>
                                     ELSE Is(id, "ok") /\ fn' = TRUE /\ UNCHANGED <<cls, ifc, cst, glb>>
       [] o.op = "getFunc"  -> Is(id, IF fn THEN "found" ELSE No) /\ UNCHANGED <<cls, ifc, fn, cst, glb>>
       [] o.op = "setConst" -> IF cst # No THEN Is(id, "dup") /\ UNCHANGED <<cls, ifc, fn, cst, glb>>
                                           ELSE Is(id, "ok") /\ cst' = o.arg /\ UNCHANGED <<cls, ifc, fn, glb>>
       [] o.op = "getConst" -> Is(id, cst) /\ UNCHANGED <<cls, ifc, fn, cst, glb>>
       [] o.op = "ensureGlobal" ->
            IF glb # No THEN Is(id, glb) /\ UNCHANGED <<cls, ifc, fn, cst, glb>>
            ELSE o.res # "pending" /\ glb' = o.res /\ UNCHANGED <<cls, ifc, fn, cst>>
  /\ pend' = pend \ {id} /\ lin' = lin \cup {id}
  /\ UNCHANGED <<h, pos>>

Next == Call \/ Ret \/ \E id \in pend : Lin(id)
Spec == Init /\ [][Next]_vars
Accepted == pos > Len(H.ev)
Prune == ~Accepted
=============================================================================
