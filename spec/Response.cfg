SPECIFICATION Spec
CONSTANTS
  MaxOps = @@MAXOPS@@
  Deviations = @@DEV@@
  Emit = @@EMIT@@
VIEW View
ACTION_CONSTRAINT EmitEdge
INVARIANTS TypeOK CommitOnce ImplIndInv Refines
PROPERTIES FrozenAfterCommit ImplFrozenAfterCommit BodyAppendOnly
CHECK_DEADLOCK FALSE
