SPECIFICATION Spec
CONSTANTS
  Chans = @@CHANS@@
  Caps = @@CAPS@@
  MaxOps = @@MAXOPS@@
  Emit = TRUE
VIEW View
ACTION_CONSTRAINT EmitEdge
INVARIANTS TypeOK
PROPERTIES Independence ClosedIsStable FifoPerChannel
CHECK_DEADLOCK FALSE
