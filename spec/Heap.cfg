SPECIFICATION Spec
CONSTANTS
  MaxMut = @@MAXMUT@@
  Emit = @@EMIT@@
VIEW View
ACTION_CONSTRAINT EmitEdge
PROPERTIES @@PROPS@@
CHECK_DEADLOCK FALSE
