---------------------------- MODULE Front ----------------------------
\* C01 (outcome automaton), direction B -- recorded executions of the front end are validated against the
\* only outcomes the property allows.
\*
\* One line of trace.ndjson is one input: [id, len, lines, ev], ev = sequence of events
\*   [e |-> "lex", ntok]                       the lexer returned ntok tokens
\*   [e |-> "iter", p, q, ntok, nil]           one iteration of the statement loop moved the parser from p to q
\*   [e |-> "parse_ok"]  /  [e |-> "parse_err", line, col, own]   (own = 1: the diagnostic names the input itself)
\*   [e |-> "run", kind]                       kind: output | script_error | exit | not_run | loops (script-level non-termination, inconclusive)
\*   [e |-> "crash", where, what]  /  [e |-> "timeout", where]      recorded, but NO action consumes them
\* Phases: src -> lexed -> parsing -> parsed | rejected -> done.  There is deliberately no action for a panic,
\* a fatal error, a timeout, or a third statement-loop iteration in a row that does not advance: a recorded
\* execution containing one is not a behaviour and is rejected with the offending event.
EXTENDS Integers, Sequences, FiniteSets, TLC, Json

Runs == ndJsonDeserialize("trace.ndjson")
CONSTANTS TokenSlack      \* tokens may exceed bytes by synthetic tokens: ntok <= 2 * len + TokenSlack

VARIABLES h, i, phase, stuck, verdict
vars == <<h, i, phase, stuck, verdict>>
R == Runs[h]
E == R.ev[i]

CanLex == phase = "src" /\ E.e = "lex" /\ E.ntok >= 0 /\ E.ntok <= 2 * R.len + TokenSlack
CanIter == phase \in {"lexed", "parsing"} /\ E.e = "iter" /\ E.p >= 0 /\ E.q >= E.p /\ E.q <= E.ntok + TokenSlack   \* reading past the end yields EOF tokens
           /\ (E.q > E.p \/ stuck < 2)                       \* position strictly advances, or the parse is about to fail
CanAccept == phase \in {"lexed", "parsing"} /\ E.e = "parse_ok"
CanReject == phase \in {"lexed", "parsing"} /\ E.e = "parse_err" /\ E.line >= 1 /\ E.col >= 1
             /\ (E.own = 1 => E.line <= R.lines + 1)      \* a diagnostic about the input itself points inside it
CanRunEnd == phase = "parsed" /\ E.e = "run" /\ E.kind \in {"output", "script_error", "exit", "not_run", "loops"}

Why == IF E.e \in {"crash", "timeout"} THEN E.e \o " in " \o E.where
       ELSE IF E.e = "iter" /\ phase \in {"lexed", "parsing"} THEN "statement loop does not advance"
       ELSE IF E.e = "parse_err" THEN "diagnostic position outside the source"
       ELSE IF E.e = "lex" THEN "token count out of proportion"
       ELSE "event " \o E.e \o " not allowed in phase " \o phase

Init == /\ h \in 1..Len(Runs) /\ i = 1 /\ phase = "src" /\ stuck = 0 /\ verdict = "run"
More == verdict = "run" /\ i <= Len(R.ev)
Step(ph, st) == /\ phase' = ph /\ stuck' = st /\ i' = i + 1 /\ UNCHANGED <<h, verdict>>
Lex == More /\ CanLex /\ Step("lexed", 0)
ParseIter == More /\ CanIter /\ Step("parsing", IF E.q > E.p THEN 0 ELSE stuck + 1)
Accept == More /\ CanAccept /\ Step("parsed", 0)
Reject == More /\ CanReject /\ Step("rejected", 0)
RunEnd == More /\ CanRunEnd /\ Step("done", 0)
Refuse == /\ More /\ ~(CanLex \/ CanIter \/ CanAccept \/ CanReject \/ CanRunEnd)
          /\ verdict' = "rejected"
          /\ PrintT(<<"REJECT", ToJson([h |-> h, id |-> R.id, at |-> i, why |-> Why, event |-> E, phase |-> phase])>>)
          /\ UNCHANGED <<h, i, phase, stuck>>
Finish == /\ verdict = "run" /\ i = Len(R.ev) + 1
          /\ IF phase \in {"rejected", "done"}
             THEN verdict' = "accepted" /\ PrintT(<<"ACCEPT", ToJson([h |-> h])>>)
             ELSE verdict' = "rejected" /\ PrintT(<<"REJECT", ToJson([h |-> h, id |-> R.id, at |-> i, why |-> "execution ends in phase " \o phase, event |-> [e |-> "end"], phase |-> phase])>>)
          /\ UNCHANGED <<h, i, phase, stuck>>
Next == Lex \/ ParseIter \/ Accept \/ Reject \/ RunEnd \/ Refuse \/ Finish
Spec == Init /\ [][Next]_vars

\* ---------------------------------------------------------------- properties of the automaton
PhaseOK == phase \in {"src", "lexed", "parsing", "parsed", "rejected", "done"}
AcceptedEndsWell == verdict = "accepted" => phase \in {"rejected", "done"}
StuckBounded == stuck <= 2
=============================================================================
