---------------------------- MODULE Expr ----------------------------
\* C04 -- expressions parse by the fixed precedence and associativity table.
\*
\* The operator table is data (Level, Assoc).  For every expression tree within the bound the
\* spec computes MinPrint(t) (only the parentheses the table requires) and FullPrint(t) (every
\* sub-expression parenthesised), and TLC checks that parsing MinPrint(t) BY THE TABLE
\* (precedence climbing, ParseByTable) gives back t -- i.e. the printer is right about which
\* parentheses are redundant.  Every tree is printed as a CASE line; the replay engine evaluates
\* both printings on the real interpreter and requires equal results.  For pairs it also gets the
\* OTHER grouping fully parenthesised, to find operand values that tell the groupings apart.
\*
\* Levels, loosest first (parser/expression_parser.go, docs/operators.md):
\*   1 ??(R)   2 .(L)   3 ||   4 &&   5 |   6 ^   7 &   8 == != === !== (N)   9 < <= > >= <=> (N)
\*   0 ?: (nested ternaries always parenthesised)
\*   10 << >>  11 + -   12 * / %   13 unary ! - ~ (int) (string)   14 **(R)
EXTENDS Integers, Sequences, FiniteSets, TLC, Json

CONSTANTS Family,      \* "pairs" | "triples" | "unary" | "ternary"
          Emit

BinOps == {"??", ".", "||", "&&", "|", "^", "&", "==", "!=", "===", "!==", "<", "<=", ">", ">=", "<=>", "<<", ">>", "+", "-", "*", "/", "%", "**"}
UnOps == {"!", "-", "~", "(int)", "(string)"}      \* casts are prefix operators of the unary level
Level(op) == CASE op = "??" -> 1 [] op = "." -> 2 [] op = "||" -> 3 [] op = "&&" -> 4 [] op = "|" -> 5 [] op = "^" -> 6
               [] op = "&" -> 7 [] op \in {"==", "!=", "===", "!=="} -> 8 [] op \in {"<", "<=", ">", ">=", "<=>"} -> 9
               [] op \in {"<<", ">>"} -> 10 [] op \in {"+", "-"} -> 11 [] op \in {"*", "/", "%"} -> 12 [] op = "**" -> 14
UnaryLevel == 13
\* named deviation "dot-binds-tightest": the pinned parser consumes `.` as a postfix operator of the
\* operand on its left, i.e. tighter than ** and the prefix operators
LevelD(op, dev) == IF dev /\ op = "." THEN 15 ELSE Level(op)
Assoc(op) == IF op \in {"??", "**"} THEN "R" ELSE IF Level(op) \in {8, 9} THEN "N" ELSE "L"

Leaf(n) == [k |-> "leaf", n |-> n]
Bin(op, l, r) == [k |-> "bin", op |-> op, l |-> l, r |-> r]
Un(op, e) == [k |-> "un", op |-> op, e |-> e]
\* ternary c ? t : f -- looser than every binary operator (level 0); nested ternaries are always parenthesised
Tern(c, t, f) == [k |-> "tern", c |-> c, t |-> t, f |-> f]
Lvl(t) == CASE t.k = "leaf" -> 99 [] t.k = "un" -> UnaryLevel [] t.k = "bin" -> Level(t.op) [] t.k = "tern" -> 0

\* ---------------------------------------------------------------- printing
Paren(s) == <<"(">> \o s \o <<")">>
RECURSIVE MinPrint(_)
MinPrint(t) ==
  CASE t.k = "leaf" -> <<t.n>>
    [] t.k = "un" -> <<t.op>> \o (IF Lvl(t.e) < UnaryLevel THEN Paren(MinPrint(t.e)) ELSE MinPrint(t.e))
    [] t.k = "tern" -> (IF t.c.k = "tern" THEN Paren(MinPrint(t.c)) ELSE MinPrint(t.c)) \o <<"?">>
                       \o (IF t.t.k = "tern" THEN Paren(MinPrint(t.t)) ELSE MinPrint(t.t)) \o <<":">>
                       \o (IF t.f.k = "tern" THEN Paren(MinPrint(t.f)) ELSE MinPrint(t.f))
    [] t.k = "bin" ->
         LET L == Level(t.op) A == Assoc(t.op)
             needL == Lvl(t.l) < L \/ (Lvl(t.l) = L /\ A # "L")
             \* a prefix operator in right-operand position is unambiguous and never needs parentheses
             needR == t.r.k # "un" /\ (Lvl(t.r) < L \/ (Lvl(t.r) = L /\ A # "R"))
         IN (IF needL THEN Paren(MinPrint(t.l)) ELSE MinPrint(t.l)) \o <<t.op>>
            \o (IF needR THEN Paren(MinPrint(t.r)) ELSE MinPrint(t.r))
RECURSIVE FullPrint(_)
FullPrint(t) ==
  CASE t.k = "leaf" -> <<t.n>>
    [] t.k = "un" -> Paren(<<t.op>> \o FullPrint(t.e))
    [] t.k = "tern" -> Paren(FullPrint(t.c) \o <<"?">> \o FullPrint(t.t) \o <<":">> \o FullPrint(t.f))
    [] t.k = "bin" -> Paren(FullPrint(t.l) \o <<t.op>> \o FullPrint(t.r))

\* ---------------------------------------------------------------- parsing by the table (precedence climbing)
\* Parse functions return [t |-> tree, rest |-> remaining tokens].
IsLeafTok(x) == x \in {"a", "b", "c", "d"}
RECURSIVE ParseExpr(_, _, _), ParsePrimary(_, _), Climb(_, _, _, _), ParseFull(_, _)
ParsePrimary(ts, dev) ==
  LET h == Head(ts) IN
  IF h = "(" THEN LET r == ParseFull(Tail(ts), dev) IN [t |-> r.t, rest |-> Tail(r.rest)]      \* skip ")"
  ELSE IF h \in UnOps THEN LET r == ParseExpr(Tail(ts), UnaryLevel, dev) IN [t |-> Un(h, r.t), rest |-> r.rest]
  ELSE [t |-> Leaf(h), rest |-> Tail(ts)]
Climb(lhs, ts, minLvl, dev) ==
  IF ts = <<>> \/ Head(ts) \notin BinOps \/ LevelD(Head(ts), dev) < minLvl THEN [t |-> lhs, rest |-> ts]
  ELSE LET op == Head(ts)
           nextMin == IF Assoc(op) = "R" THEN LevelD(op, dev) ELSE LevelD(op, dev) + 1
           r == ParseExpr(Tail(ts), nextMin, dev)
           \* (non-associative levels are parsed like left-associative ones: MinPrint never emits two
           \* operators of such a level side by side without parentheses)
       IN Climb(Bin(op, lhs, r.t), r.rest, minLvl, dev)
ParseExpr(ts, minLvl, dev) == LET p == ParsePrimary(ts, dev) IN Climb(p.t, p.rest, minLvl, dev)
\* a full expression: a binary expression, optionally followed by ? full : full
ParseFull(ts, dev) ==
  LET c == ParseExpr(ts, 1, dev) IN
  IF c.rest # <<>> /\ Head(c.rest) = "?"
  THEN LET t == ParseFull(Tail(c.rest), dev)          \* up to the matching ":"
           f == ParseFull(Tail(t.rest), dev)          \* skip ":"
       IN [t |-> Tern(c.t, t.t, f.t), rest |-> f.rest]
  ELSE c
ParseByTable(ts) == ParseFull(ts, FALSE).t
ParseByDeviation(ts) == ParseFull(ts, TRUE).t

\* ---------------------------------------------------------------- the families of trees
A == Leaf("a")  Bb == Leaf("b")  Cc == Leaf("c")  Dd == Leaf("d")
\* (operators with a parameter so that TLC does not precompute the big families it does not use)
PairShape(i, o1, o2) == IF i = 1 THEN Bin(o2, Bin(o1, A, Bb), Cc) ELSE Bin(o1, A, Bin(o2, Bb, Cc))
\* the five shapes of three binary operators over a b c d
TripleShape(i, o1, o2, o3) ==
  CASE i = 1 -> Bin(o3, Bin(o2, Bin(o1, A, Bb), Cc), Dd) [] i = 2 -> Bin(o3, Bin(o1, A, Bin(o2, Bb, Cc)), Dd)
    [] i = 3 -> Bin(o2, Bin(o1, A, Bb), Bin(o3, Cc, Dd)) [] i = 4 -> Bin(o1, A, Bin(o3, Bin(o2, Bb, Cc), Dd))
    [] i = 5 -> Bin(o1, A, Bin(o2, Bb, Bin(o3, Cc, Dd)))
UnaryShape(i, u, o) ==
  CASE i = 1 -> Un(u, Bin(o, A, Bb)) [] i = 2 -> Bin(o, Un(u, A), Bb) [] i = 3 -> Bin(o, A, Un(u, Bb))
    [] i = 4 -> Un(u, Un(u, A)) [] i = 5 -> Bin(o, Un(u, Bin(o, A, Bb)), Cc)
TernShape(i, o) ==
  CASE i = 1 -> Tern(Bin(o, A, Bb), Cc, Dd) [] i = 2 -> Tern(A, Bb, Bin(o, Cc, Dd)) [] i = 3 -> Tern(A, Bin(o, Bb, Cc), Dd)
    [] i = 4 -> Bin(o, Tern(A, Bb, Cc), Dd) [] i = 5 -> Bin(o, A, Tern(Bb, Cc, Dd))
    [] i = 6 -> Tern(Un("!", A), Bb, Cc) [] i = 7 -> Un("-", Tern(A, Bb, Cc)) [] i = 8 -> Tern(A, Tern(Bb, Cc, Dd), A) [] i = 9 -> Tern(A, Bb, Tern(Cc, Dd, A))
Trees(fam) == CASE fam = "ternary" -> {TernShape(i, o) : i \in 1..9, o \in BinOps}
                [] fam = "pairs" -> {PairShape(i, o1, o2) : i \in 1..2, o1 \in BinOps, o2 \in BinOps}
                [] fam = "triples" -> {TripleShape(i, o1, o2, o3) : i \in 1..5, o1 \in BinOps, o2 \in BinOps, o3 \in BinOps}
                [] fam = "unary" -> {UnaryShape(i, u, o) : i \in 1..5, u \in UnOps, o \in BinOps}

\* the other grouping of a pair (same operators, same operand order)
Regroup(t) == IF t.l.k = "bin" THEN Bin(t.l.op, t.l.l, Bin(t.op, t.l.r, t.r)) ELSE Bin(t.r.op, Bin(t.op, t.l, t.r.l), t.r.r)

VARIABLES tree, done
vars == <<tree, done>>
Init == tree \in Trees(Family) /\ done = FALSE
Answer == /\ ~done /\ done' = TRUE /\ UNCHANGED tree
          /\ (Emit => PrintT(<<"CASE", ToJson([family |-> Family, min |-> MinPrint(tree), full |-> FullPrint(tree),
                                              other |-> IF Family = "pairs" THEN FullPrint(Regroup(tree)) ELSE <<>>,
                                              devfull |-> FullPrint(ParseByDeviation(MinPrint(tree)))])>>))
Spec == Init /\ [][Answer]_vars

\* ---------------------------------------------------------------- the printer is right with respect to the table
ParsePrintRoundTrip == ParseByTable(MinPrint(tree)) = tree /\ ParseByTable(FullPrint(tree)) = tree
\* the minimal printing never has more tokens than the full one
MinIsMinimal == Len(MinPrint(tree)) <= Len(FullPrint(tree))
=============================================================================
