---------------------------- MODULE Protowire ----------------------------
\* C14 (protobuf wire decoder) -- the raw-field parser as a push-down machine over abstract wire items.
\*
\* The input is a flat token stream.  Every token stands for a self-delimiting byte pattern that the
\* replay engine concretises with google.golang.org/protobuf/encoding/protowire:
\*   "V" "F32" "F64" "L" "P"   well-formed scalar fields (varint, fixed32, fixed64, bytes, packed varints)
\*   "P32" "P64" "P0"          well-formed packed fields: two fixed32 elements, two fixed64 elements, an empty payload
\*   "Vover" "Tag0" "WT6"      malformed but self-delimiting: 10-byte varint with overflow, field number 0, wire type 6
\*   "Pcut" "P32cut" "P64cut"  a packed field whose length prefix is fine but whose payload ends inside an element
\*                             (last varint has no final byte; 4n+2 bytes of fixed32; 8n+4 bytes of fixed64): every
\*                             byte of a packed payload must belong to a complete element
\*   "M(" ... ")M"             a length-delimited field configured as a nested message; ")M" is the END OF THE
\*                             PAYLOAD (a length, not a byte), so it always matches its "M("
\*   "G("                      start-group tag (number 7)
\*   "EG7" "EG8"               end-group tags with number 7 (closes a group 7) and number 8 (closes nothing)
\*   "Vtrunc" "Lover"          only as the very last token: a varint cut off by the end of input, a length
\*                             prefix that promises more bytes than remain
\* The machine keeps a stack of frames ("top" | "msg" | "grp").  The nesting limit: a frame may be
\* opened only while the number of enclosing frames (top included) is < MaxDepth.
\* Accept requires every token consumed and no frame left open.
\*
\* Dev is the set of named deviations of the pinned implementation:
\*   "stray-endgroup-stops-parse"  an end-group tag outside a group silently ends the enclosing payload
\*                                 (top level: the parser reports success and drops the remaining bytes)
\*   "group-depth-off-by-one"      opening a group is checked against the depth of the enclosing frame,
\*                                 so groups may nest one level deeper than messages
EXTENDS Integers, Sequences, FiniteSets, TLC, Json

CONSTANTS Family,     \* "flat" | "nested" | "chains" | "packed"
          MaxDepths,  \* set of max_depth settings explored
          Dev, Emit

OkLeaves == {"V", "F32", "F64", "L", "P", "P32", "P64", "P0"}
BadLeaves == {"Vover", "Tag0", "WT6", "Pcut", "P32cut", "P64cut"}
\* the packed classes beyond "P" are generated in the packed family only (the other families grow with |Flat|^3)
PackedToks == {"P32", "P64", "P0", "Pcut", "P32cut", "P64cut"}
GroupToks == {"G(", "EG7", "EG8"}
TailToks == {"Vtrunc", "Lover"}
Flat == (OkLeaves \cup BadLeaves \cup GroupToks) \ PackedToks

\* ---------------------------------------------------------------- input families (each element is a token stream)
Seqs(S, n) == UNION {[1..k -> S] : k \in 0..n}
Wrap(p) == <<"M(">> \o p \o <<")M">>
\* flat: every stream of up to 3 flat tokens, optionally followed by a tail token
FlatFam == LET base == Seqs(Flat, 3) IN base \cup {p \o <<t>> : p \in Seqs(Flat, 2), t \in TailToks}
\* nested: up to 2 items at the top, each a flat token or a message whose payload is up to 2 items, each again a
\* flat token or a message with up to 1 flat token
Pay0 == Seqs(Flat, 1)
Item1 == {<<t>> : t \in Flat} \cup {Wrap(p) : p \in Pay0}
Cat2(S) == {<<>>} \cup S \cup {a \o b : a \in S, b \in S}
Pay1 == Cat2(Item1)
Item2 == {<<t>> : t \in Flat} \cup {Wrap(p) : p \in Pay1}
FlatItem == {<<t>> : t \in Flat}
NestedFam == {<<>>} \cup Item2 \cup {a \o b : a \in Item2, b \in FlatItem} \cup {b \o a : a \in Item2, b \in FlatItem}
\* chains: k frames opened one inside the other (every mix of groups and messages up to 5, then only-groups and
\* only-messages up to 70), one varint inside, all closed properly
RECURSIVE Chain(_)
Chain(kinds) == IF kinds = <<>> THEN <<"V">>
                ELSE IF Head(kinds) = "m" THEN Wrap(Chain(Tail(kinds)))
                ELSE <<"G(">> \o Chain(Tail(kinds)) \o <<"EG7">>
ChainFam == {Chain(ks) : ks \in Seqs({"m", "g"}, 5)}
            \cup {Chain([i \in 1..k |-> "m"]) : k \in {62, 63, 64, 65, 69, 70}}
            \cup {Chain([i \in 1..k |-> "g"]) : k \in {62, 63, 64, 65, 69, 70}}
\* packed: a packed token alone, before / after / between flat tokens, and inside a message or a group
PackedFam == LET one == {<<t>> : t \in PackedToks}
                 ctx == Seqs({"V", "L", "P", "G(", "EG7"}, 1)
             IN {a \o p \o b : a \in ctx, p \in one, b \in ctx} \cup {p \o q : p \in one, q \in one}
                \cup {Wrap(p) : p \in one} \cup {<<"V">> \o Wrap(p \o <<"V">>) : p \in one} \cup {<<"G(">> \o p \o <<"EG7">> : p \in one}
Inputs == CASE Family = "flat" -> FlatFam [] Family = "nested" -> NestedFam [] Family = "chains" -> ChainFam [] Family = "packed" -> PackedFam

\* ---------------------------------------------------------------- the machine
VARIABLES input, maxDepth, pos, stack, out, status
vars == <<input, maxDepth, pos, stack, out, status>>

Init == /\ input \in Inputs /\ maxDepth \in MaxDepths
        /\ pos = 1 /\ stack = <<"top">> /\ out = <<>> /\ status = "run"

Tok == input[pos]
Top == stack[Len(stack)]
Running == status = "run" /\ pos <= Len(input)
Reject(why) == /\ status' = "reject:" \o why /\ UNCHANGED <<input, maxDepth, pos, stack, out>>
Advance == pos' = pos + 1 /\ UNCHANGED <<input, maxDepth>>

\* index of the ")M" that closes the innermost message payload containing position p
RECURSIVE CloseOf(_, _)
CloseOf(p, open) == IF input[p] = ")M" THEN (IF open = 0 THEN p ELSE CloseOf(p + 1, open - 1))
                    ELSE IF input[p] = "M(" THEN CloseOf(p + 1, open + 1) ELSE CloseOf(p + 1, open)

Scalar == /\ Running /\ Tok \in OkLeaves
          /\ out' = Append(out, Tok) /\ Advance /\ UNCHANGED <<stack, status>>
Malformed == /\ Running /\ Tok \in BadLeaves \cup TailToks /\ Reject("malformed " \o Tok)
EnterMessage == /\ Running /\ Tok = "M("
                /\ IF Len(stack) < maxDepth
                   THEN stack' = Append(stack, "msg") /\ out' = Append(out, "M(") /\ Advance /\ UNCHANGED status
                   ELSE Reject("depth")
LeaveMessage == /\ Running /\ Tok = ")M"
                /\ IF Top = "msg"
                   THEN stack' = SubSeq(stack, 1, Len(stack) - 1) /\ out' = Append(out, ")M") /\ Advance /\ UNCHANGED status
                   ELSE Reject("group open at end of payload")
GroupLimitOk == IF "group-depth-off-by-one" \in Dev THEN Len(stack) <= maxDepth ELSE Len(stack) < maxDepth
EnterGroup == /\ Running /\ Tok = "G("
              /\ IF GroupLimitOk
                 THEN stack' = Append(stack, "grp") /\ out' = Append(out, "G(") /\ Advance /\ UNCHANGED status
                 ELSE Reject("depth")
EndGroup == /\ Running /\ Tok \in {"EG7", "EG8"}
            /\ IF Top = "grp"
               THEN IF Tok = "EG7"
                    THEN stack' = SubSeq(stack, 1, Len(stack) - 1) /\ out' = Append(out, "G)") /\ Advance /\ UNCHANGED status
                    ELSE Reject("mismatched end group")
               ELSE IF "stray-endgroup-stops-parse" \in Dev
                    THEN \* the pinned parser leaves the field loop of this payload and reports what it has
                         IF Top = "top"
                         THEN status' = "accept" /\ UNCHANGED <<input, maxDepth, pos, stack, out>>
                         ELSE /\ pos' = CloseOf(pos, 0) /\ UNCHANGED <<input, maxDepth, stack, out, status>>
                    ELSE Reject("stray end group")
Finish == /\ status = "run" /\ pos = Len(input) + 1
          /\ IF stack = <<"top">> THEN status' = "accept" ELSE status' = "reject:group open at end of input"
          /\ UNCHANGED <<input, maxDepth, pos, stack, out>>
Report == /\ status # "run" /\ status # "done"
          /\ (Emit => PrintT(<<"VERDICT", ToJson([family |-> Family, input |-> input, maxdepth |-> maxDepth,
                                                    accept |-> (status = "accept"), why |-> status, out |-> out,
                                                    consumed |-> pos - 1, len |-> Len(input)])>>))
          /\ status' = "done" /\ UNCHANGED <<input, maxDepth, pos, stack, out>>

Next == Scalar \/ Malformed \/ EnterMessage \/ LeaveMessage \/ EnterGroup \/ EndGroup \/ Finish \/ Report
Spec == Init /\ [][Next]_vars /\ WF_vars(Next)

\* ---------------------------------------------------------------- properties
AcceptImpliesAllConsumed == status = "accept" => pos = Len(input) + 1 /\ stack = <<"top">>
DepthNeverExceeds == Len(stack) <= maxDepth
OutIsPrefixOfInput == Len(out) <= Len(input)
Terminates == <>(status = "done")
=============================================================================
