---------------------------- MODULE RequestFrames ----------------------------
\* C11 -- concurrent HTTP requests do not interfere: what a handler keeps while it serves a request
\* (locals, by-value captures, objects it created, the frame of the onFormat formatter) belongs to
\* that request.
\*
\* A request is: Begin, a fixed program of two steps on ONE kind of slot (chosen in Init), End.
\* A slot holds a list that starts as <<"init">>; Write appends the request's own name, Read returns
\* the list.  Reference design: every request works on its own frame, so a Read returns "init"
\* followed by the request's own writes so far -- whatever the other request did in between, and
\* whether the other request is still in flight or has already ended (OwnFrameOnly).
\* Deviation layer: Shared is the set of slot kinds kept in one frame for all requests (none in the
\* pinned code; a non-empty set makes TLC refute OwnFrameOnly, which shows the property is not vacuous).
\* Slot kinds and where the interpreter keeps them:
\*   local, localarr   handler locals ($x = ..., $a[] = ...)             node/lambda.go call frame
\*   capscalar, caparr by-value captures: function (...) use ($x)        node/lambda.go bindUse
\*   object            an object the handler created                      per-call ClassValue
\*   fmtarg, fmtlocal  parameter / local of the onFormat formatter, which runs inside
\*                     $res->success() / error() / format()               std/net/http/response_format.go
\* Every transition is printed as an EDGE line; a Read edge carries the list the reference design
\* returns (own) and the list under the deviation (dev).
EXTENDS Integers, Sequences, FiniteSets, TLC, Json

CONSTANTS Reqs, Shared, Emit

Slots == {"local", "localarr", "capscalar", "caparr", "object", "fmtarg", "fmtlocal"}
Progs == [1..2 -> {"w", "r"}]

VARIABLES slot,     \* the slot kind of this scenario
          prog,     \* prog[r]: the two steps of request r
          pc, ip,
          frame,    \* frame[f]: the list held by frame f (one per request, plus "shared")
          own,      \* own[r]: what r's reads must return: init + r's writes
          act
vars == <<slot, prog, pc, ip, frame, own, act>>

F(r) == IF slot \in Shared THEN "shared" ELSE r
Fresh == <<"init">>

Init == /\ slot \in Slots /\ prog \in [Reqs -> Progs]
        /\ pc = [r \in Reqs |-> "idle"] /\ ip = [r \in Reqs |-> 0]
        /\ frame = [f \in Reqs \cup {"shared"} |-> Fresh] /\ own = [r \in Reqs |-> Fresh]
        /\ act = [op |-> "init", r |-> "", own |-> <<>>, dev |-> <<>>]
        /\ (Emit => PrintT(<<"INIT", ToJson([slot |-> slot, prog |-> prog, pc |-> pc, ip |-> ip, frame |-> frame])>>))

Begin(r) == /\ pc[r] = "idle" /\ pc' = [pc EXCEPT ![r] = "run"]
            /\ frame' = [frame EXCEPT ![r] = Fresh]          \* a request starts on a fresh frame of its own
            /\ act' = [op |-> "begin", r |-> r, own |-> <<>>, dev |-> <<>>]
            /\ UNCHANGED <<slot, prog, ip, own>>
Write(r) == /\ pc[r] = "run" /\ ip[r] < 2 /\ prog[r][ip[r] + 1] = "w"
            /\ frame' = [frame EXCEPT ![F(r)] = Append(@, r)] /\ own' = [own EXCEPT ![r] = Append(@, r)]
            /\ ip' = [ip EXCEPT ![r] = @ + 1]
            /\ act' = [op |-> "write", r |-> r, own |-> <<>>, dev |-> <<>>]
            /\ UNCHANGED <<slot, prog, pc>>
Read(r) ==  /\ pc[r] = "run" /\ ip[r] < 2 /\ prog[r][ip[r] + 1] = "r"
            /\ ip' = [ip EXCEPT ![r] = @ + 1]
            /\ act' = [op |-> "read", r |-> r, own |-> own[r], dev |-> frame[F(r)]]
            /\ UNCHANGED <<slot, prog, pc, frame, own>>
End(r) ==   /\ pc[r] = "run" /\ ip[r] = 2 /\ pc' = [pc EXCEPT ![r] = "done"]
            /\ act' = [op |-> "end", r |-> r, own |-> <<>>, dev |-> <<>>]
            /\ UNCHANGED <<slot, prog, ip, frame, own>>

Next == \E r \in Reqs : Begin(r) \/ Write(r) \/ Read(r) \/ End(r)
Spec == Init /\ [][Next]_vars

St  == [slot |-> slot, prog |-> prog, pc |-> pc, ip |-> ip, frame |-> frame]
St1 == [slot |-> slot', prog |-> prog', pc |-> pc', ip |-> ip', frame |-> frame']
EmitEdge == Emit => PrintT(<<"EDGE", ToJson([from |-> St, act |-> act', to |-> St1])>>)
View == <<slot, prog, pc, ip, frame, own>>

\* ---- properties
TypeOK == \A r \in Reqs : ip[r] \in 0..2 /\ pc[r] \in {"idle", "run", "done"}
\* every read returns init followed by the reader's own writes
OwnFrameOnly == [][act'.op = "read" => act'.dev = act'.own]_vars
\* what a request reads never mentions another request
NoForeignName == [][act'.op = "read" => \A i \in 1..Len(act'.dev) : act'.dev[i] \in {"init", act'.r}]_vars
=============================================================================
