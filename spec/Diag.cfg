SPECIFICATION Spec
CONSTANTS
  Emit = TRUE
INVARIANTS LinePositive
CHECK_DEADLOCK FALSE
