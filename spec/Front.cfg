SPECIFICATION Spec
CONSTANTS
  TokenSlack = 8
INVARIANTS PhaseOK AcceptedEndsWell StuckBounded
CHECK_DEADLOCK FALSE
