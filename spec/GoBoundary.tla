---------------------------- MODULE GoBoundary ----------------------------
\* C17 -- values cross the Go boundary unchanged in both directions.
\*
\* A Go function (reflective registration), a Go struct method (reflected class) or a standard-library
\* wrapper (generic converter utils.Convert[T]) has parameters of Go kinds; the script passes values.
\* Values are SYMBOLIC BOUNDARY POINTS on ordered chains (TLC has 32-bit integers and no floats; the
\* replay engine owns the concrete number behind each name).  Fits(kind, v) says whether the value is
\* representable in the kind.  Call: every argument fits => Go receives exactly the arguments and the
\* script receives exactly the result; some argument does not fit => a catchable script error and the
\* Go function is not entered.  There is no crash outcome.
EXTENDS Integers, Sequences, FiniteSets, TLC, Json

CONSTANTS Family,   \* "unary" | "return" | "arity2" | "arity3" | "cross"
          Emit

IntKinds == {"int", "int8", "int16", "int32", "int64", "uint", "uint8", "uint16", "uint32", "uint64"}
FloatKinds == {"float32", "float64"}
Kinds == IntKinds \cup FloatKinds \cup {"string", "bool"}
\* func-named: a reflectively registered function whose parameter / result types are NAMED types over the
\* kind (type Label string, type Level int8): the value must arrive in the named type, same rules
Paths == {"func", "method", "generic", "func-named"}

\* the integer chain, ascending
IntChain == <<"i64.min", "i32.min-1", "i32.min", "i16.min-1", "i16.min", "i8.min-1", "i8.min", "-1", "0", "1", "i8.max", "i8.max+1",
              "u8.max", "u8.max+1", "i16.max", "i16.max+1", "u16.max", "u16.max+1", "i32.max", "i32.max+1", "u32.max", "u32.max+1",
              "2^53+1", "i64.max">>
Pos(v) == CHOOSE i \in 1..Len(IntChain) : IntChain[i] = v
IntVals == {IntChain[i] : i \in 1..Len(IntChain)}
Lo(k) == CASE k \in {"int", "int64"} -> "i64.min" [] k = "int32" -> "i32.min" [] k = "int16" -> "i16.min" [] k = "int8" -> "i8.min"
           [] k \in {"uint", "uint8", "uint16", "uint32", "uint64"} -> "0"
Hi(k) == CASE k \in {"int", "int64", "uint", "uint64"} -> "i64.max"      \* a script integer is at most i64.max
           [] k = "int32" -> "i32.max" [] k = "int16" -> "i16.max" [] k = "int8" -> "i8.max"
           [] k = "uint8" -> "u8.max" [] k = "uint16" -> "u16.max" [] k = "uint32" -> "u32.max"
\* floats: a value is representable in float32 when it is within the float32 range (rounding to the nearest
\* float32, including underflow to zero, is what a float32 parameter means); beyond the range it is not
FloatVals == {"0.0", "-0.0", "1.5", "-2.5", "f32.max", "f32.minsub", "0.1", "f32.max*2", "f64.minsub", "1e300", "-1e300"}
Float32InRange == FloatVals \ {"f32.max*2", "1e300", "-1e300"}
StrVals == {"empty", "ascii", "padded", "multibyte", "nonutf8", "nul", "64KiB"}
BoolVals == {"true", "false"}

FamilyOf(k) == IF k \in IntKinds THEN "int" ELSE IF k \in FloatKinds THEN "float" ELSE k
ValsOfFamily(f) == CASE f = "int" -> IntVals [] f = "float" -> FloatVals [] f = "string" -> StrVals [] f = "bool" -> BoolVals
Fits(k, v) == CASE k \in IntKinds -> Pos(Lo(k)) <= Pos(v) /\ Pos(v) <= Pos(Hi(k))
                [] k = "float32" -> v \in Float32InRange
                [] OTHER -> TRUE
Benign(k) == CASE k \in IntKinds -> "1" [] k \in FloatKinds -> "1.5" [] k = "string" -> "ascii" [] k = "bool" -> "true"
\* a reduced value set for the arity family: the edges of the kind and one value outside on each side
Edge(k) == IF k \in IntKinds
           THEN {IntChain[i] : i \in {j \in 1..Len(IntChain) : j \in {Pos(Lo(k)) - 1, Pos(Lo(k)), Pos(Hi(k)), Pos(Hi(k)) + 1}}}
           ELSE IF k = "float32" THEN {"f32.max", "f32.max*2"} ELSE IF k = "float64" THEN {"1e300", "-0.0"}
           ELSE IF k = "string" THEN {"nonutf8", "empty"} ELSE {"false"}

Sigs(n) == [1..n -> Kinds]
ArityOf(s, n) == UNION {{[path |-> "func", sig |-> s, vary |-> i, val |-> v, valfam |-> FamilyOf(s[i])] : v \in Edge(s[i])} : i \in 1..n}
AritySc(n) == UNION {ArityOf(s, n) : s \in Sigs(n)}
UnarySc == UNION {{[path |-> p, sig |-> <<k>>, vary |-> 1, val |-> v, valfam |-> FamilyOf(k)] : p \in Paths, v \in ValsOfFamily(FamilyOf(k))} : k \in Kinds}
ReturnSc == UNION {{[path |-> p, sig |-> <<>>, vary |-> 0, val |-> v, valfam |-> FamilyOf(k), ret |-> k] :
                      p \in Paths, v \in {w \in ValsOfFamily(FamilyOf(k)) : Fits(k, w)}} : k \in Kinds}
CrossVals == {"0", "1", "-1", "i64.max", "1.5", "0.0", "1e300", "ascii", "empty", "true", "false"}
CrossOf(k, f) == {[path |-> p, sig |-> <<k>>, vary |-> 1, val |-> v, valfam |-> f] : p \in Paths, v \in ValsOfFamily(f) \cap CrossVals}
CrossSc == UNION {UNION {CrossOf(k, f) : f \in {"int", "float", "string", "bool"} \ {FamilyOf(k)}} : k \in Kinds}
Scenarios == CASE Family = "unary" -> UnarySc [] Family = "return" -> ReturnSc [] Family = "arity2" -> AritySc(2) [] Family = "arity3" -> AritySc(3) [] Family = "cross" -> CrossSc

VARIABLES sc, done
vars == <<sc, done>>
Init == sc \in Scenarios /\ done = FALSE

Outcome(x) ==
  IF Family = "cross" THEN [kind |-> "no-crash"]
  ELSE IF Family = "return" THEN [kind |-> "delivered", ret |-> x.val]
  ELSE IF Fits(x.sig[x.vary], x.val) THEN [kind |-> "delivered", ret |-> x.val] ELSE [kind |-> "error"]
Call == /\ ~done /\ done' = TRUE /\ UNCHANGED sc
        /\ (Emit => PrintT(<<"CASE", ToJson([family |-> Family, sc |-> sc, outcome |-> Outcome(sc)])>>))
Spec == Init /\ [][Call]_vars

\* ---------------------------------------------------------------- properties of the reference
ChainIsStrict == \A i, j \in 1..Len(IntChain) : i # j => IntChain[i] # IntChain[j]
WiderKindsAcceptMore == \A v \in IntVals : (Fits("int8", v) => Fits("int16", v)) /\ (Fits("int16", v) => Fits("int32", v)) /\ (Fits("int32", v) => Fits("int64", v))
                                         /\ (Fits("uint8", v) => Fits("uint16", v)) /\ (Fits("uint16", v) => Fits("uint32", v)) /\ (Fits("uint32", v) => Fits("uint64", v))
                                         /\ (Fits("uint8", v) => Fits("int16", v)) /\ (Fits("uint16", v) => Fits("int32", v))
EveryKindHasBothVerdicts == \A k \in Kinds \ {"int", "int64", "float64", "string", "bool"} : (\E v \in ValsOfFamily(FamilyOf(k)) : Fits(k, v)) /\ (\E v \in ValsOfFamily(FamilyOf(k)) : ~Fits(k, v))
=============================================================================
