---------------------------- MODULE OrderedMap ----------------------------
\* C20 (enumeration order) -- the insertion-ordered store behind object properties and keyed arrays.
\*
\* State: the sequence of (key, value) entries.  Set(k, v) appends a new key and overwrites an existing
\* one in place; Delete(k) removes the entry and keeps the relative order of the others; a deleted key
\* that is set again goes to the END.  Range observes the sequence.  TLC explores every behaviour over a
\* small key / value universe, checks the order laws and prints the state graph; the replay engine
\* walks every path on data.OrderedMap directly and through scripts (keyed arrays and objects), and
\* compares the enumeration after every step.
EXTENDS Integers, Sequences, FiniteSets, TLC, Json

CONSTANTS Keys, Vals, Emit

VARIABLES st, act
vars == <<st, act>>
View == st          \* act only labels the edge

KeysOf(s) == {s[i].k : i \in 1..Len(s)}
IndexOf(s, k) == CHOOSE i \in 1..Len(s) : s[i].k = k
Remove(s, k) == LET i == IndexOf(s, k) IN SubSeq(s, 1, i - 1) \o SubSeq(s, i + 1, Len(s))

Init == st = <<>> /\ act = [op |-> "init", k |-> "", v |-> 0]
Set(k, v) == /\ st' = IF k \in KeysOf(st) THEN [st EXCEPT ![IndexOf(st, k)].v = v] ELSE Append(st, [k |-> k, v |-> v])
             /\ act' = [op |-> "set", k |-> k, v |-> v]
Delete(k) == /\ st' = IF k \in KeysOf(st) THEN Remove(st, k) ELSE st
             /\ act' = [op |-> "delete", k |-> k, v |-> 0]
Next == (\E k \in Keys, v \in Vals : Set(k, v)) \/ (\E k \in Keys : Delete(k))
Spec == Init /\ [][Next]_vars

EmitEdge == Emit => PrintT(<<"EDGE", ToJson([from |-> st, act |-> act', to |-> st'])>>)

\* ---------------------------------------------------------------- order laws
NoDuplicateKeys == \A i, j \in 1..Len(st) : i # j => st[i].k # st[j].k
\* the relative order of two keys that both survive a step never changes
OrderStable == [][\A a, b \in KeysOf(st) \cap KeysOf(st') : (IndexOf(st, a) < IndexOf(st, b)) = (IndexOf(st', a) < IndexOf(st', b))]_vars
\* a key that appears in a step appears at the end
NewKeysAtEnd == [][\A k \in KeysOf(st') \ KeysOf(st) : IndexOf(st', k) = Len(st')]_vars
=============================================================================
