---------------------------- MODULE Channel ----------------------------
\* C09 -- Channel delivers each value exactly once, in sender order, under any schedule.
\*
\* Mechanism spec of std/channel/channel.go at the granularity of its yield points.  One action
\* = one step a scheduler can force: a goroutine leaves the gate it is parked at and runs until
\* it parks at the next gate, finishes its call, or blocks (on a lock, in the select, in the
\* receive).  A blocked goroutine continues by itself when another step unblocks it: those
\* continuations are the Wake actions.
\*
\*   Design = "rw"    the code after the fix: Send holds mu shared from the done pre-check to the end
\*                    of the select { ch <- v | <-done }; Close serialises on closeMu, closes done,
\*                    takes mu exclusively, then sets closed and closes the Go channel.
\*   Design = "none"  the pinned code: plain bool check-then-act, no lock, no done channel.
\*                    Kept as the named deviation: TLC finds the crash in a few steps.
\*
\* Go channel semantics are modelled with their FIFO wait queues (sq: blocked senders, rq: blocked
\* receivers).  Every transition is printed as an EDGE line for the conformance walker.
EXTENDS Integers, Sequences, FiniteSets, TLC, Json

CONSTANTS Prod, Cons, Closers,   \* process names (strings)
          Cap, NMsg, NRecv,      \* capacity, sends per producer, receives per consumer
          Design, Emit

Procs == Prod \cup Cons \cup Closers
None == "none"
Null == "null"

VARIABLES flag,        \* Channel.closed
          doneClosed,  \* close(done) happened ("rw" only)
          chClosed,    \* close(channel) happened
          buf,         \* buffered values
          sq, rq,      \* FIFO queues of goroutines blocked in send / receive
          rd, wr, wwait, closeMu,   \* lock state ("rw" only)
          pc, opi,     \* control state and number of completed calls per process
          sval,        \* sval[p]: "sent" once a receiver took a blocked sender's value
          got,         \* got[c]: value handed to a blocked receiver, None if none yet
          res,         \* results of completed calls, per process
          crashed,
          okSent, rlog, lateStart,   \* ghosts for the properties
          lbl          \* label of the last step: [p, kind, out]
vars == <<flag, doneClosed, chClosed, buf, sq, rq, rd, wr, wwait, closeMu, pc, opi, sval, got, res,
          crashed, okSent, rlog, lateStart, lbl>>

St == [flag |-> flag, doneClosed |-> doneClosed, chClosed |-> chClosed, buf |-> buf, sq |-> sq, rq |-> rq,
       rd |-> rd, wr |-> wr, wwait |-> wwait, closeMu |-> closeMu, pc |-> pc, opi |-> opi, sval |-> sval,
       got |-> got, res |-> res, crashed |-> crashed]
St1 == [flag |-> flag', doneClosed |-> doneClosed', chClosed |-> chClosed', buf |-> buf', sq |-> sq', rq |-> rq',
       rd |-> rd', wr |-> wr', wwait |-> wwait', closeMu |-> closeMu', pc |-> pc', opi |-> opi', sval |-> sval',
       got |-> got', res |-> res', crashed |-> crashed']

Msg(p) == p \o "." \o ToString(opi[p] + 1)
NOps(p) == IF p \in Prod THEN NMsg ELSE IF p \in Cons THEN NRecv ELSE 1
Rw == Design = "rw"

Init ==
  /\ flag = FALSE /\ doneClosed = FALSE /\ chClosed = FALSE /\ buf = <<>> /\ sq = <<>> /\ rq = <<>>
  /\ rd = {} /\ wr = None /\ wwait = {} /\ closeMu = None
  /\ pc = [p \in Procs |-> "idle"] /\ opi = [p \in Procs |-> 0]
  /\ sval = [p \in Prod |-> None] /\ got = [c \in Cons |-> None]
  /\ res = [p \in Procs |-> <<>>] /\ crashed = FALSE
  /\ okSent = {} /\ rlog = <<>> /\ lateStart = [p \in Prod |-> FALSE]
  /\ lbl = [p |-> "", kind |-> "init", out |-> ""]
  /\ (Emit => PrintT(<<"INIT", ToJson(St)>>))

Lbl(p, kind, out) == lbl' = [p |-> p, kind |-> kind, out |-> out]

\* a call of p completes with result r
Complete(p, r) ==
  /\ res' = [res EXCEPT ![p] = Append(@, r)]
  /\ opi' = [opi EXCEPT ![p] = @ + 1]
  /\ pc' = [pc EXCEPT ![p] = IF opi[p] + 1 >= NOps(p) THEN "fin" ELSE "idle"]

Remove(q, x) == SelectSeq(q, LAMBDA y : y # x)
closeReturned == \E k \in Closers : pc[k] = "fin"

\* ------------------------------------------------------------------ producer
\* after the shared lock is held (or immediately when Design = "none"): the closed pre-check
SendChecked(p, kind) ==
  IF (IF Rw THEN doneClosed ELSE flag)
    THEN /\ Complete(p, "false") /\ Lbl(p, kind, "done:false")
         /\ UNCHANGED <<rd, okSent>>
    ELSE /\ pc' = [pc EXCEPT ![p] = "S1"] /\ Lbl(p, kind, "gate:send.checked")
         /\ rd' = IF Rw THEN rd \cup {p} ELSE rd
         /\ UNCHANGED <<res, opi, okSent>>

SStart(p) ==
  /\ pc[p] = "idle" /\ p \in Prod
  /\ lateStart' = [lateStart EXCEPT ![p] = closeReturned]
  /\ IF Rw /\ (wr # None \/ wwait # {})
       THEN /\ pc' = [pc EXCEPT ![p] = "Lwait"] /\ Lbl(p, "step", "blocked")
            /\ UNCHANGED <<rd, res, opi, okSent>>
       ELSE SendChecked(p, "step")
  /\ UNCHANGED <<flag, doneClosed, chClosed, buf, sq, rq, wr, wwait, closeMu, sval, got, crashed, rlog>>

SLockWake(p) ==
  /\ pc[p] = "Lwait" /\ p \in Prod /\ wr = None /\ wwait = {}
  /\ SendChecked(p, "wake")
  /\ UNCHANGED <<flag, doneClosed, chClosed, buf, sq, rq, wr, wwait, closeMu, sval, got, crashed, rlog, lateStart>>

\* the select { ch <- v ; <-done }.  Sending on a closed Go channel panics.
SSelectCrash(p) ==
  /\ pc[p] = "S1" /\ chClosed
  /\ crashed' = TRUE /\ pc' = [pc EXCEPT ![p] = "crashed"] /\ Lbl(p, "step", "panic")
  /\ UNCHANGED <<flag, doneClosed, chClosed, buf, sq, rq, rd, wr, wwait, closeMu, opi, sval, got, res, okSent, rlog, lateStart>>

SSelectSend(p) ==   \* a receiver is waiting, or there is room in the buffer
  /\ pc[p] = "S1" /\ ~chClosed
  /\ \/ /\ rq # <<>>
        /\ got' = [got EXCEPT ![Head(rq)] = Msg(p)] /\ rq' = Tail(rq) /\ UNCHANGED buf
        /\ rlog' = Append(rlog, Msg(p))      \* the value is received at the handoff
     \/ /\ rq = <<>> /\ Len(buf) < Cap
        /\ buf' = Append(buf, Msg(p)) /\ UNCHANGED <<rq, got, rlog>>
  /\ Complete(p, "true") /\ Lbl(p, "step", "done:true")
  /\ okSent' = okSent \cup {Msg(p)} /\ rd' = rd \ {p}
  /\ UNCHANGED <<flag, doneClosed, chClosed, sq, wr, wwait, closeMu, sval, crashed, lateStart>>

SSelectDone(p) ==   \* done is closed: the select may take that branch
  /\ pc[p] = "S1" /\ ~chClosed /\ Rw /\ doneClosed
  /\ Complete(p, "false") /\ Lbl(p, "step", "done:false") /\ rd' = rd \ {p}
  /\ UNCHANGED <<flag, doneClosed, chClosed, buf, sq, rq, wr, wwait, closeMu, sval, got, crashed, okSent, rlog, lateStart>>

SSelectBlock(p) ==
  /\ pc[p] = "S1" /\ ~chClosed /\ rq = <<>> /\ Len(buf) >= Cap /\ ~(Rw /\ doneClosed)
  /\ pc' = [pc EXCEPT ![p] = "Sblk"] /\ sq' = Append(sq, p) /\ Lbl(p, "step", "blocked")
  /\ UNCHANGED <<flag, doneClosed, chClosed, buf, rq, rd, wr, wwait, closeMu, opi, sval, got, res, crashed, okSent, rlog, lateStart>>

SWakeSent(p) ==     \* a receiver took the value of the blocked sender
  /\ pc[p] = "Sblk" /\ sval[p] = "sent"
  /\ Complete(p, "true") /\ Lbl(p, "wake", "done:true")
  /\ sval' = [sval EXCEPT ![p] = None] /\ rd' = rd \ {p}
  /\ UNCHANGED <<flag, doneClosed, chClosed, buf, sq, rq, wr, wwait, closeMu, got, crashed, okSent, rlog, lateStart>>

SWakeDone(p) ==     \* blocked in the select when done is closed
  /\ pc[p] = "Sblk" /\ sval[p] = None /\ Rw /\ doneClosed /\ ~chClosed
  /\ Complete(p, "false") /\ Lbl(p, "wake", "done:false")
  /\ sq' = Remove(sq, p) /\ rd' = rd \ {p}
  /\ UNCHANGED <<flag, doneClosed, chClosed, buf, rq, wr, wwait, closeMu, sval, got, crashed, okSent, rlog, lateStart>>

SWakeCrash(p) ==    \* blocked in a plain send when the Go channel is closed: panic
  /\ pc[p] = "Sblk" /\ sval[p] = None /\ chClosed
  /\ crashed' = TRUE /\ pc' = [pc EXCEPT ![p] = "crashed"] /\ Lbl(p, "wake", "panic")
  /\ sq' = Remove(sq, p)
  /\ UNCHANGED <<flag, doneClosed, chClosed, buf, rq, rd, wr, wwait, closeMu, opi, sval, got, res, okSent, rlog, lateStart>>

\* ------------------------------------------------------------------ consumer
RStart(c) ==
  /\ pc[c] = "idle" /\ c \in Cons
  /\ IF buf # <<>>
       THEN /\ Complete(c, Head(buf)) /\ Lbl(c, "step", "done:" \o Head(buf))
            /\ rlog' = Append(rlog, Head(buf))
            /\ IF sq # <<>>   \* a blocked sender moves its value into the freed slot
                 THEN /\ buf' = Append(Tail(buf), Head(sq) \o "." \o ToString(opi[Head(sq)] + 1))
                      /\ okSent' = okSent \cup {Head(sq) \o "." \o ToString(opi[Head(sq)] + 1)}
                      /\ sval' = [sval EXCEPT ![Head(sq)] = "sent"] /\ sq' = Tail(sq)
                 ELSE /\ buf' = Tail(buf) /\ UNCHANGED <<sq, sval, okSent>>
            /\ UNCHANGED <<rq>>
       ELSE IF sq # <<>>
       THEN LET s == Head(sq) v == s \o "." \o ToString(opi[s] + 1) IN   \* direct handoff
            /\ Complete(c, v) /\ Lbl(c, "step", "done:" \o v)
            /\ rlog' = Append(rlog, v) /\ okSent' = okSent \cup {v}
            /\ sval' = [sval EXCEPT ![s] = "sent"] /\ sq' = Tail(sq)
            /\ UNCHANGED <<buf, rq>>
       ELSE IF chClosed
       THEN /\ Complete(c, Null) /\ Lbl(c, "step", "done:null")
            /\ UNCHANGED <<buf, sq, rq, sval, okSent, rlog>>
       ELSE /\ pc' = [pc EXCEPT ![c] = "Rblk"] /\ rq' = Append(rq, c) /\ Lbl(c, "step", "blocked")
            /\ UNCHANGED <<buf, sq, sval, okSent, rlog, res, opi>>
  /\ UNCHANGED <<flag, doneClosed, chClosed, rd, wr, wwait, closeMu, got, crashed, lateStart>>

RWake(c) ==
  /\ pc[c] = "Rblk" /\ got[c] # None
  /\ Complete(c, got[c]) /\ Lbl(c, "wake", "done:" \o got[c])
  /\ got' = [got EXCEPT ![c] = None]
  /\ UNCHANGED <<flag, doneClosed, chClosed, buf, sq, rq, rd, wr, wwait, closeMu, sval, crashed, okSent, rlog, lateStart>>

\* ------------------------------------------------------------------ closer
CloseChecked(k, kind) ==
  IF flag
    THEN /\ Complete(k, "ok") /\ Lbl(k, kind, "done:ok") /\ closeMu' = (IF closeMu = k THEN None ELSE closeMu)
    ELSE /\ pc' = [pc EXCEPT ![k] = "C1"] /\ Lbl(k, kind, "gate:close.checked")
         /\ closeMu' = IF Rw THEN k ELSE closeMu
         /\ UNCHANGED <<res, opi>>

CStart(k) ==
  /\ pc[k] = "idle" /\ k \in Closers
  /\ IF Rw /\ closeMu # None
       THEN /\ pc' = [pc EXCEPT ![k] = "CMwait"] /\ Lbl(k, "step", "blocked") /\ UNCHANGED <<closeMu, res, opi>>
       ELSE CloseChecked(k, "step")
  /\ UNCHANGED <<flag, doneClosed, chClosed, buf, sq, rq, rd, wr, wwait, sval, got, crashed, okSent, rlog, lateStart>>

CMWake(k) ==
  /\ pc[k] = "CMwait" /\ closeMu = None
  /\ CloseChecked(k, "wake")
  /\ UNCHANGED <<flag, doneClosed, chClosed, buf, sq, rq, rd, wr, wwait, sval, got, crashed, okSent, rlog, lateStart>>

\* "rw": close(done).   "none": closed = true.
CSignal(k) ==
  /\ pc[k] = "C1"
  /\ IF Rw THEN doneClosed' = TRUE /\ UNCHANGED flag ELSE flag' = TRUE /\ UNCHANGED doneClosed
  /\ pc' = [pc EXCEPT ![k] = "C2"] /\ Lbl(k, "step", IF Rw THEN "gate:close.signalled" ELSE "gate:close.marked")
  /\ UNCHANGED <<chClosed, buf, sq, rq, rd, wr, wwait, closeMu, opi, sval, got, res, crashed, okSent, rlog, lateStart>>

\* "rw" only: mu.Lock()
CLock(k) ==
  /\ pc[k] = "C2" /\ Rw
  /\ IF rd = {} /\ wr = None
       THEN /\ wr' = k /\ pc' = [pc EXCEPT ![k] = "C3"] /\ Lbl(k, "step", "gate:close.locked") /\ UNCHANGED wwait
       ELSE /\ wwait' = wwait \cup {k} /\ pc' = [pc EXCEPT ![k] = "CLwait"] /\ Lbl(k, "step", "blocked") /\ UNCHANGED wr
  /\ UNCHANGED <<flag, doneClosed, chClosed, buf, sq, rq, rd, closeMu, opi, sval, got, res, crashed, okSent, rlog, lateStart>>

CLWake(k) ==
  /\ pc[k] = "CLwait" /\ rd = {} /\ wr = None
  /\ wr' = k /\ wwait' = wwait \ {k} /\ pc' = [pc EXCEPT ![k] = "C3"] /\ Lbl(k, "wake", "gate:close.locked")
  /\ UNCHANGED <<flag, doneClosed, chClosed, buf, sq, rq, rd, closeMu, opi, sval, got, res, crashed, okSent, rlog, lateStart>>

\* close(channel): blocked receivers get null; closing twice panics
CFinish(k) ==
  /\ pc[k] = (IF Rw THEN "C3" ELSE "C2")
  /\ IF chClosed
       THEN /\ crashed' = TRUE /\ pc' = [pc EXCEPT ![k] = "crashed"] /\ Lbl(k, "step", "panic")
            /\ UNCHANGED <<flag, chClosed, got, rq, wr, closeMu, res, opi>>
       ELSE /\ chClosed' = TRUE /\ flag' = TRUE
            /\ got' = [c \in Cons |-> IF \E i \in 1..Len(rq) : rq[i] = c THEN Null ELSE got[c]]
            /\ rq' = <<>> /\ wr' = None /\ closeMu' = None
            /\ Complete(k, "ok") /\ Lbl(k, "step", "done:ok") /\ UNCHANGED crashed
  /\ UNCHANGED <<doneClosed, buf, sq, rd, wwait, sval, okSent, rlog, lateStart>>

Next ==
  \/ \E p \in Prod : SStart(p) \/ SLockWake(p) \/ SSelectCrash(p) \/ SSelectSend(p) \/ SSelectDone(p)
                     \/ SSelectBlock(p) \/ SWakeSent(p) \/ SWakeDone(p) \/ SWakeCrash(p)
  \/ \E c \in Cons : RStart(c) \/ RWake(c)
  \/ \E k \in Closers : CStart(k) \/ CMWake(k) \/ CSignal(k) \/ CLock(k) \/ CLWake(k) \/ CFinish(k)
Spec == Init /\ [][Next]_vars

EmitEdge == Emit => PrintT(<<"EDGE", ToJson([from |-> St, act |-> lbl', to |-> St1])>>)
View == <<St, okSent, rlog, lateStart>>

\* ------------------------------------------------------------------ properties
Range(s) == {s[i] : i \in 1..Len(s)}
Pending == Range(buf)
NoCrash == ~crashed
\* nothing lost, nothing invented: successfully sent = received + buffered + handed to a woken receiver
Conservation == okSent = Range(rlog) \cup Pending
AtMostOnce == /\ Cardinality(Range(rlog)) = Len(rlog)
              /\ Range(rlog) \cap Pending = {}
Seqno(v) == CHOOSE i \in 1..NMsg : \E p \in Prod : v = p \o "." \o ToString(i)
Sender(v) == CHOOSE p \in Prod : \E i \in 1..NMsg : v = p \o "." \o ToString(i)
PerSenderFIFO == \A i, j \in 1..Len(rlog) : (i < j /\ Sender(rlog[i]) = Sender(rlog[j])) => Seqno(rlog[i]) < Seqno(rlog[j])
\* a send that started after a Close call returned never reaches the channel operation
LateSendFails == \A p \in Prod : lateStart[p] => pc[p] \notin {"S1", "Sblk"}
\* null is returned only when the channel is closed and nothing is buffered
NullOnlyWhenDrained == [][\A c \in Cons : (lbl'.p = c /\ lbl'.out = "done:null" /\ lbl'.kind = "step") => (chClosed /\ buf = <<>>)]_vars
\* the write lock excludes in-flight senders
WriterExcludesSenders == wr # None => rd = {}
=============================================================================
