SPECIFICATION Spec
CONSTANTS
  Names = @@NAMES@@
  Temps = @@TEMPS@@
  MaxDefs = @@MAXDEFS@@
  Emit = TRUE
  Hist = @@HIST@@
  WalkLen = @@WALKLEN@@
VIEW View
ACTION_CONSTRAINT EmitEdge
INVARIANTS TypeOK BaseVisibleEverywhere
PROPERTIES Isolation LifecycleIsLocal FreshIsBase
CHECK_DEADLOCK FALSE
