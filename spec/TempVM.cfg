SPECIFICATION Spec
CONSTANTS
  Names = @@NAMES@@
  Temps = @@TEMPS@@
  MaxDefs = @@MAXDEFS@@
  Emit = TRUE
  Hist = @@HIST@@
  WalkLen = @@WALKLEN@@
  ProbeKinds = @@PROBES@@
  Vias = @@VIAS@@
  SharedProbes = @@SHARED@@
  EvalOnTemp = "@@EVALTEMP@@"
VIEW View
ACTION_CONSTRAINT EmitEdge
INVARIANTS TypeOK BaseVisibleEverywhere
PROPERTIES Isolation LifecycleIsLocal FreshIsBase ProbeIsPure
CHECK_DEADLOCK FALSE
