---------------------------- MODULE ProcState ----------------------------
\* C20 (no leakage between VMs) -- state a program can touch and a later program can observe.
\*
\* Slots are the pieces of state found in the code that outlive a statement: registries, buffers, settings,
\* caches, counters.  The REFERENCE scope of a slot is "vm" (belongs to the VM the program runs on) unless
\* the slot is the operating-system process itself (the environment).  A history is:
\* program A (touches slot x) runs on a fresh VM, then program B (observes slot y) runs on another fresh
\* VM in the same process.  Reference: B observes the initial value of y unless x = y is process-natured.
\* An observation reads its own slot and the slots its output path depends on (Reads).
\* ProcScoped is the deviation layer: the slots the pinned implementation keeps in package-level
\* variables; for those the model predicts that B sees A's value.  TLC checks FreshVMIndependence on the
\* reference and shows (with ProcScoped non-empty) exactly which (A, B) pairs can differ; all pairs are
\* printed and replayed: out(B after A) must equal out(B alone).
EXTENDS Integers, Sequences, FiniteSets, TLC, Json

CONSTANTS ProcScoped, Emit

Slots == {"function", "class", "constant", "global-var", "static-prop", "static-local", "ini", "ob-stack", "output-flag",
          "include-once", "autoloader", "error-handler", "exception-handler", "shutdown-fn", "timezone",
          "locale", "superglobal", "env",
          \* lookup memos: a name resolved by one VM (also through another letter case) must not resolve on another
          "class-case", "interface", "trait", "included-file"}
ProcessNatured == {"env"}

VARIABLES proc, vmA, vmB, phase, touched, observed, obs
vars == <<proc, vmA, vmB, phase, touched, observed, obs>>

Scope(s) == IF s \in ProcessNatured \/ s \in ProcScoped THEN "proc" ELSE "vm"

Init == /\ proc = [s \in Slots |-> "init"] /\ vmA = [s \in Slots |-> "init"] /\ vmB = [s \in Slots |-> "init"]
        /\ phase = "start" /\ touched \in Slots \cup {"nothing"} /\ observed \in Slots /\ obs = "none"
RunA == /\ phase = "start" /\ phase' = "ranA"
        /\ IF touched = "nothing" THEN UNCHANGED <<proc, vmA>>
           ELSE IF Scope(touched) = "proc" THEN proc' = [proc EXCEPT ![touched] = "A"] /\ UNCHANGED vmA
           ELSE vmA' = [vmA EXCEPT ![touched] = "A"] /\ UNCHANGED proc
        /\ UNCHANGED <<vmB, touched, observed, obs>>
\* what an observation depends on: its own slot, the output path (a pending output buffer swallows what B
\* prints), for anything that looks a class, interface or trait up, the autoloaders, and for an include the file cache
\* include / include_once / require share one store: the cache of files already run (node/include_statement.go)
FileCache == {"include-once", "included-file"}
Reads(s) == {s, "ob-stack"} \cup (IF s \in {"class", "autoloader", "class-case", "interface", "trait"} THEN {"autoloader"} ELSE {})
                            \cup (IF s \in FileCache THEN FileCache ELSE {})
Sees(s) == IF Scope(s) = "proc" THEN proc[s] ELSE vmB[s]
RunB == /\ phase = "ranA" /\ phase' = "ranB"
        /\ obs' = IF \E s \in Reads(observed) : Sees(s) # "init" THEN "A" ELSE "init"
        /\ UNCHANGED <<proc, vmA, vmB, touched, observed>>
Report == /\ phase = "ranB" /\ phase' = "done"
          /\ (Emit => PrintT(<<"CASE", ToJson([touch |-> touched, observe |-> observed, sees |-> obs,
                                              natural |-> (observed \in ProcessNatured /\ touched = observed)])>>))
          /\ UNCHANGED <<proc, vmA, vmB, touched, observed, obs>>
Next == RunA \/ RunB \/ Report
Spec == Init /\ [][Next]_vars

\* B on a fresh VM behaves as if A had never run, except for what belongs to the OS process by nature
FreshVMIndependence == phase \in {"ranB", "done"} => (obs = "init" \/ (observed \in ProcessNatured /\ touched = observed))
\* a VM never sees another VM's slots
VMsAreSeparate == \A s \in Slots : vmB[s] = "init"
=============================================================================
