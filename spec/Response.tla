---------------------------- MODULE Response ----------------------------
(* C13 — HTTP response commits once; pre-commit status/headers reach the client.

   Two layers in one module:
     Ref   (variable ref)   the property-level semantics a handler author relies on;
     Impl  (variable impl)  the mechanism of std/net/http/response.go: status / statusSet /
                           headerSent in front of an underlying writer whose first WriteHeader wins.
   Both are driven by the same operation `act'`, so TLC checks Impl => Ref step by step
   (invariant Refines) while the Ref layer alone is the oracle printed on EDGE lines.

   Named deviation "html-default-status": html(s) without a status argument behaves as
   html(s, 200) in the pinned code (presence test of an omitted optional is true).         *)
EXTENDS Integers, Sequences, TLC, Json

CONSTANTS MaxOps,        \* bound on the number of operations in one handler run
          Deviations,    \* subset of {"html-default-status"} applied to the Impl layer
          Emit           \* TRUE: print INIT/EDGE lines for the replay engine

NoHdr == [xa |-> "", ct |-> "", loc |-> ""]

\* ---- operation alphabet (concrete arguments chosen so that every op is distinguishable)
Ops == { [op |-> "status",      a |-> "200",  b |-> ""],   \* back to the default after another status
         [op |-> "status",      a |-> "404",  b |-> ""],
         [op |-> "status",      a |-> "500",  b |-> ""],
         [op |-> "header",      a |-> "X-A",  b |-> "1"],
         [op |-> "header",      a |-> "X-A",  b |-> "2"],
         [op |-> "cookie",      a |-> "c",    b |-> "1"],
         [op |-> "write",       a |-> "a",    b |-> ""],
         [op |-> "write",       a |-> "b",    b |-> ""],
         [op |-> "json",        a |-> "",     b |-> ""],
         [op |-> "html",        a |-> "h",    b |-> ""],
         [op |-> "html",        a |-> "h",    b |-> "201"],
         [op |-> "redirect",    a |-> "/u",   b |-> ""],
         [op |-> "redirect",    a |-> "/u",   b |-> "301"],
         [op |-> "noContent",   a |-> "",     b |-> ""],
         [op |-> "noContent",   a |-> "205",  b |-> ""],
         [op |-> "writeHeader", a |-> "202",  b |-> ""] }

Code(s) == CASE s = "200" -> 200 [] s = "404" -> 404 [] s = "500" -> 500 [] s = "201" -> 201 [] s = "301" -> 301
             [] s = "205" -> 205 [] s = "202" -> 202 [] OTHER -> 0

VARIABLES ref, impl, act
vars == <<ref, impl, act>>

\* ------------------------------------------------------------------ Ref layer
RefInit == [committed |-> FALSE, pstatus |-> 200, phdr |-> NoHdr, pck |-> <<>>,
            wstatus |-> 0, whdr |-> NoHdr, wck |-> <<>>, body |-> <<>>, commits |-> 0,
            n |-> 0, ended |-> FALSE]

\* commit with the pending status/headers (no-op when already committed)
RCommit(s) == IF s.committed THEN s
              ELSE [s EXCEPT !.committed = TRUE, !.wstatus = s.pstatus, !.whdr = s.phdr,
                             !.wck = s.pck, !.commits = 1]
RSetStatus(s, c) == IF s.committed THEN s ELSE [s EXCEPT !.pstatus = c]
RSetHdr(s, f, v) == IF s.committed THEN s ELSE [s EXCEPT !.phdr = [s.phdr EXCEPT ![f] = v]]
RBody(s, t)      == [s EXCEPT !.body = Append(s.body, t)]

RefStep(s, o) ==
  LET s1 ==
    CASE o.op = "status"      -> RSetStatus(s, Code(o.a))
      [] o.op = "header"      -> RSetHdr(s, "xa", o.b)
      [] o.op = "cookie"      -> IF s.committed THEN s ELSE [s EXCEPT !.pck = Append(s.pck, o.a \o "=" \o o.b)]
      [] o.op = "write"       -> RBody(RCommit(s), o.a)
      [] o.op = "json"        -> RBody(RCommit(RSetHdr(s, "ct", "json")), "j")
      [] o.op = "html"        -> LET t == IF o.b = "" THEN s ELSE RSetStatus(s, Code(o.b))
                                 IN RBody(RCommit(RSetHdr(t, "ct", "html")), o.a)
      [] o.op = "redirect"    -> RCommit(RSetStatus(RSetHdr(s, "loc", o.a), IF o.b = "" THEN 302 ELSE Code(o.b)))
      [] o.op = "noContent"   -> RCommit(RSetStatus(s, IF o.a = "" THEN 204 ELSE Code(o.a)))
      [] o.op = "writeHeader" -> RCommit(RSetStatus(s, Code(o.a)))
      [] o.op = "end"         -> [s EXCEPT !.ended = TRUE]
  IN [s1 EXCEPT !.n = s.n + 1]

\* what the client receives once the handler has returned
ClientStatus(s) == IF s.committed THEN s.wstatus ELSE s.pstatus
ClientHdr(s)    == IF s.committed THEN s.whdr ELSE s.phdr
ClientCk(s)     == IF s.committed THEN s.wck ELSE s.pck

\* ------------------------------------------------------------------ Impl layer (response.go)
\* uw* = the underlying net/http writer: first WriteHeader wins and snapshots the header map.
ImplInit == [status |-> 200, statusSet |-> FALSE, headerSent |-> FALSE,
             hdr |-> NoHdr, ck |-> <<>>,                       \* live header map
             uwCommits |-> 0, uwStatus |-> 0, uwHdr |-> NoHdr, uwCk |-> <<>>, body |-> <<>>,
             ended |-> FALSE]

UWWriteHeader(s, c) == IF s.uwCommits > 0 THEN [s EXCEPT !.uwCommits = @ + 1]   \* superfluous call
                       ELSE [s EXCEPT !.uwCommits = 1, !.uwStatus = c, !.uwHdr = s.hdr, !.uwCk = s.ck]
IWriteHeader(s, c) == IF s.headerSent THEN s
                      ELSE UWWriteHeader([s EXCEPT !.status = c, !.headerSent = TRUE], c)
ISendHeader(s)  == IF s.headerSent THEN s ELSE IWriteHeader(s, s.status)
ISetStatus(s, c) == IF s.headerSent THEN s ELSE [s EXCEPT !.status = c, !.statusSet = TRUE]
ISetHdr(s, f, v) == [s EXCEPT !.hdr = [s.hdr EXCEPT ![f] = v]]
IWrite(s, t)    == LET u == ISendHeader(s) IN [u EXCEPT !.body = Append(u.body, t)]
ITerminal(s, c) == ISendHeader(IF s.headerSent THEN s ELSE [s EXCEPT !.status = c, !.statusSet = TRUE])

ImplStep(s, o) ==
  CASE o.op = "status"      -> ISetStatus(s, Code(o.a))
    [] o.op = "header"      -> ISetHdr(s, "xa", o.b)
    [] o.op = "cookie"      -> [s EXCEPT !.ck = Append(s.ck, o.a \o "=" \o o.b)]
    [] o.op = "write"       -> IWrite(s, o.a)
    [] o.op = "json"        -> IWrite(ISetHdr(s, "ct", "json"), "j")
    [] o.op = "html"        -> LET t == IF o.b # "" THEN ISetStatus(s, Code(o.b))
                                        ELSE IF "html-default-status" \in Deviations THEN ISetStatus(s, 200)
                                        ELSE s
                               IN IWrite(ISetHdr(t, "ct", "html"), o.a)
    [] o.op = "redirect"    -> ITerminal(ISetHdr(s, "loc", o.a), IF o.b = "" THEN 302 ELSE Code(o.b))
    [] o.op = "noContent"   -> ITerminal(s, IF o.a = "" THEN 204 ELSE Code(o.a))
    [] o.op = "writeHeader" -> IWriteHeader(s, Code(o.a))
    [] o.op = "end"         -> LET u == IF ~s.headerSent /\ s.statusSet THEN IWriteHeader(s, s.status) ELSE s
                               IN [u EXCEPT !.ended = TRUE]

\* what the client receives from the underlying writer (net/http sends 200 + live headers if never committed)
ImplClientStatus(s) == IF s.uwCommits > 0 THEN s.uwStatus ELSE 200
ImplClientHdr(s)    == IF s.uwCommits > 0 THEN s.uwHdr ELSE s.hdr
ImplClientCk(s)     == IF s.uwCommits > 0 THEN s.uwCk ELSE s.ck

\* ------------------------------------------------------------------ behaviour
EndOp == [op |-> "end", a |-> "", b |-> ""]

Init == /\ ref = RefInit /\ impl = ImplInit /\ act = [op |-> "init", a |-> "", b |-> ""]
        /\ (Emit => PrintT(<<"INIT", ToJson(ref)>>))

Do(o) == /\ ~ref.ended
         /\ ref' = RefStep(ref, o) /\ impl' = ImplStep(impl, o) /\ act' = o

Next == \/ \E o \in Ops : ref.n < MaxOps /\ Do(o)
        \/ Do(EndOp)

Spec == Init /\ [][Next]_vars

EmitEdge == Emit => PrintT(<<"EDGE", ToJson([from |-> ref, act |-> act', to |-> ref'])>>)

View == <<ref, impl>>

\* ------------------------------------------------------------------ properties
TypeOK == ref.commits \in 0..1 /\ ref.n \in 0..(MaxOps + 1)

CommitOnce == ref.commits <= 1 /\ impl.uwCommits <= 1

\* the inductive invariant that ResponseInd.tla proves for runs of ANY length (Apalache), checked here on the
\* full Impl layer within the bound: ResponseInd is this layer reduced to the variables below
ImplIndInv == /\ impl.uwCommits \in {0, 1} /\ (impl.headerSent <=> impl.uwCommits = 1)
              /\ (impl.uwCommits = 1 => impl.uwStatus = impl.status)

\* wire status/headers never change once committed
FrozenAfterCommit ==
  [][ref.committed => /\ ref'.wstatus = ref.wstatus /\ ref'.whdr = ref.whdr /\ ref'.wck = ref.wck
                      /\ ref'.committed]_vars
ImplFrozenAfterCommit ==
  [][impl.uwCommits > 0 => /\ impl'.uwStatus = impl.uwStatus /\ impl'.uwHdr = impl.uwHdr
                           /\ impl'.uwCk = impl.uwCk]_vars

\* the body is append-only
BodyAppendOnly == [][Len(ref'.body) >= Len(ref.body) /\ SubSeq(ref'.body, 1, Len(ref.body)) = ref.body]_vars

\* Impl refines Ref on everything the client can observe
Refines ==
  /\ impl.body = ref.body
  /\ ~ref.ended => ((impl.uwCommits > 0) = ref.committed)
  /\ ref.committed => /\ impl.uwStatus = ref.wstatus /\ impl.uwHdr = ref.whdr /\ impl.uwCk = ref.wck
  /\ ref.ended => /\ ImplClientStatus(impl) = ClientStatus(ref)
                  /\ ImplClientHdr(impl) = ClientHdr(ref)
                  /\ ImplClientCk(impl) = ClientCk(ref)
=============================================================================
