SPECIFICATION Spec
CONSTANTS
  Family = "@@FAMILY@@"
  Emit = TRUE
INVARIANTS ChainIsStrict WiderKindsAcceptMore EveryKindHasBothVerdicts
CHECK_DEADLOCK FALSE
