---------------------------- MODULE Heap ----------------------------
\* C06 -- arrays are values: writes through a copy never show through the original.
\*
\* Reference layer: names are bound to cells; an array is a value stored in a cell.  A value route
\* (assignment, by-value parameter, return, property store / load, element store / load, clone of
\* the holding object) binds the new name to a NEW cell holding a copy; a sharing route (&, by-ref
\* parameter, object handle) binds it to the SAME cell.  A mutation through a name rewrites the
\* cell the name is bound to.  Values are symbolic: the initial shape followed by the sequence of
\* mutations applied, which is all the property needs (two names show the same contents exactly
\* when their cells hold the same symbolic value).
\*
\* Mechanism layer (runtime/context.go, data/value_array.go): the copy made by a value route is a
\* new slot list pointing at the SAME slots (ZVal) and the SAME nested arrays.  A mutation that
\* rewrites an existing slot or a nested array in place therefore shows through every copy --
\* named deviation "cells-shared-on-copy"; mutations that rebuild the slot list (append, unset,
\* push, pop, shift, unshift, sort, new keys) do not, but the slots stay shared afterwards.  Storing
\* into an array element ($outer[1] = $a) did not copy at all: every mutation shows through
\* (deviation "element-store-shares-array").  TLC refutes NoLeak on the mechanism layer and proves
\* it on the reference layer; each scenario is printed with both predictions.  Both deviations were
\* repaired in the repository (fix commits 12672f2, 632f08f); the layer documents the old design.
EXTENDS Integers, Sequences, FiniteSets, TLC, Json

CONSTANTS MaxMut, Emit

\* jsonnested: a keyed array that comes out of json_decode(..., true) -- another constructor of the same kind of value
Shapes == {"list", "strkeys", "nested", "mixed", "emptynested", "jsonnested"}
ValueRoutes == {"assign", "param", "return", "getter", "propstore", "propload", "elemstore", "elemload", "clone",
                "variadic", "spread", "arraypush", "ctorparam", "methodparam",
                \* a closure that captures the array by value: function () use ($a) { ... }
                "closureuse",
                \* a static property is a property too: store into / load from Cls::$p
                "staticstore", "staticload", "selfstore"}
SharingRoutes == {"ref", "refparam", "handle"}
Routes == ValueRoutes \cup SharingRoutes
Muts == {"store0", "storenew", "storestr", "append", "nested", "nestedappend", "nestedkey", "nestedkeyappend", "unset", "sort", "push", "pop", "shift", "unshift", "incr"}
\* which mutations make sense on which shape
Applies(m, sh) ==
  CASE m \in {"nested", "nestedappend"} -> sh \in {"nested", "mixed", "emptynested"}
    [] m = "store0" -> sh # "jsonnested"
    [] m \in {"nestedkey", "nestedkeyappend"} -> sh \in {"emptynested", "jsonnested"}          \* writes into the empty array under a string key
    [] m \in {"sort", "push", "pop", "shift", "unshift"} -> sh \in {"list", "nested"}
    [] m = "incr" -> sh \in {"list", "strkeys", "mixed", "emptynested"}
    [] m = "unset" -> sh # "jsonnested"
    [] OTHER -> TRUE
\* mutations the pinned mechanism performs in place on shared slots / shared nested arrays
InPlace(m) == m \in {"store0", "nested", "nestedappend", "nestedkey", "nestedkeyappend", "incr"}
\* inside a callee only the parameter (the copy) can be mutated
SideOK(r, side) == r \in {"param", "refparam", "variadic", "spread", "methodparam", "closureuse"} => side = "copy"

VARIABLES shape, route, cells, bind, slots, nmut, act
vars == <<shape, route, cells, bind, slots, nmut, act>>
\* cells[c]: symbolic value; bind: [orig |-> c, copy |-> c or 0];
\* slots[c]: mechanism layer -- the set of cells whose slot objects cell c's list points at

Init == /\ shape \in Shapes /\ route = "none"
        /\ cells = <<<<>>>> /\ bind = [orig |-> 1, copy |-> 0] /\ slots = <<{1}>> /\ nmut = 0
        /\ act = [op |-> "init", route |-> "", mut |-> "", side |-> "", leakRef |-> FALSE, leakDev |-> FALSE]

MakeCopy(r) ==
  /\ route = "none" /\ route' = r
  /\ IF r \in ValueRoutes
       THEN /\ cells' = Append(cells, cells[1]) /\ bind' = [bind EXCEPT !.copy = 2]
            /\ slots' = <<{1, 2}, {1, 2}>>           \* shallow copy: both lists point at the same slots
       ELSE /\ cells' = cells /\ bind' = [bind EXCEPT !.copy = 1] /\ slots' = slots
  /\ act' = [op |-> "route", route |-> r, mut |-> "", side |-> "", leakRef |-> FALSE, leakDev |-> FALSE]
  /\ UNCHANGED <<shape, nmut>>

Other(side) == IF side = "orig" THEN "copy" ELSE "orig"

Mutate(m, side) ==
  /\ route # "none" /\ nmut < MaxMut /\ Applies(m, shape) /\ SideOK(route, side)
  /\ LET c == bind[side] o == bind[Other(side)] IN
     /\ cells' = [cells EXCEPT ![c] = Append(@, m)]
     \* the other name shows the write: reference layer iff same cell; mechanism also through shared slots
     /\ act' = [op |-> "mutate", route |-> route, mut |-> m, side |-> side,
                leakRef |-> (c = o),
                leakDev |-> (c = o \/ (InPlace(m) /\ o \in slots[c]) \/ route = "elemstore")]
     /\ slots' = slots
  /\ nmut' = nmut + 1 /\ UNCHANGED <<shape, route, bind>>

Next == (\E r \in Routes : MakeCopy(r)) \/ (\E m \in Muts, s \in {"orig", "copy"} : Mutate(m, s))
Spec == Init /\ [][Next]_vars

St  == [shape |-> shape, route |-> route, cells |-> cells, bind |-> bind, slots |-> [i \in 1..Len(slots) |-> slots[i]]]
St1 == [shape |-> shape', route |-> route', cells |-> cells', bind |-> bind', slots |-> [i \in 1..Len(slots') |-> slots'[i]]]
EmitEdge == Emit => PrintT(<<"EDGE", ToJson([from |-> St, act |-> act', to |-> St1])>>)
EmitInit == TRUE
View == <<shape, route, cells, bind, slots, nmut>>

\* ---- properties
\* reference layer: a write is visible through the other name exactly when a sharing route was taken
NoLeak == [][act'.op = "mutate" => (act'.leakRef <=> route \in SharingRoutes)]_vars
\* the cell of a name that was not written keeps its value
FrameRule == [][act'.op = "mutate" => \A c \in 1..Len(cells) : c # bind[act'.side] => cells'[c] = cells[c]]_vars
\* mechanism layer: refuted (expected counterexample, named deviation cells-shared-on-copy)
NoLeakMechanism == [][act'.op = "mutate" => (act'.leakDev <=> route \in SharingRoutes)]_vars
=============================================================================
