SPECIFICATION Spec
CONSTANTS
  Family = "@@FAMILY@@"
  Emit = TRUE
INVARIANTS ParsePrintRoundTrip MinIsMinimal
CHECK_DEADLOCK FALSE
