SPECIFICATION Spec
CONSTANTS
  MaxSteps = @@MAXSTEPS@@
  Dev = @@DEV@@
INVARIANTS TargetExists FinallyOnce AllTriesLeft
PROPERTIES FrameIsolation
CHECK_DEADLOCK FALSE
