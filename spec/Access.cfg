SPECIFICATION Spec
CONSTANTS
  Aspect = "@@ASPECT@@"
  Emit = TRUE
INVARIANTS Monotone NullableLaw UnionLaw SubclassAccepted
CHECK_DEADLOCK FALSE
