SPECIFICATION Spec
CONSTANTS
  Aspect = "@@ASPECT@@"
  Emit = TRUE
INVARIANTS Monotone NullableLaw UnionLaw SubclassAccepted InterfaceLaw
CHECK_DEADLOCK FALSE
