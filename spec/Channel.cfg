SPECIFICATION Spec
CONSTANTS
  Prod = @@PROD@@
  Cons = @@CONS@@
  Closers = @@CLOSERS@@
  Cap = @@CAP@@
  NMsg = @@NMSG@@
  NRecv = @@NRECV@@
  Design = "@@DESIGN@@"
  Emit = @@EMIT@@
VIEW View
ACTION_CONSTRAINT EmitEdge
INVARIANTS NoCrash Conservation AtMostOnce PerSenderFIFO LateSendFails WriterExcludesSenders
PROPERTIES NullOnlyWhenDrained
CHECK_DEADLOCK FALSE
