SPECIFICATION Spec
INVARIANTS CursorMonotone AcceptedMeansAllEmitted
CHECK_DEADLOCK FALSE
