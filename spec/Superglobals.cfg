SPECIFICATION Spec
CONSTANTS
  Reqs = @@REQS@@
  NReads = @@NREADS@@
  Deviation = @@DEV@@
  Emit = @@EMIT@@
VIEW View
ACTION_CONSTRAINT EmitEdge
INVARIANTS @@INV@@
CHECK_DEADLOCK FALSE
