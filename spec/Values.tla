---------------------------- MODULE Values ----------------------------
\* C03 -- scalar operators give reference results; truthiness is context-independent.
\*
\* Values are tagged records: int n | flt as an exact dyadic rational m * 2^-e | str | bool | null.
\* (TLC has 32-bit integers and no floats: results that are not dyadic -- 1/3 -- are marked
\* "inexact" and only their kind is prescribed.)  Every operator is a total function from a pair
\* of values to  [kind: value v | error | unspecified]:
\*     value        inside the documented domain (same-kind pairs, int/float pairs, string/string)
\*     error        % and / by zero: a catchable error
\*     unspecified  the language does not prescribe the result; only "no crash" and the laws apply
\* Truthiness is ONE operator (Truthy) that all eight contexts must agree with; it is anchored
\* where the language is unambiguous and free (but single) elsewhere ("0").
\* Every (operator, a, b) is an initial state; Answer prints the expectation as a CASE line.
EXTENDS Integers, Sequences, FiniteSets, TLC, Json

CONSTANTS Emit, BigPool      \* BigPool: the thorough tier adds more integers, dyadic floats and strings

I(n) == [t |-> "int", v |-> n]
F(m, e) == [t |-> "flt", m |-> m, e |-> e]      \* m * 2^-e, normalised: m odd or e = 0
S(s) == [t |-> "str", s |-> s]
B(b) == [t |-> "bool", b |-> b]
NullV == [t |-> "null"]
\* symbolic 64-bit boundary integers (TLC's integers are 32 bit): only their order and identity are used
Big(s) == [t |-> "big", s |-> s]
BigRank(s) == CASE s = "min" -> -3 [] s = "min+1" -> -2 [] s = "max-1" -> 2 [] s = "max" -> 3
Bigs == {Big("min"), Big("min+1"), Big("max-1"), Big("max")}

Ints == {I(0), I(1), I(-1), I(2), I(-2), I(7)} \cup (IF BigPool THEN {I(3), I(-7), I(8), I(16)} ELSE {})
Flts == {F(0, 0), F(1, 1), F(-3, 1), F(2, 0), F(5, 2)}          \* 0.0, 0.5, -1.5, 2.0, 1.25
        \cup (IF BigPool THEN {F(1, 2), F(-1, 1), F(4, 0), F(-7, 2)} ELSE {})
Strs == {S(""), S("0"), S("a"), S("ab"), S("b"), S("10")} \cup (IF BigPool THEN {S("B"), S("1.5"), S(" ")} ELSE {})
Others == {B(TRUE), B(FALSE), NullV}
\* non-scalars: nothing is prescribed for them, but no operator may crash and the laws still apply
NonScalars == {[t |-> "arr"], [t |-> "obj"]}
Pool == Ints \cup Flts \cup Strs \cup Others \cup NonScalars \cup Bigs
Scalar(x) == x.t \notin {"arr", "obj"}

BinOps == {"+", "-", "*", "/", "%", "**", "&", "|", "^", "<<", ">>", "==", "!=", "===", "!==", "<", "<=", ">", ">=", "<=>", "&&", "||", "."}

\* ---------------------------------------------------------------- dyadic arithmetic
RECURSIVE Pow2(_)
Pow2(n) == IF n = 0 THEN 1 ELSE 2 * Pow2(n - 1)
RECURSIVE Norm(_, _)
Norm(m, e) == IF m = 0 THEN F(0, 0) ELSE IF e > 0 /\ m % 2 = 0 THEN Norm(m \div 2, e - 1) ELSE F(m, e)
IsNum(x) == x.t \in {"int", "flt"}
Num(x) == IF x.t = "int" THEN F(x.v, 0) ELSE x          \* as dyadic
MaxN(a, b) == IF a > b THEN a ELSE b
AddD(a, b) == LET E == MaxN(a.e, b.e) IN Norm(a.m * Pow2(E - a.e) + b.m * Pow2(E - b.e), E)
NegD(a) == F(0 - a.m, a.e)
MulD(a, b) == Norm(a.m * b.m, a.e + b.e)
LtD(a, b) == a.m * Pow2(b.e) < b.m * Pow2(a.e)
EqD(a, b) == a.m * Pow2(b.e) = b.m * Pow2(a.e)
Abs(n) == IF n < 0 THEN 0 - n ELSE n
RECURSIVE OddPart(_)
OddPart(n) == IF n % 2 = 0 THEN OddPart(n \div 2) ELSE n
RECURSIVE TwoExp(_)
TwoExp(n) == IF n % 2 = 0 THEN 1 + TwoExp(n \div 2) ELSE 0
\* a / b for b # 0: exact iff the odd part of b's numerator divides a's numerator
DivExact(a, b) == a.m % OddPart(Abs(b.m)) = 0
DivD(a, b) == LET o == OddPart(Abs(b.m)) k == TwoExp(Abs(b.m))
                  sgn == IF b.m < 0 THEN -1 ELSE 1
                  m == sgn * (a.m \div o)       \* exact by DivExact
                  e == a.e - b.e + k
              IN IF e >= 0 THEN Norm(m, e) ELSE Norm(m * Pow2(0 - e), 0)
TruncMod(a, b) == LET r == Abs(a) % Abs(b) IN IF a < 0 THEN 0 - r ELSE r
RECURSIVE IPow(_, _)
IPow(b, n) == IF n = 0 THEN 1 ELSE b * IPow(b, n - 1)

Val(v) == [kind |-> "value", v |-> v]
Err == [kind |-> "error"]
Unspec == [kind |-> "unspecified"]
Inexact == [kind |-> "inexact-float"]       \* a float whose exact value TLC cannot represent
FltOrInt(d, bothInt) == IF bothInt THEN Val(I(d.m)) ELSE Val(d)     \* d integral when bothInt

\* string order: lexicographic on the pool's non-numeric strings
SRank(s) == CASE s = "" -> 0 [] s = " " -> 1 [] s = "B" -> 2 [] s = "a" -> 3 [] s = "ab" -> 4 [] s = "b" -> 5 [] OTHER -> -1
NumericStr(s) == s \in {"0", "10", "1.5"}

\* ---------------------------------------------------------------- truthiness (one operator)
\* anchored: 0, 0.0, false, null, "" falsy; non-zero numbers, true, other non-empty strings truthy
Anchored(x) == ~(x.t = "str" /\ x.s = "0") /\ x.t \notin {"arr", "obj"}
Truthy(x) == CASE x.t = "int" -> x.v # 0 [] x.t = "flt" -> x.m # 0 [] x.t = "bool" -> x.b [] x.t = "big" -> TRUE
               [] x.t = "null" -> FALSE [] x.t = "str" -> x.s # "" [] OTHER -> TRUE

\* ---------------------------------------------------------------- the operators
Cmp(op, c) == CASE op = "<" -> Val(B(c < 0)) [] op = "<=" -> Val(B(c <= 0)) [] op = ">" -> Val(B(c > 0))
                [] op = ">=" -> Val(B(c >= 0)) [] op = "<=>" -> Val(I(c))

\* bitwise operators on small non-negative ints, bit by bit
RECURSIVE BitOp(_, _, _)
BitOp(op, p, q) == IF p = 0 /\ q = 0 THEN 0
                   ELSE LET bp == p % 2 bq == q % 2
                            bit == CASE op = "&" -> IF bp = 1 /\ bq = 1 THEN 1 ELSE 0
                                     [] op = "|" -> IF bp = 1 \/ bq = 1 THEN 1 ELSE 0
                                     [] op = "^" -> IF bp # bq THEN 1 ELSE 0
                        IN bit + 2 * BitOp(op, p \div 2, q \div 2)

\* operators with a boundary integer: order, equality, identity and truthiness are exact (every other pool number
\* lies strictly between min+1 and max-1); arithmetic at the boundary is not prescribed here (no crash only)
NumLike(x) == x.t \in {"int", "flt", "big"}
RankOf(x) == IF x.t = "big" THEN BigRank(x.s) ELSE 0
BigApply(op, a, b) ==
  CASE op \in {"<", "<=", ">", ">=", "<=>"} ->
         IF NumLike(a) /\ NumLike(b) THEN Cmp(op, IF RankOf(a) < RankOf(b) THEN -1 ELSE IF RankOf(a) = RankOf(b) THEN 0 ELSE 1) ELSE Unspec
    [] op \in {"==", "!="} -> IF NumLike(a) /\ NumLike(b) THEN Val(B((a = b) = (op = "=="))) ELSE Unspec
    [] op \in {"===", "!=="} -> Val(B((a = b) = (op = "===")))
    [] op = "&&" -> IF Anchored(a) /\ Anchored(b) THEN Val(B(Truthy(a) /\ Truthy(b))) ELSE Unspec
    [] op = "||" -> IF Anchored(a) /\ Anchored(b) THEN Val(B(Truthy(a) \/ Truthy(b))) ELSE Unspec
    [] OTHER -> Unspec

Apply(op, a, b) ==
  IF ~Scalar(a) \/ ~Scalar(b) THEN Unspec ELSE
  IF a.t = "big" \/ b.t = "big" THEN BigApply(op, a, b) ELSE
  LET num == IsNum(a) /\ IsNum(b)
      ints == a.t = "int" /\ b.t = "int"
      strs == a.t = "str" /\ b.t = "str"
      bools == a.t = "bool" /\ b.t = "bool"
      x == Num(a) y == Num(b)
  IN
  CASE op = "+" -> IF num THEN FltOrInt(AddD(x, y), ints) ELSE Unspec
    [] op = "-" -> IF num THEN FltOrInt(AddD(x, NegD(y)), ints) ELSE Unspec
    [] op = "*" -> IF num THEN FltOrInt(MulD(x, y), ints) ELSE Unspec
    [] op = "/" -> IF ~num THEN Unspec ELSE IF y.m = 0 THEN Err
                   ELSE IF DivExact(x, y) THEN Val(DivD(x, y)) ELSE Inexact        \* always a float
    [] op = "%" -> IF ~ints THEN Unspec ELSE IF b.v = 0 THEN Err ELSE Val(I(TruncMod(a.v, b.v)))
    [] op = "**" -> IF ints /\ Abs(b.v) > 7 THEN Unspec                 \* beyond TLC's 32-bit integers
                    ELSE IF ints /\ b.v >= 0 THEN Val(I(IPow(a.v, b.v)))
                    ELSE IF ints /\ a.v # 0 THEN (LET d == F(IPow(a.v, 0 - b.v), 0) IN
                                                  IF DivExact(F(1, 0), d) THEN Val(DivD(F(1, 0), d)) ELSE Inexact)
                    ELSE Unspec
    [] op \in {"&", "|", "^", "<<", ">>"} -> IF ~ints THEN Unspec ELSE
          (CASE op = "<<" -> IF b.v >= 0 /\ b.v < 20 THEN Val(I(a.v * Pow2(b.v))) ELSE Unspec
             [] op = ">>" -> IF b.v >= 0 /\ b.v < 20 /\ a.v >= 0 THEN Val(I(a.v \div Pow2(b.v))) ELSE Unspec
             [] OTHER -> IF a.v >= 0 /\ b.v >= 0 THEN Val(I(BitOp(op, a.v, b.v))) ELSE Unspec)
    [] op \in {"==", "!="} ->
          LET eq == IF num THEN EqD(x, y) ELSE IF strs /\ ~NumericStr(a.s) /\ ~NumericStr(b.s) THEN a.s = b.s
                    ELSE IF bools THEN a.b = b.b ELSE FALSE
              defined == num \/ (strs /\ ~NumericStr(a.s) /\ ~NumericStr(b.s)) \/ bools \/ (a.t = "null" /\ b.t = "null")
          IN IF ~defined THEN Unspec ELSE Val(B(IF a.t = "null" THEN op = "==" ELSE (eq = (op = "=="))))
    [] op \in {"===", "!=="} -> LET same == a.t = b.t /\ (IF a.t = "flt" THEN EqD(a, b) ELSE a = b) IN Val(B(same = (op = "===")))
    [] op \in {"<", "<=", ">", ">=", "<=>"} ->
          IF num THEN Cmp(op, IF LtD(x, y) THEN -1 ELSE IF EqD(x, y) THEN 0 ELSE 1)
          ELSE IF strs /\ SRank(a.s) >= 0 /\ SRank(b.s) >= 0
                 THEN Cmp(op, IF SRank(a.s) < SRank(b.s) THEN -1 ELSE IF SRank(a.s) = SRank(b.s) THEN 0 ELSE 1)
          ELSE Unspec
    [] op = "&&" -> IF Anchored(a) /\ Anchored(b) THEN Val(B(Truthy(a) /\ Truthy(b))) ELSE Unspec
    [] op = "||" -> IF Anchored(a) /\ Anchored(b) THEN Val(B(Truthy(a) \/ Truthy(b))) ELSE Unspec
    [] op = "." -> IF strs THEN Val(S(a.s \o b.s))
                   ELSE IF a.t = "str" /\ b.t = "int" THEN Val(S(a.s \o ToString(b.v)))
                   ELSE IF a.t = "int" /\ b.t = "str" THEN Val(S(ToString(a.v) \o b.s)) ELSE Unspec

CompoundOps == {"+", "-", "*", "/", "%", "**", "&", "|", "^", "<<", ">>", "."}
SitePool == {I(0), I(5), I(-3), S(""), S("a"), S("10"), B(TRUE), B(FALSE), NullV, F(1, 1), F(2, 0)}

\* ---------------------------------------------------------------- behaviour: one state per case
VARIABLES kind, op, a, b, done
vars == <<kind, op, a, b, done>>

Init == /\ done = FALSE
        /\ \/ (kind = "binop" /\ op \in BinOps /\ a \in Pool /\ b \in Pool)
           \/ (kind = "truthy" /\ op = "ctx" /\ a \in Pool /\ b = NullV)
           \/ (kind = "law" /\ op \in {"eq-sym", "ne-compl", "strict-compl", "spaceship"} /\ a \in Pool /\ b \in Pool)
           \* an operator has ONE meaning wherever it is written: as a binary expression and as the compound
           \* assignment x op= b on a variable, a list element, a keyed element and an object property
           \/ (kind = "site" /\ op \in CompoundOps /\ a \in SitePool /\ b \in SitePool)

Expect == CASE kind \in {"binop", "site"} -> Apply(op, a, b)
            [] kind = "truthy" -> IF Anchored(a) THEN Val(B(Truthy(a))) ELSE Unspec
            [] kind = "law" -> Val(B(TRUE))
Answer == /\ ~done /\ done' = TRUE
          /\ (Emit => PrintT(<<"CASE", ToJson([kind |-> kind, op |-> op, a |-> a, b |-> b, expect |-> Expect])>>))
          /\ UNCHANGED <<kind, op, a, b>>
Spec == Init /\ [][Answer]_vars

\* ---------------------------------------------------------------- the oracle satisfies the property
IsVal(r) == r.kind = "value"
BoolOf(r) == r.v.b
EqSym     == kind = "law" => (IsVal(Apply("==", a, b)) = IsVal(Apply("==", b, a)) /\
                              (IsVal(Apply("==", a, b)) => BoolOf(Apply("==", a, b)) = BoolOf(Apply("==", b, a))))
NeCompl   == kind = "law" => (IsVal(Apply("==", a, b)) => BoolOf(Apply("!=", a, b)) = ~BoolOf(Apply("==", a, b)))
StrictCompl == kind = "law" /\ Scalar(a) /\ Scalar(b) => BoolOf(Apply("!==", a, b)) = ~BoolOf(Apply("===", a, b))
SpaceshipAgrees == kind = "law" => (IsVal(Apply("<=>", a, b)) =>
                      /\ (Apply("<=>", a, b).v.v = -1) = BoolOf(Apply("<", a, b))
                      /\ (Apply("<=>", a, b).v.v = 1) = BoolOf(Apply(">", a, b))
                      /\ (Apply("<=>", a, b).v.v = 0) = (BoolOf(Apply("<=", a, b)) /\ BoolOf(Apply(">=", a, b))))
DivAlwaysFloat == kind = "binop" /\ op = "/" => (IsVal(Apply("/", a, b)) => Apply("/", a, b).v.t = "flt")
=============================================================================
