---------------------------- MODULE Middleware ----------------------------
(* C13 (second clause) — middlewares run outermost-first in ascending priority, ties in
   registration order, each wrapping all later ones.  Mechanism: std/net/http/middleware_stack.go
   applyMiddlewares (stable sort at route registration, wrap from the inside out).

   The behaviour is: register k middlewares, register the route (the order is frozen here),
   serve one request (Enter.. Handle Leave..).  At the terminal state the expected marker
   trace is printed as a CASE line for the replay engine.                                  *)
EXTENDS Integers, Sequences, FiniteSets, TLC, Json

CONSTANTS MaxMw,    \* maximum number of middlewares
          Emit
Pris == {-1, 0, 1, 5}   \* priority values (0 is also the default when the argument is omitted)

VARIABLES reg,      \* sequence of priorities in registration order
          late,     \* number of middlewares registered AFTER the route (must not apply to it)
          order,    \* indices into reg, outermost first (frozen at AddRoute)
          pc, depth, trace
vars == <<reg, late, order, pc, depth, trace>>

Less(i, j) == reg[i] < reg[j] \/ (reg[i] = reg[j] /\ i < j)

\* the unique sequence of all indices that is ascending for the total order Less
Order == IF reg = <<>> THEN <<>> ELSE
         LET n == Len(reg)
             rank(i) == 1 + Cardinality({j \in 1..n : Less(j, i)})
         IN [k \in 1..n |-> CHOOSE i \in 1..n : rank(i) = k]

Init == reg = <<>> /\ late = 0 /\ order = <<>> /\ pc = "reg" /\ depth = 0 /\ trace = <<>>

Register(p) == /\ pc = "reg" /\ Len(reg) < MaxMw
               /\ reg' = Append(reg, p) /\ UNCHANGED <<late, order, pc, depth, trace>>
AddRoute    == /\ pc = "reg" /\ order' = Order /\ pc' = "routed" /\ UNCHANGED <<reg, late, depth, trace>>
RegisterLate == /\ pc = "routed" /\ late = 0 /\ Len(reg) < MaxMw
                /\ late' = 1 /\ UNCHANGED <<reg, order, pc, depth, trace>>
Request     == /\ pc = "routed" /\ pc' = "serving" /\ UNCHANGED <<reg, late, order, depth, trace>>
Enter       == /\ pc = "serving" /\ depth < Len(order)
               /\ depth' = depth + 1
               /\ trace' = Append(trace, <<"pre", order[depth + 1]>>)
               /\ UNCHANGED <<reg, late, order, pc>>
Handle      == /\ pc = "serving" /\ depth = Len(order)
               /\ trace' = Append(trace, <<"h", 0>>) /\ pc' = "unwinding"
               /\ UNCHANGED <<reg, late, order, depth>>
Leave       == /\ pc = "unwinding" /\ depth > 0
               /\ trace' = Append(trace, <<"post", order[depth]>>)
               /\ depth' = depth - 1 /\ UNCHANGED <<reg, late, order, pc>>
Finish      == /\ pc = "unwinding" /\ depth = 0 /\ pc' = "done"
               /\ (Emit => PrintT(<<"CASE", ToJson([reg |-> reg, late |-> late, order |-> order,
                                                    trace |-> [i \in 1..Len(trace) |-> trace[i][1] \o ToString(trace[i][2])]])>>))
               /\ UNCHANGED <<reg, late, order, depth, trace>>

Next == (\E p \in Pris : Register(p)) \/ AddRoute \/ RegisterLate \/ Request \/ Enter \/ Handle \/ Leave \/ Finish
Spec == Init /\ [][Next]_vars

\* ---- properties of the finished trace
Pos(kind, i) == CHOOSE k \in 1..Len(trace) : trace[k] = <<kind, i>>
Done == pc = "done"
EveryoneRunsOnce == Done => \A i \in 1..Len(reg) :
                      /\ Cardinality({k \in 1..Len(trace) : trace[k] = <<"pre", i>>}) = 1
                      /\ Cardinality({k \in 1..Len(trace) : trace[k] = <<"post", i>>}) = 1
\* ascending priority, ties by registration order, and proper nesting around the handler
OuterFirst == Done => \A i, j \in 1..Len(reg) : Less(i, j) =>
                 /\ Pos("pre", i) < Pos("pre", j)
                 /\ Pos("pre", j) < Pos("h", 0)
                 /\ Pos("h", 0) < Pos("post", j)
                 /\ Pos("post", j) < Pos("post", i)
=============================================================================
