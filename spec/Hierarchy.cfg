SPECIFICATION Spec
CONSTANTS
  NC = @@NC@@
  NI = @@NI@@
  Aspect = "@@ASPECT@@"
  Emit = TRUE
INVARIANTS SubReflexive SubTransitive IfaceInherited IfaceUpward MechanismAgrees DispatchDefined DispatchMostDerived ParentIsProperAncestor ChainVisitsEachDefinerOnce StaticBindsBelowSelf LikeIgnoresNominal LikeMonotone
CHECK_DEADLOCK FALSE
