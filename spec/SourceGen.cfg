SPECIFICATION Spec
CONSTANTS
  MaxLen = @@MAXLEN@@
  Alphabet = "@@ALPHABET@@"
  Emit = TRUE
INVARIANTS TypeOK
CHECK_DEADLOCK FALSE
