---------------------------- MODULE ResponseInd ----------------------------
\* C13 -- the commit-once mechanism of std/net/http/response.go, reduced to the variables that decide it, with an
\* inductive invariant: for handler runs of ANY length the underlying writer receives at most one WriteHeader,
\* and "headers sent" is exactly "the underlying writer has committed".  Checked by Apalache in two steps
\* (Init => IndInv with --length=0, IndInv /\ Next => IndInv' with --init=IndInit --length=1).
EXTENDS Integers

VARIABLES
  \* @type: Bool;
  headerSent,
  \* @type: Bool;
  statusSet,
  \* @type: Int;
  status,
  \* @type: Int;
  uwCommits,
  \* @type: Int;
  uwStatus,
  \* @type: Bool;
  ended

Codes == {200, 201, 202, 204, 205, 301, 302, 404, 500}

Init == /\ headerSent = FALSE /\ statusSet = FALSE /\ status = 200 /\ uwCommits = 0 /\ uwStatus = 0 /\ ended = FALSE

\* the underlying net/http writer: the first WriteHeader wins (only reached through the guard below)
WriteHeaderGuarded(c) ==
  IF headerSent
  THEN UNCHANGED <<headerSent, status, uwCommits, uwStatus>>
  ELSE /\ headerSent' = TRUE /\ status' = c
       /\ uwCommits' = uwCommits + 1
       /\ uwStatus' = IF uwCommits = 0 THEN c ELSE uwStatus

SetStatus == \E c \in Codes : /\ ~ended /\ IF headerSent THEN UNCHANGED <<status, statusSet>> ELSE status' = c /\ statusSet' = TRUE
                              /\ UNCHANGED <<headerSent, uwCommits, uwStatus, ended>>
Write == /\ ~ended /\ WriteHeaderGuarded(status) /\ UNCHANGED <<statusSet, ended>>
WriteHeader == \E c \in Codes : ~ended /\ WriteHeaderGuarded(c) /\ UNCHANGED <<statusSet, ended>>
Terminal == \E c \in Codes : /\ ~ended /\ WriteHeaderGuarded(IF headerSent THEN status ELSE c)
                             /\ statusSet' = (IF headerSent THEN statusSet ELSE TRUE) /\ UNCHANGED ended
End == /\ ~ended /\ ended' = TRUE
       /\ IF ~headerSent /\ statusSet THEN WriteHeaderGuarded(status) ELSE UNCHANGED <<headerSent, status, uwCommits, uwStatus>>
       /\ UNCHANGED statusSet
Next == SetStatus \/ Write \/ WriteHeader \/ Terminal \/ End

CommitOnce == uwCommits <= 1
IndInv == /\ uwCommits \in {0, 1} /\ (headerSent <=> uwCommits = 1)
          /\ status \in Codes /\ (uwCommits = 1 => uwStatus \in Codes)
          /\ (uwCommits = 1 => uwStatus = status)
IndInit == /\ headerSent \in BOOLEAN /\ statusSet \in BOOLEAN /\ ended \in BOOLEAN
           /\ status \in Codes /\ uwCommits \in {0, 1} /\ uwStatus \in Codes \cup {0}
           /\ IndInv
=============================================================================
