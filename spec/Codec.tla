---------------------------- MODULE Codec ----------------------------
\* C14 (structured text codecs) -- json_encode / json_decode and serialize / unserialize over value classes.
\*
\* A value is a tree: scalars are symbolic boundary classes (the replay engine owns the concrete value of
\* each symbol), containers are
\*   list  <<v1, .., vn>>                 consecutive integer keys from 0
\*   smap  keys (strings, insertion order) -> values
\*   imap  keys (integers, not 0..n-1, insertion order) -> values
\* JsonTok(v) is the token stream a faithful JSON encoder emits (the stream Go's encoding/json tokenizer
\* reads back from the interpreter's output); SerTok(v) the token stream of PHP's serialize format.
\* JsonParse / SerParse are the reference decoders on token streams.  TLC checks on every value of the
\* universe that the decoders invert the encoders (up to JSON's loss of the int-key / string-key
\* distinction, made explicit by Jsonify) and the shape laws; every value is printed as a CASE with both
\* token streams for the replay engine.
EXTENDS Integers, Sequences, FiniteSets, TLC, Json

CONSTANTS Family,    \* "scalars" | "flat" | "nested" | "deep" | "mutants"
          Emit

IntSyms == {"0", "1", "-1", "2^53", "-2^53", "2^53+1", "max", "min"}
FltSyms == {"0.0", "-0.0", "1.5", "3.0", "1e-7", "1e21", "-2.25"}
StrSyms == {"empty", "plain", "quote", "ctl", "multibyte", "html", "numeric", "slash"}
Sc(k, s) == [k |-> k, s |-> s]
Scalars == {Sc("int", s) : s \in IntSyms} \cup {Sc("flt", s) : s \in FltSyms} \cup {Sc("str", s) : s \in StrSyms}
           \cup {Sc("lit", "true"), Sc("lit", "false"), Sc("lit", "null")}
FewScalars == {Sc("int", "1"), Sc("int", "2^53+1"), Sc("flt", "1.5"), Sc("str", "plain"), Sc("str", "quote"), Sc("lit", "null"), Sc("lit", "true")}
TwoScalars == {Sc("int", "1"), Sc("str", "plain")}

List(es) == [k |-> "list", es |-> es]
SMap(ks, es) == [k |-> "smap", ks |-> ks, es |-> es]
IMap(ks, es) == [k |-> "imap", ks |-> ks, es |-> es]
\* "7": a numeric string key; keys starting with "@" are symbolic classes concretised by the replay engine
\* (@ctl: control characters and DEL, @quote: quote and backslash, @mb: multi-byte, @html: < & >, @empty: "")
\* PHP key rule: a string key that is the canonical decimal spelling of an integer IS that integer key
\* ("7", "-3"); any other numeric-looking spelling stays a string key ("007", "+5", "-0", "7 ").
NumericCanon == {"7", "-3"}
StrKeySeqsCore == {<<"a">>, <<"a", "b">>, <<"b", "a">>, <<"k y">>, <<"7">>, <<"@ctl">>, <<"@quote", "a">>, <<"@mb">>, <<"a", "@html">>, <<"@empty">>}
\* numeric-looking spellings (flat family only: the nested universes grow with the square of this set)
StrKeySeqsNum == {<<"007">>, <<"007", "7">>, <<"+5">>, <<"-0">>, <<"7 ", "a">>, <<"-3", "7">>, <<"a", "-3">>}
IntKeySeqs == {<<3>>, <<3, 7>>, <<7, 3>>, <<1, 2>>, <<0, 2>>}
Tuples(S, n) == [1..n -> S]
Containers(E) == {List(es) : es \in Tuples(E, 0) \cup Tuples(E, 1) \cup Tuples(E, 2)}
                 \cup {SMap(ks, es) : ks \in StrKeySeqsCore, es \in Tuples(E, 1) \cup Tuples(E, 2)}
                 \cup {IMap(ks, es) : ks \in IntKeySeqs, es \in Tuples(E, 1) \cup Tuples(E, 2)}
WellFormed(v) == v.k \in {"smap", "imap"} => Len(v.ks) = Len(v.es)
Flat(u) == {v \in Containers(FewScalars) \cup {SMap(ks, es) : ks \in StrKeySeqsNum, es \in Tuples(FewScalars, 1) \cup Tuples(FewScalars, 2)} : WellFormed(v)}
Inner(u) == {v \in Containers(TwoScalars) : WellFormed(v) /\ (v.k = "list" => Len(v.es) <= 1)}
Nested(u) == {v \in Containers(Inner(u) \cup {Sc("int", "1")}) : WellFormed(v)}
Deep(u) == {List(<<w>>) : w \in {List(<<v>>) : v \in Nested(u)}} \cup {SMap(<<"a">>, <<w>>) : w \in {IMap(<<3>>, <<v>>) : v \in Nested(u)}}
Universe == CASE Family = "scalars" -> Scalars [] Family = "flat" -> Flat(0) [] Family = "nested" -> Nested(0) [] Family = "deep" -> Deep(0)

\* ---------------------------------------------------------------- JSON
T(t, v) == [t |-> t, v |-> v]
IntStr(i) == ToString(i)
RECURSIVE JsonTok(_), JsonSeq(_, _), JsonKV(_, _, _, _)
JsonTok(v) ==
  CASE v.k \in {"int", "flt", "str", "lit"} -> <<T(v.k, v.s)>>
    [] v.k = "list" -> <<T("[", "")>> \o JsonSeq(v.es, 1) \o <<T("]", "")>>
    [] v.k = "smap" -> <<T("{", "")>> \o JsonKV(v.ks, v.es, 1, FALSE) \o <<T("}", "")>>
    [] v.k = "imap" -> <<T("{", "")>> \o JsonKV(v.ks, v.es, 1, TRUE) \o <<T("}", "")>>
JsonSeq(es, i) == IF i > Len(es) THEN <<>> ELSE JsonTok(es[i]) \o JsonSeq(es, i + 1)
JsonKV(ks, es, i, isInt) == IF i > Len(ks) THEN <<>>
                            ELSE <<T("key", IF isInt THEN IntStr(ks[i]) ELSE ks[i])>> \o JsonTok(es[i]) \o JsonKV(ks, es, i + 1, isInt)

\* what JSON can represent of a value: int keys become their decimal strings
RECURSIVE Jsonify(_)
Jsonify(v) == CASE v.k \in {"int", "flt", "str", "lit"} -> v
                [] v.k = "list" -> List([i \in 1..Len(v.es) |-> Jsonify(v.es[i])])
                [] v.k = "smap" -> SMap(v.ks, [i \in 1..Len(v.es) |-> Jsonify(v.es[i])])
                [] v.k = "imap" -> SMap([i \in 1..Len(v.ks) |-> IntStr(v.ks[i])], [i \in 1..Len(v.es) |-> Jsonify(v.es[i])])

\* reference decoder: returns [v |-> value, n |-> next position]
RECURSIVE JP(_, _), JPList(_, _, _), JPObj(_, _, _, _)
JP(ts, p) == LET t == ts[p] IN
  CASE t.t \in {"int", "flt", "str", "lit"} -> [v |-> Sc(t.t, t.v), n |-> p + 1]
    [] t.t = "[" -> JPList(ts, p + 1, <<>>)
    [] t.t = "{" -> JPObj(ts, p + 1, <<>>, <<>>)
JPList(ts, p, acc) == IF ts[p].t = "]" THEN [v |-> List(acc), n |-> p + 1]
                      ELSE LET r == JP(ts, p) IN JPList(ts, r.n, Append(acc, r.v))
JPObj(ts, p, ks, es) == IF ts[p].t = "}" THEN [v |-> SMap(ks, es), n |-> p + 1]
                        ELSE LET r == JP(ts, p + 1) IN JPObj(ts, r.n, Append(ks, ts[p].v), Append(es, r.v))
JsonParse(ts) == JP(ts, 1).v

\* ---------------------------------------------------------------- PHP serialize
RECURSIVE SerTok(_), SerKV(_, _, _, _)
SerTok(v) ==
  CASE v.k = "int" -> <<T("i", v.s)>> [] v.k = "flt" -> <<T("d", v.s)>> [] v.k = "str" -> <<T("s", v.s)>>
    [] v.k = "lit" -> (IF v.s = "null" THEN <<T("N", "")>> ELSE <<T("b", v.s)>>)
    [] v.k = "list" -> <<T("a", IntStr(Len(v.es)))>> \o SerKV([i \in 1..Len(v.es) |-> i - 1], v.es, 1, TRUE) \o <<T("}", "")>>
    [] v.k = "smap" -> <<T("a", IntStr(Len(v.es)))>> \o SerKV(v.ks, v.es, 1, FALSE) \o <<T("}", "")>>
    [] v.k = "imap" -> <<T("a", IntStr(Len(v.es)))>> \o SerKV(v.ks, v.es, 1, TRUE) \o <<T("}", "")>>
SerKV(ks, es, i, isInt) == IF i > Len(ks) THEN <<>>
                           ELSE <<IF isInt THEN T("ki", IntStr(ks[i])) ELSE IF ks[i] \in NumericCanon THEN T("ki", ks[i]) ELSE T("ks", ks[i])>>
                                \o SerTok(es[i]) \o SerKV(ks, es, i + 1, isInt)
\* the serialize format keeps the key type, but an array with keys 0..n-1 in order IS a list
RECURSIVE SP(_, _), SPArr(_, _, _, _, _)
SP(ts, p) == LET t == ts[p] IN
  CASE t.t = "i" -> [v |-> Sc("int", t.v), n |-> p + 1] [] t.t = "d" -> [v |-> Sc("flt", t.v), n |-> p + 1]
    [] t.t = "s" -> [v |-> Sc("str", t.v), n |-> p + 1] [] t.t = "N" -> [v |-> Sc("lit", "null"), n |-> p + 1]
    [] t.t = "b" -> [v |-> Sc("lit", t.v), n |-> p + 1]
    [] t.t = "a" -> SPArr(ts, p + 1, <<>>, <<>>, <<>>)
SPArr(ts, p, kinds, ks, es) ==
  IF ts[p].t = "}" THEN
       [n |-> p + 1,
        v |-> IF \A i \in 1..Len(ks) : kinds[i] = "ki" /\ ks[i] = IntStr(i - 1) THEN List(es)
              ELSE IF \A i \in 1..Len(ks) : kinds[i] = "ki" THEN [k |-> "imapS", ks |-> ks, es |-> es]
              ELSE SMap(ks, es)]
  ELSE LET r == SP(ts, p + 1) IN SPArr(ts, r.n, Append(kinds, ts[p].t), Append(ks, ts[p].v), Append(es, r.v))
SerParse(ts) == SP(ts, 1).v
\* SerParse keeps integer keys as decimal strings in an "imapS" node; Serify maps a value to that form
RECURSIVE Serify(_)
Serify(v) == CASE v.k \in {"int", "flt", "str", "lit"} -> v
               [] v.k = "list" -> List([i \in 1..Len(v.es) |-> Serify(v.es[i])])
               [] v.k = "smap" -> IF \A i \in 1..Len(v.ks) : v.ks[i] \in NumericCanon
                                    THEN [k |-> "imapS", ks |-> v.ks, es |-> [i \in 1..Len(v.es) |-> Serify(v.es[i])]]
                                    ELSE SMap(v.ks, [i \in 1..Len(v.es) |-> Serify(v.es[i])])
               [] v.k = "imap" -> [k |-> "imapS", ks |-> [i \in 1..Len(v.ks) |-> IntStr(v.ks[i])], es |-> [i \in 1..Len(v.es) |-> Serify(v.es[i])]]

\* ---------------------------------------------------------------- decoders accept exactly the well-formed inputs
\* Family "mutants": the token stream of a value is damaged by one token-level mutation; the recognizers
\* below (total: 0 = reject, otherwise the next position) say whether the result is still a text of the
\* format.  The replay engine renders the damaged stream canonically (commas and colons where a writer
\* puts them) and the decoder must accept it exactly when the recognizer does, and never crash.
RECURSIVE JV(_, _), JList(_, _), JObj(_, _)
JV(ts, p) == IF p > Len(ts) THEN 0
             ELSE LET t == ts[p].t IN
                  IF t \in {"int", "flt", "str", "lit"} THEN p + 1
                  ELSE IF t = "[" THEN JList(ts, p + 1) ELSE IF t = "{" THEN JObj(ts, p + 1) ELSE 0
JList(ts, p) == IF p > Len(ts) THEN 0 ELSE IF ts[p].t = "]" THEN p + 1
                ELSE LET r == JV(ts, p) IN IF r = 0 THEN 0 ELSE JList(ts, r)
JObj(ts, p) == IF p > Len(ts) THEN 0 ELSE IF ts[p].t = "}" THEN p + 1
               ELSE IF ts[p].t # "key" THEN 0
               ELSE LET r == JV(ts, p + 1) IN IF r = 0 THEN 0 ELSE JObj(ts, r)
JsonOK(ts) == ts # <<>> /\ JV(ts, 1) = Len(ts) + 1          \* one value, every token accounted for

\* serialize: a:<n>:{ is followed by exactly n (key, value) pairs, a key is an int or a string, a string
\* carries its exact byte length ("s!" = wrong length), the count is a small non-negative number
CountOf(v) == CASE v = "0" -> 0 [] v = "1" -> 1 [] v = "2" -> 2 [] v = "3" -> 3 [] OTHER -> -1   \* "-1", "huge" -> malformed
RECURSIVE SV(_, _), SArr(_, _, _)
SV(ts, p) == IF p > Len(ts) THEN 0
             ELSE LET t == ts[p].t IN
                  IF t \in {"i", "d", "s", "N", "b"} THEN p + 1
                  ELSE IF t = "a" THEN (IF CountOf(ts[p].v) < 0 THEN 0 ELSE SArr(ts, p + 1, CountOf(ts[p].v)))
                  ELSE 0
SArr(ts, p, n) == IF p > Len(ts) THEN 0
                  ELSE IF n = 0 THEN (IF ts[p].t = "}" THEN p + 1 ELSE 0)
                  ELSE IF ts[p].t \notin {"ki", "ks"} THEN 0
                  ELSE LET r == SV(ts, p + 1) IN IF r = 0 THEN 0 ELSE SArr(ts, r, n - 1)
SerOK(ts) == ts # <<>> /\ SV(ts, 1) = Len(ts) + 1

DropAt(ts, i) == SubSeq(ts, 1, i - 1) \o SubSeq(ts, i + 1, Len(ts))
DupAt(ts, i) == SubSeq(ts, 1, i) \o SubSeq(ts, i, Len(ts))
SetAt(ts, i, t) == [ts EXCEPT ![i] = t]
JsonAlts(t) == CASE t.t = "[" -> {T("{", "")} [] t.t = "]" -> {T("}", "")} [] t.t = "{" -> {T("[", "")} [] t.t = "}" -> {T("]", "")}
                 [] t.t = "key" -> {T("str", "plain")} [] OTHER -> {}
SerAlts(t) == CASE t.t = "a" -> {T("a", "-1"), T("a", "huge")} \cup {T("a", c) : c \in {"0", "1", "2", "3"} \ {t.v}}
                [] t.t = "s" -> {T("s!", t.v)} [] t.t = "ks" -> {T("ks!", t.v), T("kN", ""), T("kd", "1.5"), T("kb", "true")}
                [] t.t = "ki" -> {T("kN", ""), T("kd", "1.5"), T("kb", "true")}
                [] t.t = "}" -> {T("]", "")} [] OTHER -> {}
Mutations(ts, isJson) ==
  {[op |-> "none", ts |-> ts]}
  \cup {[op |-> "trunc", ts |-> SubSeq(ts, 1, i)] : i \in 1..(Len(ts) - 1)}
  \cup {[op |-> "drop", ts |-> DropAt(ts, i)] : i \in 1..Len(ts)}
  \cup {[op |-> "dup", ts |-> DupAt(ts, i)] : i \in 1..Len(ts)}
  \cup {[op |-> "extra", ts |-> Append(ts, x)] : x \in (IF isJson THEN {T("]", ""), T("}", ""), T("int", "1")} ELSE {T("}", ""), T("i", "1"), T("N", "")})}
  \cup UNION {{[op |-> "swap", ts |-> SetAt(ts, i, a)] : a \in (IF isJson THEN JsonAlts(ts[i]) ELSE SerAlts(ts[i]))} : i \in 1..Len(ts)}
MutBase(u) == TwoScalars \cup {v \in Containers(TwoScalars) : WellFormed(v)}
              \cup {List(<<v>>) : v \in {w \in Containers(TwoScalars) : WellFormed(w) /\ Len(w.es) = 1}}
              \cup {SMap(<<"a">>, <<v>>) : v \in {w \in Containers(TwoScalars) : WellFormed(w) /\ Len(w.es) = 1}}

VARIABLES val, done
vars == <<val, done>>
Init == val \in (IF Family = "mutants" THEN MutBase(0) ELSE Universe) /\ done = FALSE
Answer == /\ ~done /\ done' = TRUE /\ UNCHANGED val
          /\ (Emit /\ Family # "mutants" => PrintT(<<"CASE", ToJson([family |-> Family, value |-> val, json |-> JsonTok(val), ser |-> SerTok(val)])>>))
          /\ (Emit /\ Family = "mutants" =>
                /\ \A m \in Mutations(JsonTok(val), TRUE) : PrintT(<<"MUT", ToJson([format |-> "json", op |-> m.op, ts |-> m.ts, ok |-> JsonOK(m.ts)])>>)
                /\ \A m \in Mutations(SerTok(val), FALSE) : PrintT(<<"MUT", ToJson([format |-> "ser", op |-> m.op, ts |-> m.ts, ok |-> SerOK(m.ts)])>>))
Spec == Init /\ [][Answer]_vars

\* ---------------------------------------------------------------- laws
\* the recognizers accept what the encoders emit, and truncating an accepted text never gives an accepted text
EncodersWellFormed == JsonOK(JsonTok(val)) /\ SerOK(SerTok(val))
NoProperPrefixAccepted == /\ \A i \in 1..(Len(JsonTok(val)) - 1) : ~JsonOK(SubSeq(JsonTok(val), 1, i))
                          /\ \A i \in 1..(Len(SerTok(val)) - 1) : ~SerOK(SubSeq(SerTok(val), 1, i))
JsonRoundTrip == JsonParse(JsonTok(val)) = Jsonify(val)
SerRoundTrip == SerParse(SerTok(val)) = Serify(val)
\* lists encode as JSON arrays, maps as JSON objects; kinds of scalars are preserved
ShapeLaw == LET t == JsonTok(val)[1].t IN
              CASE val.k = "list" -> t = "[" [] val.k \in {"smap", "imap"} -> t = "{" [] OTHER -> t = val.k
\* the token stream is balanced and has one token per scalar, two per container, one per key
RECURSIVE Size(_)
Size(v) == IF v.k \in {"int", "flt", "str", "lit"} THEN 1
           ELSE 2 + (IF v.k = "list" THEN 0 ELSE Len(v.es)) + (IF Len(v.es) = 0 THEN 0 ELSE IF Len(v.es) = 1 THEN Size(v.es[1]) ELSE Size(v.es[1]) + Size(v.es[2]))
TokenCount == Len(JsonTok(val)) = Size(val)
\* serialize keeps distinct keys distinct: the key tokens of a map are pairwise different
RECURSIVE KeyToks(_, _)
KeyToks(ts, p) == IF p > Len(ts) THEN <<>> ELSE IF ts[p].t \in {"ki", "ks"} THEN <<ts[p]>> \o KeyToks(ts, p + 1) ELSE KeyToks(ts, p + 1)
KeysStayDistinct == val.k = "smap" /\ (\A i \in 1..Len(val.es) : val.es[i].k \in {"int", "flt", "str", "lit"}) =>
                      LET kt == KeyToks(SerTok(val), 1) IN \A i, j \in 1..Len(kt) : i # j => kt[i] # kt[j]
=============================================================================
