SPECIFICATION Spec
CONSTANTS
  Emit = TRUE
INVARIANTS NoSiblingRuns Ascending EveryVisibleOnce
CHECK_DEADLOCK FALSE
