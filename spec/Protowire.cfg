SPECIFICATION Spec
CONSTANTS
  Family = "@@FAMILY@@"
  MaxDepths = @@DEPTHS@@
  Dev = @@DEV@@
  Emit = @@EMIT@@
INVARIANTS AcceptImpliesAllConsumed DepthNeverExceeds OutIsPrefixOfInput
PROPERTIES Terminates
CHECK_DEADLOCK FALSE
