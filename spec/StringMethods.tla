---------------------------- MODULE StringMethods ----------------------------
\* C15 (strings) -- string methods behave as documented (docs/strings.md).
\*
\* Positions and lengths are BYTE offsets of the UTF-8 text: the repository's own script tests pin
\* this ("你好世界"->length() == 12, ->substring(0, 6) == "你好"), so it is the documented dialect.
\* A string is a sequence of characters, each with its UTF-8 byte sequence (BytesOf); the receiver is the state and must never
\* change (strings are immutable: action property ReceiverUntouched).  Every call is printed as an
\* EDGE line: method, arguments, documented result.
\*   length / ->length       number of bytes
\*   indexOf(sub)            byte offset of the first occurrence of sub, -1 if absent, 0 for ""
\*   substring(start, end?)  byte offsets, both clamped to 0..length; the result is a byte string
\*                           when start > end after clamping the two are swapped (JavaScript String.substring)
\*   replace(search, repl)   every occurrence, left to right, non-overlapping (docs: "Hell0 W0rld")
\*   split(sep?)             default separator is a space; adjacent separators give empty strings
\*                           (the empty receiver is not split, and the default separator is only used
\*                           where no empty piece arises: neither is documented)
\*   trim()                  leading / trailing white space removed
\*   toUpperCase / toLowerCase, startsWith(s), endsWith(s)   (both true for the empty string)
EXTENDS Integers, Sequences, FiniteSets, SequencesExt, TLC, Json

CONSTANTS MaxLen0, Emit

Chars == {"a", "b", "B", " ", "é", "日"}
BytesOf(c) == CASE c = "a" -> <<97>> [] c = "b" -> <<98>> [] c = "B" -> <<66>> [] c = " " -> <<32>>
                [] c = "é" -> <<195, 169>> [] c = "日" -> <<230, 151, 165>> [] c = "A" -> <<65>>
                [] c = "É" -> <<195, 137>> [] c = "x" -> <<120>>
RECURSIVE B(_)
B(s) == IF s = <<>> THEN <<>> ELSE BytesOf(Head(s)) \o B(Tail(s))      \* the UTF-8 bytes of a string
Subs == {<<>>, <<"a">>, <<" ">>, <<"é">>, <<"a", "b">>, <<"b", "a">>, <<"日", "a">>}
Idx == {-1, 0, 1, 2, 3, 4, 7}
Omit == 99

VARIABLES recv, done, act
vars == <<recv, done, act>>

RECURSIVE SeqsUpTo(_)
SeqsUpTo(n) == IF n = 0 THEN {<<>>} ELSE LET S == SeqsUpTo(n - 1) IN S \cup {Append(s, v) : s \in {t \in S : Len(t) = n - 1}, v \in Chars}

Max2(a, b) == IF a > b THEN a ELSE b
Min2(a, b) == IF a < b THEN a ELSE b
Clamp(i, n) == Min2(Max2(i, 0), n)
Sub(s, a, b) == IF a >= b THEN <<>> ELSE SubSeq(s, a + 1, b)
At(s, sub, i) == i + Len(sub) <= Len(s) /\ Sub(s, i, i + Len(sub)) = sub        \* sub occurs at 0-based i
IndexOf(s, sub) == LET hits == {i \in 0..Len(s) : At(s, sub, i)} IN
                   IF hits = {} THEN -1 ELSE Len(B(Sub(s, 0, CHOOSE i \in hits : \A j \in hits : i <= j)))
Substring(s, st, en) == LET bs == B(s) n == Len(bs) a == Clamp(st, n) b == IF en = Omit THEN n ELSE Clamp(en, n)
                        IN Sub(bs, Min2(a, b), Max2(a, b))
RECURSIVE ReplAll(_, _, _)
ReplAll(s, search, repl) ==
  IF s = <<>> THEN <<>>
  ELSE IF At(s, search, 0) THEN repl \o ReplAll(Sub(s, Len(search), Len(s)), search, repl)
  ELSE <<Head(s)>> \o ReplAll(Tail(s), search, repl)
RECURSIVE Split(_, _, _)
Split(s, sep, cur) ==         \* cur: the piece being collected
  IF s = <<>> THEN <<cur>>
  ELSE IF At(s, sep, 0) THEN <<cur>> \o Split(Sub(s, Len(sep), Len(s)), sep, <<>>)
  ELSE Split(Tail(s), sep, Append(cur, Head(s)))
IsSpace(c) == c = " "
RECURSIVE TrimL(_)
TrimL(s) == IF s # <<>> /\ IsSpace(Head(s)) THEN TrimL(Tail(s)) ELSE s
RECURSIVE TrimR(_)
TrimR(s) == IF s # <<>> /\ IsSpace(s[Len(s)]) THEN TrimR(Front(s)) ELSE s
Up(c) == CASE c = "a" -> "A" [] c = "b" -> "B" [] c = "é" -> "É" [] OTHER -> c
Lo(c) == CASE c = "B" -> "b" [] OTHER -> c

Call(m, args, res) == /\ ~done /\ done' = TRUE /\ recv' = recv /\ act' = [m |-> m, args |-> args, res |-> res]

Step ==
  \/ Call("length", <<>>, Len(B(recv)))
  \/ Call("lengthProp", <<>>, Len(B(recv)))
  \/ \E sub \in Subs : Call("indexOf", <<sub>>, IndexOf(recv, sub))
  \/ \E st \in Idx, en \in Idx \cup {Omit} : Call("substring", <<st, en>>, Substring(recv, st, en))
  \/ \E se \in Subs \ {<<>>}, re \in {<<>>, <<"x">>, <<"a", "a">>} : Call("replace", <<se, re>>, ReplAll(recv, se, re))
  \/ \E sep \in {<<" ">>, <<"a">>, <<"a", "b">>} : recv # <<>> /\ Call("split", <<sep>>, Split(recv, sep, <<>>))
  \/ /\ recv # <<>> /\ \A i \in 1..Len(Split(recv, <<" ">>, <<>>)) : Split(recv, <<" ">>, <<>>)[i] # <<>>
     /\ Call("split", <<Omit>>, Split(recv, <<" ">>, <<>>))
  \/ Call("trim", <<>>, TrimR(TrimL(recv)))
  \/ Call("toUpperCase", <<>>, [i \in 1..Len(recv) |-> Up(recv[i])])
  \/ Call("toLowerCase", <<>>, [i \in 1..Len(recv) |-> Lo(recv[i])])
  \/ \E sub \in Subs : Call("startsWith", <<sub>>, At(recv, sub, 0))
  \/ \E sub \in Subs : Call("endsWith", <<sub>>, Len(sub) <= Len(recv) /\ At(recv, sub, Len(recv) - Len(sub)))

Init == recv \in SeqsUpTo(MaxLen0) /\ done = FALSE /\ act = [m |-> "init", args |-> <<>>, res |-> 0]
Next == Step
Spec == Init /\ [][Next]_vars
EmitEdge == Emit => PrintT(<<"EDGE", ToJson([from |-> recv, act |-> act'])>>)

\* ---- properties of the oracle
ReceiverUntouched == [][recv' = recv]_vars
PrefixLaw == \A sub \in Subs : At(recv, sub, 0) => IndexOf(recv, sub) = 0
SubstringWhole == Substring(recv, 0, Omit) = B(recv)
SubstringSymmetric == \A a, b \in Idx : Substring(recv, a, b) = Substring(recv, b, a)
SplitJoinLaw == \A sep \in {<<" ">>, <<"a">>} :
                  LET parts == Split(recv, sep, <<>>) IN
                  FoldLeft(LAMBDA acc, p : IF acc = <<"#">> THEN p ELSE acc \o sep \o p, <<"#">>, parts) = recv
TrimIdempotent == TrimR(TrimL(TrimR(TrimL(recv)))) = TrimR(TrimL(recv))
=============================================================================
