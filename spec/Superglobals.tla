---------------------------- MODULE Superglobals ----------------------------
\* C11 -- concurrent HTTP requests do not interfere: superglobal reads belong to the request.
\*
\* Mechanism (node/globals_*_variable.go, std/net/http/handler.go): $_GET, $_POST, $_COOKIE,
\* $_SERVER and $_REQUEST are filled lazily on first read and cached.  The reference design caches
\* per request; the pinned code caches in package-level variables that every request resets when
\* it begins (ResetSuperglobals) -- the named deviation "process-wide-cache".
\*
\* A request is: Begin, a fixed program of reads (chosen in Init), End.  $_REQUEST is assembled
\* from the (possibly cached) $_GET, $_POST and $_COOKIE values, then cached itself.
\* Every transition is printed as an EDGE line; a Read edge carries the owner(s) of the data the
\* read returns in the reference design (own) and under the deviation (dev).
EXTENDS Integers, Sequences, FiniteSets, TLC, Json

CONSTANTS Reqs, NReads, Deviation, Emit

Kinds == {"get", "post", "cookie", "server", "request"}
Nil == "nil"
Base == {"get", "post", "cookie", "server"}

VARIABLES prog,     \* prog[r]: sequence of kinds request r reads
          pc,       \* "idle" | "run" | "done"
          ip,       \* number of reads done
          cache,    \* deviation: cache[k] = owner whose data is cached (request kind: <<g,p,c>> owners)
          seen,     \* owners observed by each request (mechanism)
          act
vars == <<prog, pc, ip, cache, seen, act>>

Progs == [1..NReads -> Kinds]
EmptyCache == [k \in Kinds |-> IF k = "request" THEN <<Nil, Nil, Nil>> ELSE Nil]

Init == /\ prog \in [Reqs -> Progs]
        /\ pc = [r \in Reqs |-> "idle"] /\ ip = [r \in Reqs |-> 0]
        /\ cache = [r \in Reqs \cup {"proc"} |-> EmptyCache]   \* per-request caches and the process-wide one
        /\ seen = [r \in Reqs |-> <<>>]
        /\ act = [op |-> "init", r |-> "", kind |-> "", own |-> <<>>, dev |-> <<>>]
        /\ (Emit => PrintT(<<"INIT", ToJson([prog |-> prog, pc |-> pc, ip |-> ip, cache |-> cache["proc"]])>>))

\* which cache a request uses
C(r) == IF Deviation THEN "proc" ELSE r

Begin(r) == /\ pc[r] = "idle"
            /\ pc' = [pc EXCEPT ![r] = "run"]
            /\ cache' = [cache EXCEPT ![C(r)] = EmptyCache]     \* ResetSuperglobals at the start of every request
            /\ act' = [op |-> "begin", r |-> r, kind |-> "", own |-> <<>>, dev |-> <<>>]
            /\ UNCHANGED <<prog, ip, seen>>

Fill(c, k, r) == IF c[k] = Nil THEN [c EXCEPT ![k] = r] ELSE c

Read(r) ==
  /\ pc[r] = "run" /\ ip[r] < NReads
  /\ LET k == prog[r][ip[r] + 1]
         c0 == cache[C(r)]
         c1 == IF k \in Base THEN Fill(c0, k, r)
               ELSE IF c0["request"] # <<Nil, Nil, Nil>> THEN c0
               ELSE LET c2 == Fill(Fill(Fill(c0, "get", r), "post", r), "cookie", r)
                    \* $_POST is filled from Request.Form, which also carries the query parameters and is
                    \* merged over $_GET: the query key of $_REQUEST comes from the cached $_POST owner
                    IN [c2 EXCEPT !["request"] = <<c2["post"], c2["post"], c2["cookie"]>>]
         owners == IF k \in Base THEN <<c1[k]>> ELSE c1["request"]
         mine == IF k \in Base THEN <<r>> ELSE <<r, r, r>>
     IN /\ cache' = [cache EXCEPT ![C(r)] = c1]
        /\ seen' = [seen EXCEPT ![r] = Append(@, owners)]
        /\ act' = [op |-> "read", r |-> r, kind |-> k, own |-> mine, dev |-> owners]
  /\ ip' = [ip EXCEPT ![r] = @ + 1]
  /\ UNCHANGED <<prog, pc>>

End(r) == /\ pc[r] = "run" /\ ip[r] = NReads
          /\ pc' = [pc EXCEPT ![r] = "done"]
          /\ act' = [op |-> "end", r |-> r, kind |-> "", own |-> <<>>, dev |-> <<>>]
          /\ UNCHANGED <<prog, ip, cache, seen>>

Next == \E r \in Reqs : Begin(r) \/ Read(r) \/ End(r)
Spec == Init /\ [][Next]_vars

St  == [prog |-> prog, pc |-> pc, ip |-> ip, cache |-> cache["proc"]]
St1 == [prog |-> prog', pc |-> pc', ip |-> ip', cache |-> cache'["proc"]]
EmitEdge == Emit => PrintT(<<"EDGE", ToJson([from |-> St, act |-> act', to |-> St1])>>)
View == <<prog, pc, ip, cache>>

TypeOK == \A r \in Reqs : ip[r] \in 0..NReads

\* ---- the property on the mechanism: every read returns the reading request's own data
OwnDataOnly == \A r \in Reqs : \A i \in 1..Len(seen[r]) : \A j \in 1..Len(seen[r][i]) : seen[r][i][j] = r
=============================================================================
