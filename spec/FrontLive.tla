---------------------------- MODULE FrontLive ----------------------------
\* C01 (progress obligation) -- why the statement loop terminates: every iteration either advances the
\* position, or is one of at most two non-advancing iterations before the parse fails.  With the guard the
\* loop reaches Parsed or Rejected for every token count; without it (Guard = FALSE) TLC finds the lasso.
EXTENDS Integers, TLC
CONSTANTS NTok, Guard
VARIABLES phase, pos, stuck, tick     \* tick: iteration parity, so that a stalling iteration is a real step
vars == <<phase, pos, stuck, tick>>
Init == phase = "parsing" /\ pos = 0 /\ stuck = 0 /\ tick = 0
Advance == phase = "parsing" /\ pos < NTok /\ \E q \in (pos + 1)..NTok : pos' = q /\ stuck' = 0 /\ tick' = 1 - tick /\ UNCHANGED phase
Stall == phase = "parsing" /\ pos < NTok /\ (Guard => stuck < 2) /\ stuck' = (IF stuck < 2 THEN stuck + 1 ELSE stuck) /\ tick' = 1 - tick /\ UNCHANGED <<phase, pos>>
Fail == phase = "parsing" /\ pos < NTok /\ phase' = "rejected" /\ UNCHANGED <<pos, stuck, tick>>
AcceptAll == phase = "parsing" /\ pos = NTok /\ phase' = "parsed" /\ UNCHANGED <<pos, stuck, tick>>
Next == Advance \/ Stall \/ Fail \/ AcceptAll
\* fairness: the loop keeps iterating (weak fairness of Next); which outcome an iteration has is up to the adversary
Spec == Init /\ [][Next]_vars /\ WF_vars(Next)
Terminates == <>(phase \in {"parsed", "rejected"})
PosBounded == pos <= NTok
=============================================================================
