---------------------------- MODULE OrderedOps ----------------------------
\* C20 (enumeration order, derived operations) -- what the array functions that read or rebuild a keyed
\* array must return, as functions of the insertion-ordered sequence of OrderedMap.tla.
\*
\* A keyed array is a sequence of (key, value) entries without duplicate keys.  Every function below is
\* defined on that SEQUENCE, so its result has one order, the same in every run: an implementation that
\* walks a hash table instead gives another order (and a different one from run to run).
\*   values, keys          the values / keys in entry order
\*   reverse               entries in reverse order (string keys are kept)
\*   filter, map           the sub-sequence with v > 1 / every value times 10, keys kept, order kept
\*   unique                first entry of every distinct value
\*   slice(1, 2)           entries 2..3
\*   diff_key, intersect_key   entries of s whose key is not / is in t, in the order of s
\*   merge, replace        entries of s with values overwritten from t in place, then the new keys of t in t's order
\*   key_first, key_last, search(2)   first key, last key, key of the first entry whose value is 2
\*   ksort, asort          by key / by value (stable: equal values keep their order)
\* Every (s, t) is an initial state; Answer prints the expected rendering of every view as one CASE.
EXTENDS Integers, Sequences, FiniteSets, TLC, Json

CONSTANTS Emit

Keys == {"z", "a", "m", "b", "y"}
Val(k) == CASE k = "z" -> 1 [] k = "a" -> 2 [] k = "m" -> 1 [] k = "b" -> 3 [] k = "y" -> 2 [] k = "q" -> 8
Rank(k) == CASE k = "a" -> 1 [] k = "b" -> 2 [] k = "m" -> 3 [] k = "q" -> 4 [] k = "y" -> 5 [] k = "z" -> 6
E(k, v) == [k |-> k, v |-> v]
\* the second operand: overwrites m and a, brings the new key q between them
T == <<E("m", 9), E("q", 8), E("a", 7)>>

Injective(f) == \A i, j \in DOMAIN f : i # j => f[i] # f[j]
Arrays == {[i \in DOMAIN ks |-> E(ks[i], Val(ks[i]))] : ks \in {f \in [1..4 -> Keys] : Injective(f)} \cup {f \in [1..5 -> Keys] : Injective(f)}}

KeysOf(s) == {s[i].k : i \in 1..Len(s)}
Filter(s, P(_)) == LET F[i \in 0..Len(s)] == IF i = 0 THEN <<>> ELSE IF P(s[i]) THEN Append(F[i - 1], s[i]) ELSE F[i - 1] IN F[Len(s)]
Rev(s) == [i \in 1..Len(s) |-> s[Len(s) + 1 - i]]
ValueAt(t, k) == t[CHOOSE i \in 1..Len(t) : t[i].k = k].v
Merge(s, t) == [i \in 1..Len(s) |-> IF s[i].k \in KeysOf(t) THEN E(s[i].k, ValueAt(t, s[i].k)) ELSE s[i]]
               \o Filter(t, LAMBDA e : e.k \notin KeysOf(s))
Unique(s) == LET U[i \in 0..Len(s)] == IF i = 0 THEN <<>>
                                       ELSE IF \E j \in 1..Len(U[i - 1]) : U[i - 1][j].v = s[i].v THEN U[i - 1] ELSE Append(U[i - 1], s[i])
             IN U[Len(s)]
\* stable insertion sort by a rank
InsertBy(sorted, e, R(_)) == LET p == Cardinality({i \in 1..Len(sorted) : R(sorted[i]) <= R(e)})    \* after every entry that is not larger
                             IN SubSeq(sorted, 1, p) \o <<e>> \o SubSeq(sorted, p + 1, Len(sorted))
SortBy(s, R(_)) == LET S[i \in 0..Len(s)] == IF i = 0 THEN <<>> ELSE InsertBy(S[i - 1], s[i], R) IN S[Len(s)]
FirstWith(s, v) == LET hits == {i \in 1..Len(s) : s[i].v = v} IN IF hits = {} THEN "" ELSE s[CHOOSE i \in hits : \A j \in hits : i <= j].k

Views(s) ==
  [values |-> [i \in 1..Len(s) |-> s[i].v], keys |-> [i \in 1..Len(s) |-> s[i].k],
   reverse |-> Rev(s),
   filter |-> Filter(s, LAMBDA e : e.v > 1),
   map |-> [i \in 1..Len(s) |-> E(s[i].k, s[i].v * 10)],
   unique |-> Unique(s),
   slice |-> SubSeq(s, 2, 3),
   diff_key |-> Filter(s, LAMBDA e : e.k \notin KeysOf(T)),
   intersect_key |-> Filter(s, LAMBDA e : e.k \in KeysOf(T)),
   merge |-> Merge(s, T), replace |-> Merge(s, T),
   key_first |-> s[1].k, key_last |-> s[Len(s)].k, search |-> FirstWith(s, 2),
   ksort |-> SortBy(s, LAMBDA e : Rank(e.k)), asort |-> SortBy(s, LAMBDA e : e.v)]

VARIABLES st, done
vars == <<st, done>>
Init == st \in Arrays /\ done = FALSE
Answer == /\ ~done /\ done' = TRUE /\ UNCHANGED st
          /\ (Emit => PrintT(<<"CASE", ToJson([s |-> st, views |-> Views(st)])>>))
Spec == Init /\ [][Answer]_vars

\* ---------------------------------------------------------------- laws of the reference
SubsequenceLaw == LET f == Views(st).filter IN
                    \A i, j \in 1..Len(f) : i < j => (CHOOSE a \in 1..Len(st) : st[a].k = f[i].k) < (CHOOSE b \in 1..Len(st) : st[b].k = f[j].k)
MergeKeepsPositions == LET m == Views(st).merge IN \A i \in 1..Len(st) : m[i].k = st[i].k
SortsArePermutations == KeysOf(Views(st).ksort) = KeysOf(st) /\ KeysOf(Views(st).asort) = KeysOf(st)
                        /\ Len(Views(st).ksort) = Len(st) /\ Len(Views(st).asort) = Len(st)
AsortStable == LET a == Views(st).asort IN
                 \A i, j \in 1..Len(a) : (i < j /\ a[i].v = a[j].v) =>
                    (CHOOSE x \in 1..Len(st) : st[x].k = a[i].k) < (CHOOSE y \in 1..Len(st) : st[y].k = a[j].k)
ReverseInvolution == Rev(Rev(st)) = st
=============================================================================
