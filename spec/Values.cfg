SPECIFICATION Spec
CONSTANTS
  Emit = TRUE
  BigPool = @@BIG@@
INVARIANTS EqSym NeCompl StrictCompl SpaceshipAgrees DivAlwaysFloat
CHECK_DEADLOCK FALSE
