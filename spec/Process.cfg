SPECIFICATION Spec
CONSTANTS
  Dev = @@DEV@@
  Emit = @@EMIT@@
INVARIANTS @@INV@@
CHECK_DEADLOCK FALSE
