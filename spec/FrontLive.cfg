SPECIFICATION Spec
CONSTANTS
  NTok = 6
  Guard = @@GUARD@@
INVARIANTS PosBounded
PROPERTIES Terminates
CHECK_DEADLOCK FALSE
