---------------------------- MODULE Diag ----------------------------
\* C18 (error locations), direction A -- a program with one planted fault at a known line.
\*
\* A program is:  Lead plain statement lines (the first is "$v0 = 1;"), then a block of "hard" content (Pre: something after which line
\* counting is easy to get wrong), then Mid plain lines, then the faulty line, then (unless the fault is the
\* last statement) Tail plain lines.  The spec owns the number of lines of every Pre block; the replay
\* engine renders the block with exactly that many lines.  Expected: the line printed for the fault is the
\* line of the faulty construct.
EXTENDS Integers, Sequences, FiniteSets, TLC, Json

CONSTANTS Emit

Pres == {"none", "heredoc", "heredoc-backslash-newline", "nowdoc", "multiline-string", "string-backslash-newline",
         "block-comment", "multibyte", "interpolation", "crlf", "inline-html", "qualified-names"}
PreLines(p) == CASE p = "none" -> 0 [] p = "heredoc" -> 5 [] p = "heredoc-backslash-newline" -> 6 [] p = "nowdoc" -> 4
                 [] p = "multiline-string" -> 3 [] p = "string-backslash-newline" -> 3 [] p = "block-comment" -> 4
                 [] p = "multibyte" -> 2 [] p = "interpolation" -> 2 [] p = "crlf" -> 3 [] p = "inline-html" -> 4
                 [] p = "qualified-names" -> 3
Faults == {"parse-error", "undefined-function", "uncaught-throw", "caught-getLine", "undefined-method",
           "undefined-method-trailing-arrow", "undefined-method-leading-arrow", "undefined-function-in-multiline-call"}
\* a construct may be written over several lines; the fault sits on the line of the member / callee name:
\*   $o->          $o                 outer_ok(1,
\*     nope()        ->nope()             undefined_fn(2))
FaultOffset(f) == IF f \in {"undefined-method-trailing-arrow", "undefined-method-leading-arrow", "undefined-function-in-multiline-call"} THEN 1 ELSE 0
Places == {"middle", "last", "last-no-semicolon"}
Modes == {"script", "template", "template-shebang"}     \* template-shebang: "#!..." line, then "<?php"

Scenarios == {[pre |-> p, fault |-> f, place |-> pl, lead |-> ld, mid |-> md, mode |-> m] :
                p \in Pres, f \in Faults, pl \in Places, ld \in {1, 3}, md \in {0, 3}, m \in Modes}
Valid(x) == /\ (x.pre = "inline-html" => x.mode # "script")
            /\ (x.mode = "template-shebang" => x.lead = 1 /\ x.mid = 0 /\ x.place = "middle")
            /\ (x.place = "last-no-semicolon" => x.fault \in {"undefined-function", "undefined-method", "uncaught-throw",
                                                              "undefined-method-trailing-arrow", "undefined-method-leading-arrow"})
\* template mode: line 1 is "<?php" (after the shebang line, if any)
FaultLine(x) == (CASE x.mode = "template" -> 1 [] x.mode = "template-shebang" -> 2 [] OTHER -> 0) + x.lead + PreLines(x.pre) + x.mid + 1 + FaultOffset(x.fault)

VARIABLES sc, done
vars == <<sc, done>>
Init == sc \in {x \in Scenarios : Valid(x)} /\ done = FALSE
Answer == /\ ~done /\ done' = TRUE /\ UNCHANGED sc
          /\ (Emit => PrintT(<<"CASE", ToJson([sc |-> sc, prelines |-> PreLines(sc.pre), line |-> FaultLine(sc)])>>))
Spec == Init /\ [][Answer]_vars
LinePositive == FaultLine(sc) >= 1
=============================================================================
