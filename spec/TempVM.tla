---------------------------- MODULE TempVM ----------------------------
\* C12 -- request-scoped VMs are isolated: temporary definitions never leak.
\*
\* Mechanism (runtime/vm_temp.go): a TempVM stores its own class / interface / function maps
\* and consults the base VM's maps as well; the parser used for a request is bound to the
\* TempVM so that parse-time registration lands in it.  A base VM rejects a second definition
\* of a class or interface name (one name space for both) and of a function name.
\*
\* State:  base[k], temp[t][k]  (k in Kinds) sets of names;  alive[t].
\* Ref:    Resolve(v, k) = base[k] \cup (IF v is a live temp THEN temp[v][k] ELSE {}).
\* Every transition is printed as an EDGE line (history-free graph, exhaustive tier) or the
\* whole walk as one WALK line (history variable, -simulate tier) for the replay engine.
EXTENDS Integers, Sequences, FiniteSets, TLC, Json

CONSTANTS Names, Temps, MaxDefs, Emit, Hist, WalkLen,
          ProbeKinds,  \* kinds whose names are looked up (used) by Probe steps
          Vias,        \* how a definition reaches the VM: "inline" (in the request's own source), "include" (a file
                       \* loaded with include), "eval" (a string given to eval())
          SharedProbes, \* TRUE: ProbeShared steps are generated
          EvalOnTemp   \* "refused" | "supported": whether eval() runs at all on a temporary VM (either is fine for
                       \* isolation; the harness probes the code once and tells the model)

Kinds == {"class", "iface", "func"}
Empty == [k \in Kinds |-> {}]

VARIABLES base, temp, alive, act, hist,
          cached   \* deviation layer "ast-level-resolution-cache": <<kind, name>> pairs some shared piece of code has
                   \* resolved once (node.CallLater / NewExpression keep what they resolved in the syntax tree)
vars == <<base, temp, alive, act, hist, cached>>

CachedNames(c) == {x[1] \o ":" \o x[2] : x \in c}
St == [base |-> base, temp |-> temp, alive |-> alive, cached |-> CachedNames(cached)]
St1 == [base |-> base', temp |-> temp', alive |-> alive', cached |-> CachedNames(cached')]

NDefs == Cardinality({<<k, n>> \in Kinds \X Names : n \in base[k]})
         + Cardinality({<<t, k, n>> \in Temps \X Kinds \X Names : n \in temp[t][k]})

\* what a VM resolves; "base" is the base VM
VMs == {"base"} \cup Temps
Resolve(b, tm, al, v, k) == IF v = "base" THEN b[k]
                            ELSE IF al[v] THEN b[k] \cup tm[v][k] ELSE {}
Table(b, tm, al) == [v \in VMs |-> [k \in Kinds |-> Resolve(b, tm, al, v, k)]]

Init == /\ base = Empty /\ temp = [t \in Temps |-> Empty] /\ alive = [t \in Temps |-> FALSE]
        /\ act = [op |-> "init", vm |-> "", kind |-> "", name |-> "", via |-> "", ok |-> TRUE]
        /\ hist = <<>> /\ cached = {}
        /\ (Emit => PrintT(<<"INIT", ToJson([base |-> base, temp |-> temp, alive |-> alive, cached |-> {}])>>))

Record == hist' = IF Hist THEN Append(hist, [act |-> act', table |-> Table(base', temp', alive')]) ELSE hist

\* a base VM has one name space for classes and interfaces; duplicates are rejected (state unchanged)
BaseTaken(k, n) == IF k = "func" THEN n \in base["func"] ELSE n \in base["class"] \cup base["iface"]

DefineBase(k, n, via) ==
  /\ NDefs < MaxDefs
  /\ IF BaseTaken(k, n)
       THEN /\ UNCHANGED <<base>>
            /\ act' = [op |-> "define", vm |-> "base", kind |-> k, name |-> n, via |-> via, ok |-> FALSE]
       ELSE /\ base' = [base EXCEPT ![k] = @ \cup {n}]
            /\ act' = [op |-> "define", vm |-> "base", kind |-> k, name |-> n, via |-> via, ok |-> TRUE]
  /\ UNCHANGED <<temp, alive, cached>> /\ Record

\* whichever way the definition arrives, it lands in the temporary VM only
DefineTemp(t, k, n, via) ==
  /\ alive[t] /\ NDefs < MaxDefs
  /\ IF via = "eval" /\ EvalOnTemp = "refused"
       THEN /\ UNCHANGED temp
            /\ act' = [op |-> "define", vm |-> t, kind |-> k, name |-> n, via |-> via, ok |-> FALSE]
       ELSE /\ temp' = [temp EXCEPT ![t][k] = @ \cup {n}]
            /\ act' = [op |-> "define", vm |-> t, kind |-> k, name |-> n, via |-> via, ok |-> TRUE]
  /\ UNCHANGED <<base, alive, cached>> /\ Record

NewTemp(t) ==
  /\ ~alive[t]
  /\ alive' = [alive EXCEPT ![t] = TRUE] /\ temp' = [temp EXCEPT ![t] = Empty]
  /\ act' = [op |-> "new", vm |-> t, kind |-> "", name |-> "", via |-> "", ok |-> TRUE]
  /\ UNCHANGED <<base, cached>> /\ Record

Discard(t) ==
  /\ alive[t]
  /\ alive' = [alive EXCEPT ![t] = FALSE] /\ temp' = [temp EXCEPT ![t] = Empty]
  /\ act' = [op |-> "discard", vm |-> t, kind |-> "", name |-> "", via |-> "", ok |-> TRUE]
  /\ UNCHANGED <<base, cached>> /\ Record

\* code running on VM v uses name n (new n() / n() / interface lookup with autoload): it succeeds exactly
\* when v resolves n, and -- found or not -- it changes what no VM resolves.  A failed lookup goes
\* through the autoload probe (runtime GetOrLoadClass), which is where a VM could be re-bound.
Probe(v, k, n) ==
  /\ (IF v = "base" THEN TRUE ELSE alive[v])
  /\ act' = [op |-> "probe", vm |-> v, kind |-> k, name |-> n, via |-> "", ok |-> (n \in Resolve(base, temp, alive, v, k))]
  /\ UNCHANGED <<base, temp, alive, cached>> /\ Record

\* the same use of a name, written in code that was parsed ONCE on the base VM (a handler registered at start-up)
\* and is executed by every request: what it resolves depends on the VM that runs it, not on who ran it before
ProbeShared(v, k, n) ==
  /\ SharedProbes /\ k \in {"class", "func"}
  /\ (IF v = "base" THEN TRUE ELSE alive[v])
  /\ LET ref == n \in Resolve(base, temp, alive, v, k) IN
     /\ act' = [op |-> "probe-shared", vm |-> v, kind |-> k, name |-> n, via |-> "", ok |-> ref,
                dev |-> (ref \/ <<k, n>> \in cached)]           \* what the cache deviation predicts
     /\ cached' = IF ref \/ <<k, n>> \in cached THEN cached \cup {<<k, n>>} ELSE cached
  /\ UNCHANGED <<base, temp, alive>> /\ Record

Step == \/ \E k \in Kinds, n \in Names, via \in Vias : DefineBase(k, n, via)
        \/ \E v \in VMs, k \in Kinds, n \in Names : ProbeShared(v, k, n)
        \/ \E v \in VMs, k \in ProbeKinds, n \in Names : Probe(v, k, n)
        \/ \E t \in Temps, k \in Kinds, n \in Names, via \in Vias : DefineTemp(t, k, n, via)
        \/ \E t \in Temps : NewTemp(t) \/ Discard(t)

Finish == /\ Hist /\ Len(hist) = WalkLen /\ act.op # "finish"
          /\ PrintT(<<"WALK", ToJson(hist)>>)
          /\ act' = [act EXCEPT !.op = "finish"]
          /\ UNCHANGED <<base, temp, alive, hist, cached>>

Next == IF Hist /\ Len(hist) >= WalkLen THEN Finish ELSE Step
Spec == Init /\ [][Next]_vars

EmitEdge == (Emit /\ ~Hist) => PrintT(<<"EDGE", ToJson([from |-> St, act |-> act', to |-> St1])>>)
View == <<base, temp, alive, hist, cached>>

\* ---------------------------------------------------------------- properties
TypeOK == /\ \A k \in Kinds : base[k] \subseteq Names
          /\ \A t \in Temps : ~alive[t] => temp[t] = Empty

\* a definition through temp VM t changes what no other VM resolves
Isolation == [][\A t \in Temps : (act'.op = "define" /\ act'.vm = t) =>
                 \A v \in VMs \ {t}, k \in Kinds :
                    Resolve(base', temp', alive', v, k) = Resolve(base, temp, alive, v, k)]_vars
\* discarding or creating a VM changes what no other VM resolves
LifecycleIsLocal == [][\A t \in Temps : (act'.op \in {"new", "discard"} /\ act'.vm = t) =>
                 \A v \in VMs \ {t}, k \in Kinds :
                    Resolve(base', temp', alive', v, k) = Resolve(base, temp, alive, v, k)]_vars
\* using a name changes what no VM resolves
ProbeIsPure == [][act'.op \in {"probe", "probe-shared"} => Table(base', temp', alive') = Table(base, temp, alive)]_vars
\* everything defined on the base VM is resolvable through every live temp VM
BaseVisibleEverywhere == \A t \in Temps, k \in Kinds : alive[t] => base[k] \subseteq Resolve(base, temp, alive, t, k)
\* a fresh temp VM resolves exactly the base names
FreshIsBase == [][\A t \in Temps : (act'.op = "new" /\ act'.vm = t) =>
                 \A k \in Kinds : Resolve(base', temp', alive', t, k) = base'[k]]_vars
=============================================================================
