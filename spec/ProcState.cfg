SPECIFICATION Spec
CONSTANTS
  ProcScoped = @@PROC@@
  Emit = @@EMIT@@
INVARIANTS @@INV@@ VMsAreSeparate
CHECK_DEADLOCK FALSE
