---------------------------- MODULE RegistryLocks ----------------------------
\* C10 -- VM registries under concurrent definition and lookup: the locking mechanism.
\*
\* runtime/vm.go keeps classMap / interfaceMap / funcMap / constantMap / globalVars as Go maps
\* guarded by one sync.RWMutex.  A Go map tolerates concurrent readers but no writer next to
\* any other access ("fatal error: concurrent map writes" / a data race).  Each registry call is:
\*     acquire the lock in the call's mode (W exclusive, R shared, N none)  ->  touch the map
\*     (read, or read-then-write for Add*)  ->  release.
\* LockMode is a constant so that the pinned modes (Add* under R, Get* under N) and the repaired
\* ones (Add* under W, Get* under R) are two configurations of the same specification.
EXTENDS Integers, FiniteSets, TLC

CONSTANTS Procs, Modes     \* Modes \in {"pinned", "repaired"}
OpKinds == {"add", "get", "setconst", "getconst"}
\* LockMode[k] \in {"W","R","N"}; Writes[k]: TRUE when the call writes the map
LockMode == IF Modes = "pinned"
              THEN [add |-> "R", get |-> "N", setconst |-> "W", getconst |-> "R"]   \* runtime/vm.go as pinned
              ELSE [add |-> "W", get |-> "R", setconst |-> "W", getconst |-> "R"]   \* after the fix
Writes == [add |-> TRUE, get |-> FALSE, setconst |-> TRUE, getconst |-> FALSE]

VARIABLES pc, op, readers, writer, inMapR, inMapW, done
vars == <<pc, op, readers, writer, inMapR, inMapW, done>>
None == "none"

Init == /\ pc = [p \in Procs |-> "idle"] /\ op = [p \in Procs |-> None]
        /\ readers = {} /\ writer = None /\ inMapR = {} /\ inMapW = {} /\ done = [p \in Procs |-> 0]

Begin(p, k) == /\ pc[p] = "idle" /\ done[p] < 2
               /\ op' = [op EXCEPT ![p] = k] /\ pc' = [pc EXCEPT ![p] = "acquire"]
               /\ UNCHANGED <<readers, writer, inMapR, inMapW, done>>
Acquire(p) == /\ pc[p] = "acquire"
              /\ CASE LockMode[op[p]] = "W" -> /\ writer = None /\ readers = {}
                                               /\ writer' = p /\ UNCHANGED readers
                   [] LockMode[op[p]] = "R" -> /\ writer = None
                                               /\ readers' = readers \cup {p} /\ UNCHANGED writer
                   [] OTHER -> UNCHANGED <<readers, writer>>
              /\ pc' = [pc EXCEPT ![p] = "read"] /\ UNCHANGED <<op, inMapR, inMapW, done>>
\* every call first reads the map (existence check / lookup)
ReadIn(p)  == /\ pc[p] = "read" /\ inMapR' = inMapR \cup {p} /\ pc' = [pc EXCEPT ![p] = "reading"]
              /\ UNCHANGED <<op, readers, writer, inMapW, done>>
ReadOut(p) == /\ pc[p] = "reading" /\ inMapR' = inMapR \ {p}
              /\ pc' = [pc EXCEPT ![p] = IF Writes[op[p]] THEN "write" ELSE "release"]
              /\ UNCHANGED <<op, readers, writer, inMapW, done>>
WriteIn(p)  == /\ pc[p] = "write" /\ inMapW' = inMapW \cup {p} /\ pc' = [pc EXCEPT ![p] = "writing"]
               /\ UNCHANGED <<op, readers, writer, inMapR, done>>
WriteOut(p) == /\ pc[p] = "writing" /\ inMapW' = inMapW \ {p} /\ pc' = [pc EXCEPT ![p] = "release"]
               /\ UNCHANGED <<op, readers, writer, inMapR, done>>
Release(p) == /\ pc[p] = "release"
              /\ readers' = readers \ {p} /\ writer' = (IF writer = p THEN None ELSE writer)
              /\ pc' = [pc EXCEPT ![p] = "idle"] /\ op' = [op EXCEPT ![p] = None]
              /\ done' = [done EXCEPT ![p] = @ + 1] /\ UNCHANGED <<inMapR, inMapW>>

Next == \E p \in Procs : (\E k \in OpKinds : Begin(p, k)) \/ Acquire(p) \/ ReadIn(p) \/ ReadOut(p)
                         \/ WriteIn(p) \/ WriteOut(p) \/ Release(p)
Spec == Init /\ [][Next]_vars

NoConcurrentMapWrite == Cardinality(inMapW) <= 1
NoAccessDuringWrite  == inMapW # {} => inMapR = {}
LockDiscipline == /\ writer # None => readers = {}
=============================================================================
