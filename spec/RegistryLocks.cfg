SPECIFICATION Spec
CONSTANTS
  Procs = {"g1", "g2", "g3"}
  Modes = "@@MODES@@"
INVARIANTS NoConcurrentMapWrite NoAccessDuringWrite LockDiscipline
CHECK_DEADLOCK FALSE
