---------------------------- MODULE ChannelObjs ----------------------------
\* C09, script-facing layer -- Channel OBJECTS are independent of each other.
\*
\* Channel.tla / ChannelLin.tla decide the property for one channel under every schedule, through
\* the Go API.  A script reaches a channel through `new Channel(cap)` and the methods send / receive /
\* close / len / cap / isClosed (std/channel/channel_class.go, channel_methods.go); this module is the
\* sequential specification of SEVERAL channel objects created and used by one coroutine: every
\* value sent into a channel comes out of that channel, exactly once and in order, and creating,
\* using or closing one channel changes nothing about another (Independence).
\* Only steps that cannot block are generated (send when there is room or the channel is closed,
\* receive when a value is buffered or the channel is closed), so that one coroutine can run them.
\* Every transition is printed as an EDGE line with the result of the call and what len() /
\* isClosed() of every created channel must show afterwards.
EXTENDS Integers, Sequences, FiniteSets, TLC, Json

CONSTANTS Chans,     \* names of the channel objects
          Caps,      \* capacity choices for new Channel(cap)
          MaxOps, Emit

VARIABLES made,      \* made[c]: capacity of channel c, or -1 while it does not exist
          q, closed, \* q[c]: buffered values, oldest first; closed[c]
          n, act
vars == <<made, q, closed, n, act>>

Exists(c) == made[c] # -1
Obs(m, qq, cl) == [c \in Chans |-> IF m[c] = -1 THEN [exists |-> FALSE, len |-> 0, cap |-> 0, closed |-> FALSE]
                                   ELSE [exists |-> TRUE, len |-> Len(qq[c]), cap |-> m[c], closed |-> cl[c]]]

Init == /\ made = [c \in Chans |-> -1] /\ q = [c \in Chans |-> <<>>] /\ closed = [c \in Chans |-> FALSE] /\ n = 0
        /\ act = [op |-> "init", ch |-> "", arg |-> "", res |-> "", obs |-> Obs(made, q, closed)]
        /\ (Emit => PrintT(<<"INIT", ToJson([made |-> made, q |-> q, closed |-> closed])>>))

Step(op, c, arg, res, m1, q1, cl1) ==
  /\ n < MaxOps /\ n' = n + 1
  /\ made' = m1 /\ q' = q1 /\ closed' = cl1
  /\ act' = [op |-> op, ch |-> c, arg |-> arg, res |-> res, obs |-> Obs(m1, q1, cl1)]

New(c, cap) == /\ ~Exists(c)
               /\ Step("new", c, ToString(cap), "", [made EXCEPT ![c] = cap], q, closed)
Val == "v" \o ToString(n)                      \* a fresh value per step
Send(c) == /\ Exists(c)
           /\ IF closed[c] THEN Step("send", c, Val, "false", made, q, closed)
              ELSE /\ Len(q[c]) < made[c]       \* room in the buffer: the call returns without a receiver
                   /\ Step("send", c, Val, "true", made, [q EXCEPT ![c] = Append(@, Val)], closed)
Recv(c) == /\ Exists(c)
           /\ IF q[c] # <<>> THEN Step("recv", c, "", Head(q[c]), made, [q EXCEPT ![c] = Tail(@)], closed)
              ELSE /\ closed[c] /\ Step("recv", c, "", "null", made, q, closed)
Close(c) == /\ Exists(c) /\ Step("close", c, "", "", made, q, [closed EXCEPT ![c] = TRUE])

Next == \E c \in Chans : (\E cap \in Caps : New(c, cap)) \/ Send(c) \/ Recv(c) \/ Close(c)
Spec == Init /\ [][Next]_vars

St  == [made |-> made, q |-> q, closed |-> closed]
St1 == [made |-> made', q |-> q', closed |-> closed']
EmitEdge == Emit => PrintT(<<"EDGE", ToJson([from |-> St, act |-> act', to |-> St1])>>)
View == <<made, q, closed, n>>

\* ---- properties
TypeOK == \A c \in Chans : /\ (~Exists(c) => q[c] = <<>> /\ ~closed[c])
                           /\ (Exists(c) => Len(q[c]) <= made[c])
\* a step on one channel object leaves every other channel object as it was
Independence == [][\A c \in Chans : act'.ch # c => (made'[c] = made[c] /\ q'[c] = q[c] /\ closed'[c] = closed[c])]_vars
\* closed is forever; a closed channel only shrinks
ClosedIsStable == [][\A c \in Chans : closed[c] => (closed'[c] /\ Len(q'[c]) <= Len(q[c]))]_vars
\* a received value is the oldest buffered one of that channel
FifoPerChannel == [][act'.op = "recv" /\ act'.res # "null" => (act'.res = Head(q[act'.ch]) /\ q'[act'.ch] = Tail(q[act'.ch]))]_vars
=============================================================================
