SPECIFICATION Spec
CONSTANTS
  Family = "@@FAMILY@@"
  Emit = TRUE
INVARIANTS HexRoundTrip B64RoundTrip UrlRoundTrip UrlOutputIsSafe
CHECK_DEADLOCK FALSE
