SPECIFICATION Spec
CONSTANTS
  Emit = TRUE
INVARIANTS SubsequenceLaw MergeKeepsPositions SortsArePermutations AsortStable ReverseInvolution
CHECK_DEADLOCK FALSE
