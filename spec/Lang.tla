---------------------------- MODULE Lang ----------------------------
\* C02 / C05 -- reference semantics of the control-flow core as a small-step abstract machine.
\*
\* Programs are JSON ASTs (one per line of progs.ndjson; schema in DESIGN.md appendix A.2) written
\* by the harness' generators.  TLC runs every program as one deterministic behaviour (Init picks
\* the program) and prints a VERDICT line when it halts: the echoed tokens and how the program
\* ended.  The harness unparses the same AST to source, runs it on the real interpreter and
\* compares.  While running, TLC checks the machine's own properties: a break/continue/return is
\* consumed by exactly the construct it names (TargetExists), a callee's frame holds only its own
\* parameters and locals (FrameIsolation), a finally block runs at most once per entry of its try
\* and exactly once when control has left it (FinallyOnce).
\*
\* State:  ctl   statements still to run in the current block
\*         env   [vars: name -> value, st: names bound to static storage, fn: current function]
\*         K     continuation stack (frames: seq, loop, switch, try, catch, fin, call)
\*         pend  pending control: none | break n | continue n | return v | throw obj
\*         statics  function -> name -> value     out  echoed tokens     halt
EXTENDS Integers, Sequences, FiniteSets, TLC, Json

CONSTANTS MaxSteps,
          Dev       \* named deviations of the pinned interpreter applied to this run (subset of DevIds)
\* "break-level-ignored"           break N / continue N act on the innermost loop only (node/*.go never read Level)
\* "switch-no-fallthrough"         only the matching case body runs
\* "continue-in-switch-swallowed"  a continue whose innermost enclosing construct is a switch is ignored
DevIds == {"break-level-ignored", "switch-no-fallthrough", "continue-in-switch-swallowed"}

Progs == ndJsonDeserialize("progs.ndjson")

VARIABLES idx, ctl, env, K, pend, statics, out, halt, steps, nextEid, finRuns, openTries
vars == <<idx, ctl, env, K, pend, statics, out, halt, steps, nextEid, finRuns, openTries>>

P == Progs[idx]
None == [k |-> "none"]

\* ------------------------------------------------------------------ values
IntV(n)  == [t |-> "int", v |-> n]
StrV(s)  == [t |-> "str", v |-> s]
BoolV(b) == [t |-> "bool", v |-> b]
NullV    == [t |-> "null", v |-> 0]
ListV(s) == [t |-> "list", v |-> s]            \* sequence of [key, val] pairs (foreach sources)
ObjV(c, m) == [t |-> "obj", v |-> c, msg |-> m]

Truthy(x) == CASE x.t = "bool" -> x.v [] x.t = "int" -> x.v # 0 [] x.t = "str" -> (x.v # "" /\ x.v # "0")
               [] x.t = "list" -> x.v # <<>> [] x.t = "obj" -> TRUE [] OTHER -> FALSE
Render(x) == CASE x.t = "int" -> ToString(x.v) [] x.t = "str" -> x.v [] x.t = "null" -> "" [] OTHER -> "?"
\* loose equality on the generated domain (same kinds only)
LooseEq(a, b) == a.t = b.t /\ a.v = b.v
Strict(a, b)  == a.t = b.t /\ a.v = b.v

Lookup(en, n) == IF n \in en.st THEN statics[en.fn][n]
                 ELSE IF n \in DOMAIN en.vars THEN en.vars[n] ELSE NullV

\* integer division truncating toward zero, remainder with the sign of the dividend (PHP)
Abs(n) == IF n < 0 THEN -n ELSE n
TruncMod(a, b) == LET r == Abs(a) % Abs(b) IN IF a < 0 THEN -r ELSE r

RECURSIVE Ev(_, _)
Ev(e, en) ==
  CASE e.k = "int"  -> IntV(e.v)
    [] e.k = "str"  -> StrV(e.v)
    [] e.k = "bool" -> BoolV(e.v)
    [] e.k = "null" -> NullV
    [] e.k = "var"  -> Lookup(en, e.n)
    [] e.k = "arr"  -> ListV([i \in 1..Len(e.items) |->
                          [key |-> IF e.items[i].key.k = "none" THEN IntV(i - 1) ELSE Ev(e.items[i].key, en),
                           val |-> Ev(e.items[i].val, en)]])
    [] e.k = "un"   -> LET ua == Ev(e.e, en) IN
                       (CASE e.op = "!" -> BoolV(~Truthy(ua)) [] e.op = "-" -> IntV(0 - ua.v))
    [] e.k = "tern" -> IF Truthy(Ev(e.c, en)) THEN Ev(e.t, en) ELSE Ev(e.f, en)
    [] e.k = "bin"  ->
         IF e.op = "&&" THEN BoolV(Truthy(Ev(e.l, en)) /\ Truthy(Ev(e.r, en)))
         ELSE IF e.op = "||" THEN BoolV(Truthy(Ev(e.l, en)) \/ Truthy(Ev(e.r, en)))
         ELSE LET x == Ev(e.l, en) y == Ev(e.r, en) IN
         CASE e.op = "+" -> IntV(x.v + y.v)
           [] e.op = "-" -> IntV(x.v - y.v)
           [] e.op = "*" -> IntV(x.v * y.v)
           [] e.op = "%" -> IntV(TruncMod(x.v, y.v))
           [] e.op = "<" -> BoolV(x.v < y.v)
           [] e.op = "<=" -> BoolV(x.v <= y.v)
           [] e.op = ">" -> BoolV(x.v > y.v)
           [] e.op = ">=" -> BoolV(x.v >= y.v)
           [] e.op = "==" -> BoolV(LooseEq(x, y))
           [] e.op = "!=" -> BoolV(~LooseEq(x, y))
           [] e.op = "===" -> BoolV(Strict(x, y))
           [] e.op = "." -> StrV(Render(x) \o Render(y))

\* ------------------------------------------------------------------ environment updates
SetVar(en, n, v) == [en EXCEPT !.vars = [x \in (DOMAIN en.vars) \cup {n} |-> IF x = n THEN v ELSE en.vars[x]]]
\* assignment goes to static storage when the name is bound static in this frame
Assign(n, v) == IF n \in env.st
                  THEN /\ statics' = [statics EXCEPT ![env.fn] = [x \in (DOMAIN statics[env.fn]) \cup {n} |-> IF x = n THEN v ELSE statics[env.fn][x]]]
                       /\ UNCHANGED env
                  ELSE /\ env' = SetVar(env, n, v) /\ UNCHANGED statics

ApplyOp(op, a, b) == CASE op = "+" -> IntV(a.v + b.v) [] op = "-" -> IntV(a.v - b.v) [] op = "*" -> IntV(a.v * b.v)
                       [] op = "." -> StrV(Render(a) \o Render(b))

\* ------------------------------------------------------------------ class hierarchy of thrown objects
RECURSIVE IsA(_, _)
IsA(c, t) == IF c = t THEN TRUE
             ELSE IF c \notin DOMAIN P.classes THEN FALSE
             ELSE \/ \E i \in 1..Len(P.classes[c].impl) : IsA(P.classes[c].impl[i], t)   \* interfaces extend interfaces
                  \/ (P.classes[c].ext # "" /\ IsA(P.classes[c].ext, t))
\* every user class extends \Exception; UnhandledMatchError is an \Error (caught by \Throwable only)
Matches(clause, cls) == \E i \in 1..Len(clause.types) :
                           \/ clause.types[i] = "Throwable"
                           \/ (clause.types[i] = "Exception" /\ cls # "UnhandledMatchError")
                           \/ IsA(cls, clause.types[i])
FirstMatch(catches, cls) ==
  LET ms == {i \in 1..Len(catches) : Matches(catches[i], cls)} IN
  IF ms = {} THEN 0 ELSE CHOOSE i \in ms : \A j \in ms : i <= j

\* ------------------------------------------------------------------ machine
Push(f) == K' = <<f>> \o K
Tick == steps' = steps + 1
Emit(s) == out' = Append(out, s)

Init == /\ idx \in 1..Len(Progs)
        /\ ctl = Progs[idx].main /\ env = [vars |-> <<>>, st |-> {}, fn |-> ""] /\ K = <<>> /\ pend = None
        /\ statics = [f \in DOMAIN Progs[idx].funcs |-> <<>>]
        /\ out = <<>> /\ halt = "no" /\ steps = 0 /\ nextEid = 1 /\ finRuns = <<>> /\ openTries = {}

\* concatenated bodies of the cases from position i on (fall-through)
RECURSIVE FallFrom(_, _)
FallFrom(cases, i) == IF i > Len(cases) THEN <<>> ELSE cases[i].body \o FallFrom(cases, i + 1)

ForeachBind(en, s, item) == LET e1 == SetVar(en, s.val, item.val) IN IF s.key = "" THEN e1 ELSE SetVar(e1, s.key, item.key)

Lvl(n) == IF "break-level-ignored" \in Dev THEN 1 ELSE n
\* is the innermost loop/switch frame (inside the current call) a switch?
RECURSIVE FirstLoopish(_)
FirstLoopish(k) == IF k = <<>> \/ Head(k).k = "call" THEN "none"
                   ELSE IF Head(k).k \in {"loop", "switch"} THEN Head(k).k ELSE FirstLoopish(Tail(k))
InnermostIsSwitch == FirstLoopish(K) = "switch"

Step ==
  /\ halt = "no" /\ pend.k = "none" /\ ctl # <<>>
  /\ LET s == Head(ctl) rest == Tail(ctl) IN
     CASE s.k = "assign" -> /\ Assign(s.n, Ev(s.e, env)) /\ ctl' = rest /\ UNCHANGED <<K, pend, out, nextEid, finRuns, openTries>>
       [] s.k = "opassign" -> /\ Assign(s.n, ApplyOp(s.op, Lookup(env, s.n), Ev(s.e, env))) /\ ctl' = rest
                              /\ UNCHANGED <<K, pend, out, nextEid, finRuns, openTries>>
       [] s.k = "incr" -> /\ Assign(s.n, IntV(Lookup(env, s.n).v + s.d)) /\ ctl' = rest
                          /\ UNCHANGED <<K, pend, out, nextEid, finRuns, openTries>>
       [] s.k = "echo" -> /\ Emit(Render(Ev(s.e, env))) /\ ctl' = rest /\ UNCHANGED <<K, pend, env, statics, nextEid, finRuns, openTries>>
       [] s.k = "echomsg" -> /\ Emit(Lookup(env, s.n).msg) /\ ctl' = rest /\ UNCHANGED <<K, pend, env, statics, nextEid, finRuns, openTries>>
       [] s.k = "mark" -> /\ Emit("#" \o ToString(s.id)) /\ ctl' = rest /\ UNCHANGED <<K, pend, env, statics, nextEid, finRuns, openTries>>
       [] s.k = "if" ->
            LET hit == {i \in 1..Len(s.arms) : Truthy(Ev(s.arms[i].c, env))}
                body == IF hit = {} THEN s.else ELSE s.arms[CHOOSE i \in hit : \A j \in hit : i <= j].body
            IN /\ ctl' = body /\ Push([k |-> "seq", rest |-> rest]) /\ UNCHANGED <<env, statics, pend, out, nextEid, finRuns, openTries>>
       [] s.k = "while" ->
            /\ IF Truthy(Ev(s.c, env)) THEN ctl' = s.body /\ Push([k |-> "loop", kind |-> "while", s |-> s, rest |-> rest])
                                       ELSE ctl' = rest /\ K' = K
            /\ UNCHANGED <<env, statics, pend, out, nextEid, finRuns, openTries>>
       [] s.k = "dowhile" -> /\ ctl' = s.body /\ Push([k |-> "loop", kind |-> "dowhile", s |-> s, rest |-> rest])
                             /\ UNCHANGED <<env, statics, pend, out, nextEid, finRuns, openTries>>
       [] s.k = "for" -> /\ ctl' = s.init \o <<[k |-> "forhead", s |-> s]>> \o rest
                         /\ UNCHANGED <<K, env, statics, pend, out, nextEid, finRuns, openTries>>
       [] s.k = "forhead" ->
            /\ IF Truthy(Ev(s.s.c, env)) THEN ctl' = s.s.body /\ Push([k |-> "loop", kind |-> "for", s |-> s.s, rest |-> rest])
                                         ELSE ctl' = rest /\ K' = K
            /\ UNCHANGED <<env, statics, pend, out, nextEid, finRuns, openTries>>
       [] s.k = "foreach" ->
            LET items == Ev(s.src, env).v IN
            IF items = <<>> THEN /\ ctl' = rest /\ UNCHANGED <<K, env, statics, pend, out, nextEid, finRuns, openTries>>
            ELSE /\ env' = ForeachBind(env, s, items[1]) /\ ctl' = s.body
                 /\ Push([k |-> "loop", kind |-> "foreach", s |-> s, rest |-> rest, items |-> items, pos |-> 1])
                 /\ UNCHANGED <<statics, pend, out, nextEid, finRuns, openTries>>
       [] s.k = "switch" ->
            LET subj == Ev(s.e, env)
                hit == {i \in 1..Len(s.cases) : s.cases[i].isdef = FALSE /\ LooseEq(Ev(s.cases[i].v, env), subj)}
                defs == {i \in 1..Len(s.cases) : s.cases[i].isdef}
                start == IF hit # {} THEN CHOOSE i \in hit : \A j \in hit : i <= j
                         ELSE IF defs # {} THEN CHOOSE i \in defs : TRUE ELSE Len(s.cases) + 1
            IN /\ ctl' = (IF "switch-no-fallthrough" \in Dev THEN (IF start > Len(s.cases) THEN <<>> ELSE s.cases[start].body)
                          ELSE FallFrom(s.cases, start))
               /\ Push([k |-> "switch", rest |-> rest])
               /\ UNCHANGED <<env, statics, pend, out, nextEid, finRuns, openTries>>
       [] s.k = "match" ->
            LET subj == Ev(s.e, env)
                hit == {i \in 1..Len(s.arms) : \E j \in 1..Len(s.arms[i].v) : Strict(Ev(s.arms[i].v[j], env), subj)}
            IN IF hit # {} THEN /\ Assign(s.n, Ev(s.arms[CHOOSE i \in hit : \A j \in hit : i <= j].r, env)) /\ ctl' = rest
                                /\ UNCHANGED <<K, pend, out, nextEid, finRuns, openTries>>
               ELSE IF s.default.k # "none" THEN /\ Assign(s.n, Ev(s.default, env)) /\ ctl' = rest
                                                 /\ UNCHANGED <<K, pend, out, nextEid, finRuns, openTries>>
               ELSE /\ pend' = [k |-> "throw", cls |-> "UnhandledMatchError", msg |-> "match"] /\ ctl' = <<>>
                    /\ UNCHANGED <<K, env, statics, out, nextEid, finRuns, openTries>>
       [] s.k = "break" -> /\ pend' = [k |-> "break", n |-> Lvl(s.n)] /\ ctl' = <<>> /\ UNCHANGED <<env, statics, K, out, nextEid, finRuns, openTries>>
       [] s.k = "continue" ->
            IF "continue-in-switch-swallowed" \in Dev /\ InnermostIsSwitch
              THEN /\ ctl' = rest /\ UNCHANGED <<pend, env, statics, K, out, nextEid, finRuns, openTries>>
              ELSE /\ pend' = [k |-> "continue", n |-> Lvl(s.n)] /\ ctl' = <<>> /\ UNCHANGED <<env, statics, K, out, nextEid, finRuns, openTries>>
       [] s.k = "return" -> /\ pend' = [k |-> "return", v |-> IF s.e.k = "none" THEN NullV ELSE Ev(s.e, env)] /\ ctl' = <<>>
                            /\ UNCHANGED <<env, statics, K, out, nextEid, finRuns, openTries>>
       [] s.k = "throw" -> /\ pend' = [k |-> "throw", cls |-> s.cls, msg |-> s.msg] /\ ctl' = <<>>
                           /\ UNCHANGED <<env, statics, K, out, nextEid, finRuns, openTries>>
       [] s.k = "rethrow" -> /\ pend' = [k |-> "throw", cls |-> Lookup(env, s.n).v, msg |-> Lookup(env, s.n).msg] /\ ctl' = <<>>
                             /\ UNCHANGED <<env, statics, K, out, nextEid, finRuns, openTries>>
       [] s.k = "static" ->
            /\ statics' = IF s.n \in DOMAIN statics[env.fn] THEN statics
                          ELSE [statics EXCEPT ![env.fn] = [x \in (DOMAIN statics[env.fn]) \cup {s.n} |-> IF x = s.n THEN Ev(s.e, env) ELSE statics[env.fn][x]]]
            /\ env' = [env EXCEPT !.st = @ \cup {s.n}] /\ ctl' = rest
            /\ UNCHANGED <<K, pend, out, nextEid, finRuns, openTries>>
       [] s.k = "try" -> /\ ctl' = s.body /\ Push([k |-> "try", s |-> s, rest |-> rest, eid |-> nextEid])
                         /\ nextEid' = nextEid + 1 /\ openTries' = openTries \cup {nextEid}
                         \* a try without finally counts as "finally done" from the start
                         /\ finRuns' = [e \in (DOMAIN finRuns) \cup {nextEid} |-> IF e = nextEid THEN (IF s.hasfin THEN 0 ELSE 1) ELSE finRuns[e]]
                         /\ UNCHANGED <<env, statics, pend, out>>
       [] s.k = "call" ->
            LET f == P.funcs[s.f]
                np == Len(f.params)
                argv == [j \in 1..np |-> IF j <= Len(s.args) THEN Ev(s.args[j], env) ELSE Ev(f.params[j].def, [vars |-> <<>>, st |-> {}, fn |-> s.f])]
                newvars == [nme \in {f.params[j].n : j \in 1..np} |-> argv[CHOOSE j \in 1..np : f.params[j].n = nme]]
            IN /\ Push([k |-> "call", env |-> env, rest |-> rest, n |-> s.n])
               /\ env' = [vars |-> newvars, st |-> {}, fn |-> s.f] /\ ctl' = f.body
               /\ UNCHANGED <<statics, pend, out, nextEid, finRuns, openTries>>
  /\ Tick /\ UNCHANGED <<idx, halt>>

\* leave a try/catch frame: run its finally (remembering the control it interrupts) or pass on
LeaveTry(f, saved) ==
  IF f.s.hasfin
    THEN /\ K' = <<[k |-> "fin", saved |-> saved, rest |-> f.rest, eid |-> f.eid]>> \o Tail(K) /\ ctl' = f.s.finally /\ pend' = None
         /\ finRuns' = [finRuns EXCEPT ![f.eid] = @ + 1] /\ UNCHANGED openTries
    ELSE /\ K' = Tail(K) /\ openTries' = openTries \ {f.eid} /\ UNCHANGED finRuns
         /\ IF saved.k = "none" THEN ctl' = f.rest /\ pend' = None ELSE ctl' = <<>> /\ pend' = saved

\* the current block finished normally
PopK ==
  /\ halt = "no" /\ pend.k = "none" /\ ctl = <<>> /\ K # <<>>
  /\ LET f == Head(K) IN
     CASE f.k = "seq" -> /\ ctl' = f.rest /\ K' = Tail(K) /\ UNCHANGED <<env, statics, pend, finRuns, openTries>>
       [] f.k = "switch" -> /\ ctl' = f.rest /\ K' = Tail(K) /\ UNCHANGED <<env, statics, pend, finRuns, openTries>>
       [] f.k = "loop" ->
            (CASE f.kind = "while" -> /\ ctl' = <<f.s>> \o f.rest /\ K' = Tail(K) /\ UNCHANGED env
               [] f.kind = "dowhile" -> IF Truthy(Ev(f.s.c, env)) THEN ctl' = f.s.body /\ K' = K /\ UNCHANGED env
                                        ELSE ctl' = f.rest /\ K' = Tail(K) /\ UNCHANGED env
               [] f.kind = "for" -> /\ ctl' = f.s.incr \o <<[k |-> "forhead", s |-> f.s]>> \o f.rest /\ K' = Tail(K) /\ UNCHANGED env
               [] f.kind = "foreach" -> IF f.pos < Len(f.items)
                                          THEN /\ env' = ForeachBind(env, f.s, f.items[f.pos + 1]) /\ ctl' = f.s.body
                                               /\ K' = <<[f EXCEPT !.pos = @ + 1]>> \o Tail(K)
                                          ELSE ctl' = f.rest /\ K' = Tail(K) /\ UNCHANGED env)
            /\ UNCHANGED <<statics, pend, finRuns, openTries>>
       [] f.k \in {"try", "catch"} -> /\ LeaveTry(f, None) /\ UNCHANGED <<env, statics>>
       [] f.k = "fin" -> /\ K' = Tail(K) /\ openTries' = openTries \ {f.eid} /\ UNCHANGED <<env, statics, finRuns>>
                         /\ IF f.saved.k = "none" THEN ctl' = f.rest /\ pend' = None ELSE ctl' = <<>> /\ pend' = f.saved
       [] f.k = "call" -> /\ K' = Tail(K) /\ ctl' = f.rest /\ pend' = None      \* falling off the end returns null
                          /\ env' = IF f.n = "" THEN f.env ELSE SetVar(f.env, f.n, NullV)
                          /\ UNCHANGED <<statics, finRuns, openTries>>
  /\ Tick /\ UNCHANGED <<idx, out, halt, nextEid>>

\* a pending control propagates outwards one frame
Unwind ==
  /\ halt = "no" /\ pend.k # "none" /\ K # <<>>
  /\ LET f == Head(K) IN
     CASE f.k = "seq" -> /\ K' = Tail(K) /\ UNCHANGED <<ctl, pend, env, statics, finRuns, openTries>>
       [] f.k \in {"loop", "switch"} ->
            IF pend.k \in {"return", "throw"} THEN /\ K' = Tail(K) /\ UNCHANGED <<ctl, pend, env, statics, finRuns, openTries>>
            ELSE IF pend.n > 1 THEN /\ K' = Tail(K) /\ pend' = [pend EXCEPT !.n = @ - 1] /\ UNCHANGED <<ctl, env, statics, finRuns, openTries>>
            ELSE IF pend.k = "break" \/ f.k = "switch"        \* continue targeting a switch leaves it, like break
                 THEN /\ K' = Tail(K) /\ ctl' = f.rest /\ pend' = None /\ UNCHANGED <<env, statics, finRuns, openTries>>
            ELSE \* continue: next iteration of this loop
                 (CASE f.kind = "while" -> /\ ctl' = <<f.s>> \o f.rest /\ K' = Tail(K) /\ UNCHANGED env
                    [] f.kind = "dowhile" -> IF Truthy(Ev(f.s.c, env)) THEN ctl' = f.s.body /\ K' = K /\ UNCHANGED env
                                             ELSE ctl' = f.rest /\ K' = Tail(K) /\ UNCHANGED env
                    [] f.kind = "for" -> /\ ctl' = f.s.incr \o <<[k |-> "forhead", s |-> f.s]>> \o f.rest /\ K' = Tail(K) /\ UNCHANGED env
                    [] f.kind = "foreach" -> IF f.pos < Len(f.items)
                                               THEN /\ env' = ForeachBind(env, f.s, f.items[f.pos + 1]) /\ ctl' = f.s.body
                                                    /\ K' = <<[f EXCEPT !.pos = @ + 1]>> \o Tail(K)
                                               ELSE ctl' = f.rest /\ K' = Tail(K) /\ UNCHANGED env)
                 /\ pend' = None /\ UNCHANGED <<statics, finRuns, openTries>>
       [] f.k = "try" ->
            LET m == IF pend.k = "throw" THEN FirstMatch(f.s.catches, pend.cls) ELSE 0 IN
            IF m > 0
              THEN /\ K' = <<[k |-> "catch", s |-> f.s, rest |-> f.rest, eid |-> f.eid]>> \o Tail(K)
                   /\ env' = SetVar(env, f.s.catches[m].var, ObjV(pend.cls, pend.msg))
                   /\ ctl' = f.s.catches[m].body /\ pend' = None /\ UNCHANGED <<statics, finRuns, openTries>>
              ELSE /\ LeaveTry(f, pend) /\ UNCHANGED <<env, statics>>
       [] f.k = "catch" -> /\ LeaveTry(f, pend) /\ UNCHANGED <<env, statics>>
       [] f.k = "fin" -> \* a control leaving the finally block replaces the one it interrupted
                         /\ K' = Tail(K) /\ openTries' = openTries \ {f.eid} /\ UNCHANGED <<ctl, pend, env, statics, finRuns>>
       [] f.k = "call" ->
            IF pend.k = "return"
              THEN /\ K' = Tail(K) /\ ctl' = f.rest /\ pend' = None
                   /\ env' = IF f.n = "" THEN f.env ELSE SetVar(f.env, f.n, pend.v)
                   /\ UNCHANGED <<statics, finRuns, openTries>>
              ELSE /\ K' = Tail(K) /\ env' = f.env /\ UNCHANGED <<ctl, pend, statics, finRuns, openTries>>
  /\ Tick /\ UNCHANGED <<idx, out, halt, nextEid>>

Verdict(st) == PrintT(<<"VERDICT", ToJson([idx |-> idx, status |-> st, out |-> out, steps |-> steps])>>)

Halt ==
  /\ halt = "no" /\ K = <<>> /\ (ctl = <<>> \/ pend.k # "none")
  /\ halt' = (IF pend.k = "throw" THEN "uncaught:" \o pend.cls
              ELSE IF pend.k \in {"break", "continue"} THEN "stray:" \o pend.k ELSE "normal")
  /\ Verdict(halt')
  /\ UNCHANGED <<idx, ctl, env, K, pend, statics, out, steps, nextEid, finRuns, openTries>>

Budget == /\ halt = "no" /\ steps >= MaxSteps /\ halt' = "budget" /\ Verdict("budget")
          /\ UNCHANGED <<idx, ctl, env, K, pend, statics, out, steps, nextEid, finRuns, openTries>>

Next == IF halt = "no" /\ steps >= MaxSteps THEN Budget ELSE (Step \/ PopK \/ Unwind \/ Halt)
Spec == Init /\ [][Next]_vars

\* ------------------------------------------------------------------ properties of the machine
Loopish(f) == f.k \in {"loop", "switch"}
\* frames between the top of K and the nearest call frame
RECURSIVE InCall(_)
InCall(k) == IF k = <<>> \/ Head(k).k = "call" THEN <<>> ELSE <<Head(k)>> \o InCall(Tail(k))
\* a pending break/continue n always has its n-th enclosing loop/switch inside the current call
TargetExists == pend.k \in {"break", "continue"} =>
                  Cardinality({i \in 1..Len(InCall(K)) : Loopish(InCall(K)[i])}) >= pend.n \/ halt # "no"
\* a callee starts with exactly its parameters
FrameIsolation == [][(K' # K /\ K' # <<>> /\ Len(K') = Len(K) + 1 /\ Head(K').k = "call") =>
                      DOMAIN env'.vars = {P.funcs[env'.fn].params[j].n : j \in 1..Len(P.funcs[env'.fn].params)}]_vars
\* finally: at most once per entry, and exactly once when the try has been left
FinallyOnce == /\ \A e \in DOMAIN finRuns : finRuns[e] <= 1
               /\ \A e \in DOMAIN finRuns : e \notin openTries => finRuns[e] = 1
\* when the program has halted normally every try frame has been left
AllTriesLeft == halt = "normal" => openTries = {}
=============================================================================
