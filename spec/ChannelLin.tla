---------------------------- MODULE ChannelLin ----------------------------
\* C09, direction B -- recorded call/return histories of the real Channel are validated against
\* ChannelRef, the property-level specification: an unbounded FIFO queue with close.
\*     send(v) -> true    enabled when not closed; appends v
\*     send(v) -> false   enabled when closed
\*     recv()  -> v       enabled when v is the head of the queue; removes it
\*     recv()  -> null    enabled when closed and the queue is empty
\*     close() -> ok      sets closed
\* A history is accepted when there is a linearization: every call takes effect atomically at some
\* point between its call and its return (internal step Lin), with the recorded result.  Calls that
\* never returned (goroutine still blocked when the run ended) may take effect or not.
\* All histories of a batch are initial states; an ACCEPT line is printed when the end of a
\* history is reached.  Exactly-once delivery, per-sender order and "nothing invented" are
\* consequences of the queue; "after close: drain, then null; send fails" of the close rules.
EXTENDS Integers, Sequences, FiniteSets, TLC, Json

Hists == ndJsonDeserialize("hist.ndjson")
\* line: [ops |-> <<[op, arg, res]>>, ev |-> <<[t, id]>>]   t = "c" call | "r" return; res = "pending" if none

VARIABLES h, pos, pend, lin, q, closed
vars == <<h, pos, pend, lin, q, closed>>

H == Hists[h]
Report(p) == (p > Len(H.ev)) => PrintT(<<"ACCEPT", ToJson([h |-> h])>>)
Init == /\ h \in 1..Len(Hists) /\ pos = 1 /\ Report(IF Len(Hists[h].ev) = 0 THEN 1 ELSE 0) /\ pend = {} /\ lin = {} /\ q = <<>> /\ closed = FALSE

Call == /\ pos <= Len(H.ev) /\ H.ev[pos].t = "c"
        /\ pend' = pend \cup {H.ev[pos].id} /\ pos' = pos + 1
        /\ Report(pos')
        /\ UNCHANGED <<h, lin, q, closed>>
Ret  == /\ pos <= Len(H.ev) /\ H.ev[pos].t = "r"
        /\ H.ev[pos].id \in lin              \* already linearized (with the recorded result, checked at Lin)
        /\ lin' = lin \ {H.ev[pos].id} /\ pos' = pos + 1
        /\ Report(pos')
        /\ UNCHANGED <<h, pend, q, closed>>

Matches(id, r) == H.ops[id].res = "pending" \/ H.ops[id].res = r

Lin(id) ==
  /\ id \in pend
  /\ LET o == H.ops[id] IN
     CASE o.op = "send"  -> IF closed THEN Matches(id, "false") /\ UNCHANGED <<q, closed>>
                                      ELSE Matches(id, "true") /\ q' = Append(q, o.arg) /\ UNCHANGED closed
       [] o.op = "recv"  -> IF q # <<>> THEN Matches(id, Head(q)) /\ q' = Tail(q) /\ UNCHANGED closed
                            ELSE closed /\ Matches(id, "null") /\ UNCHANGED <<q, closed>>
       [] o.op = "close" -> closed' = TRUE /\ UNCHANGED q
  /\ pend' = pend \ {id} /\ lin' = lin \cup {id}
  /\ UNCHANGED <<h, pos>>

Next == Call \/ Ret \/ \E id \in pend : Lin(id)
Spec == Init /\ [][Next]_vars

Accepted == pos > Len(H.ev)
\* once a history is accepted nothing more needs exploring
Prune == ~Accepted
=============================================================================
