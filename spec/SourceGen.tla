---------------------------- MODULE SourceGen ----------------------------
\* C01 (input model) -- sources as sequences of fragments chosen from the lexer's own case analysis.
\*
\* A source is a sequence of fragment names (the replay engine owns the bytes of each fragment).  The
\* model tracks the lexical mode and the bracket stack a reader of the text would be in after each
\* fragment, so that "the source ends inside a string / heredoc / comment / interpolation" and "the
\* source ends with open brackets" are reachable states by construction -- exactly the truncated and
\* malformed inputs a test suite of well-formed snippets never contains.  TLC enumerates every fragment
\* sequence up to MaxLen (or samples longer ones with -simulate) and prints it with its final mode and
\* bracket depth; every printed source is fed to the real lexer and parser in both lexing modes.
EXTENDS Integers, Sequences, FiniteSets, TLC, Json

CONSTANTS MaxLen, Alphabet, Emit

Core == {"DOLLAR", "VAR", "IDENT", "INT", "NEGINT", "SPACE", "NL", "SEMI", "COMMA", "ASSIGN", "ARROW", "GT", "PLUS", "STAR", "DOT",
         "LPAREN", "RPAREN", "LBRACK", "RBRACK", "LBRACE", "RBRACE", "DQUOTE", "SQUOTE", "INTERP", "HEREDOC", "NOWDOC", "HEREDOC_END", "HEREDOC_END0",
         "BLOCK_OPEN", "BLOCK_CLOSE", "LINE_COMMENT", "OPEN_TAG", "CLOSE_TAG", "FN", "FUNCTION", "IF", "SWITCH", "CASE", "E380", "E38080", "BACKSLASH"}
Extra == {"CRLF", "HASH", "NUL", "UTF8", "CLASS", "NEW", "ECHO", "RETURN", "OBJ_ARROW", "SCOPE", "QUESTION", "COLON",
          "AMP", "AT", "FOR", "WHILE", "FOREACH", "TRY", "CATCH", "MATCH", "STRING", "FLOAT", "TRUE", "NULLSAFE", "SPREAD", "BANG"}
Frags == IF Alphabet = "core" THEN Core ELSE Core \cup Extra

Modes == {"code", "dquote", "squote", "interp", "heredoc", "line-comment", "block-comment", "html"}
Openers == {"LPAREN", "LBRACK", "LBRACE", "FN", "FUNCTION", "IF", "SWITCH", "CLASS", "FOR", "WHILE", "FOREACH", "TRY", "CATCH", "MATCH"}
Closers == {"RPAREN", "RBRACK", "RBRACE"}

VARIABLES frags, mode, depth, done
vars == <<frags, mode, depth, done>>

NextMode(m, f) ==
  CASE m = "code" -> (CASE f = "DQUOTE" -> "dquote" [] f = "SQUOTE" -> "squote" [] f \in {"HEREDOC", "NOWDOC"} -> "heredoc"
                        [] f = "BLOCK_OPEN" -> "block-comment" [] f \in {"LINE_COMMENT", "HASH"} -> "line-comment"
                        [] f = "CLOSE_TAG" -> "html" [] OTHER -> "code")
    [] m = "dquote" -> (CASE f = "DQUOTE" -> "code" [] f = "INTERP" -> "interp" [] OTHER -> "dquote")
    [] m = "squote" -> (IF f = "SQUOTE" THEN "code" ELSE "squote")
    [] m = "interp" -> (IF f = "RBRACE" THEN "dquote" ELSE "interp")
    \* HEREDOC_END0 is the closing marker WITHOUT a line break before it: directly after the opening line the body is empty
    [] m = "heredoc" -> (IF f \in {"HEREDOC_END", "HEREDOC_END0"} THEN "code" ELSE "heredoc")
    [] m = "line-comment" -> (CASE f \in {"NL", "CRLF"} -> "code" [] f = "CLOSE_TAG" -> "html" [] OTHER -> "line-comment")
    [] m = "block-comment" -> (IF f = "BLOCK_CLOSE" THEN "code" ELSE "block-comment")
    [] m = "html" -> (IF f = "OPEN_TAG" THEN "code" ELSE "html")
NextDepth(m, d, f) == IF m # "code" THEN d
                      ELSE IF f \in Openers THEN d + 1
                      ELSE IF f \in Closers /\ d > 0 THEN d - 1 ELSE d

Init == frags = <<>> /\ mode = "code" /\ depth = 0 /\ done = FALSE
AddFrag(f) == /\ ~done /\ Len(frags) < MaxLen
             /\ frags' = Append(frags, f) /\ mode' = NextMode(mode, f) /\ depth' = NextDepth(mode, depth, f)
             /\ UNCHANGED done
\* every sequence is also a complete input: Finish prints it
Finish == /\ ~done /\ done' = TRUE /\ UNCHANGED <<frags, mode, depth>>
          /\ (Emit => PrintT(<<"CASE", ToJson([frags |-> frags, mode |-> mode, depth |-> depth])>>))
Next == (\E f \in Frags : AddFrag(f)) \/ Finish
Spec == Init /\ [][Next]_vars

TypeOK == mode \in Modes /\ depth \in 0..MaxLen /\ Len(frags) <= MaxLen
\* the input model reaches every "unfinished" situation: (checked by the replay engine on the printed cases:
\* every mode occurs as a final mode, and sources ending with open brackets occur)
=============================================================================
