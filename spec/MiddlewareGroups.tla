---------------------------- MODULE MiddlewareGroups ----------------------------
(* C13 (second clause, continued) -- route groups and middlewares that answer by themselves.

   A server registers root middlewares, then creates two sibling groups A and B; the groups register
   middlewares of their own (in any interleaving); then one route is added under the root and under each
   group.  A request to the route of scope s runs exactly the middlewares owned by the root or by s --
   never a sibling's -- outermost first in ascending priority, ties in registration order
   (std/net/http/server_class.go NewServerClassFromGroup copies the parent's list; middleware_stack.go sorts).
   One of the middlewares on the way may ANSWER BY ITSELF: it sets a header and a status and does not call
   $next; the layers inside it and the handler do not run, the layers outside unwind, and the client gets
   exactly that status (commit on the way out: server_middleware.go).
   Every scenario is an initial state; Answer prints the expected marker trace and status.               *)
EXTENDS Integers, Sequences, FiniteSets, TLC, Json

CONSTANTS Emit

RootPris == {0, 5}
GroupPris == {-1, 0}
Scopes == {"root", "A", "B"}
Kinds == {"closure", "class"}           \* how a middleware is written: a closure or an object with handle()

SeqsUpTo(S, n) == UNION {[1..k -> S] : k \in 0..n}
Entry(o, p) == [owner |-> o, pri |-> p]
RootSeqs == {[i \in DOMAIN ps |-> Entry("root", ps[i])] : ps \in SeqsUpTo(RootPris, 3)}
GroupSeqs == {[i \in DOMAIN es |-> Entry(es[i][1], es[i][2])] : es \in SeqsUpTo({"A", "B"} \X GroupPris, 3)}

VARIABLES reg,     \* all registrations in order: root ones first, then the groups'
          scope,   \* which route is requested
          stop,    \* 0, or the position (1 = outermost) of the middleware that answers by itself
          stopKind, done
vars == <<reg, scope, stop, stopKind, done>>

Visible == {i \in 1..Len(reg) : reg[i].owner \in {"root", scope}}
Less(i, j) == reg[i].pri < reg[j].pri \/ (reg[i].pri = reg[j].pri /\ i < j)
Order == LET V == Visible
             rank(i) == 1 + Cardinality({j \in V : Less(j, i)})
         IN [k \in 1..Cardinality(V) |-> CHOOSE i \in V : rank(i) = k]

Init == /\ \E r \in RootSeqs, g \in GroupSeqs : reg = r \o g
        /\ scope \in Scopes /\ done = FALSE
        /\ stop \in 0..2 /\ stopKind \in Kinds
        /\ stop <= Cardinality({i \in 1..Len(reg) : reg[i].owner \in {"root", scope}})
        /\ (stop = 0 => stopKind = "closure")

Trace == LET o == Order n == Len(o)
             last == IF stop = 0 THEN n ELSE stop
             pre == [k \in 1..last |-> "pre" \o ToString(o[k])]
             post == [k \in 1..last |-> "post" \o ToString(o[last + 1 - k])]
         IN IF stop = 0 THEN pre \o <<"h0">> \o post ELSE pre \o post
Status == IF stop = 0 THEN 201 ELSE 403

Answer == /\ ~done /\ done' = TRUE /\ UNCHANGED <<reg, scope, stop, stopKind>>
          /\ (Emit => PrintT(<<"CASE", ToJson([reg |-> reg, scope |-> scope, stop |-> stop, stopKind |-> stopKind,
                                               order |-> Order, trace |-> Trace, status |-> Status])>>))
Spec == Init /\ [][Answer]_vars

\* ---- properties of the reference
NoSiblingRuns == \A k \in 1..Len(Order) : reg[Order[k]].owner \in {"root", scope}
Ascending == \A a, b \in 1..Len(Order) : a < b => Less(Order[a], Order[b])
EveryVisibleOnce == {Order[k] : k \in 1..Len(Order)} = Visible /\ Len(Order) = Cardinality(Visible)
=============================================================================
