SPECIFICATION Spec
CONSTANTS
  MaxMw = @@MAXMW@@
  Emit = TRUE
INVARIANTS EveryoneRunsOnce OuterFirst
CHECK_DEADLOCK FALSE
