SPECIFICATION Spec
CONSTRAINT Prune
CHECK_DEADLOCK FALSE
