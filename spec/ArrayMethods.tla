---------------------------- MODULE ArrayMethods ----------------------------
\* C15 -- array methods behave as documented (docs/array_methods.md: Node.js-style semantics).
\*
\* The receiver is the state; every method call is an action whose label carries the arguments,
\* the documented result and (through the next state) the receiver afterwards.  Mutating methods
\* (push pop shift unshift splice reverse sort) change the state, all others must leave it unchanged
\* (checked as an action property on the oracle itself).  An omitted optional argument is the
\* explicit value Omit, so "slice(2)" and "slice(2, 0)" are different calls.
\*
\* Universe = "int"   receivers over small ints (all methods incl. callbacks)
\*          = "str"   receivers over strings (order, equality, join)
\*          = "nest"  receivers of trees [k: "n"|"l", v] (flat, concat, slice on nested data)
EXTENDS Integers, Sequences, FiniteSets, SequencesExt, TLC, Json

CONSTANTS Universe, MaxLen0, MaxLen, MaxDepth, Emit, Hist

Omit == 99          \* an omitted optional integer argument (outside the index pool)
OmitS == "_"        \* an omitted optional string argument
Null == [null |-> TRUE]

VARIABLES recv, depth, act, hist
vars == <<recv, depth, act, hist>>

\* ------------------------------------------------------------------ value pools
IntVals == {1, 2, 3}
StrVals == {"a", "b", "10", "9"}
N(x) == [k |-> "n", v |-> x]
L(s) == [k |-> "l", v |-> s]
NestVals == {N(1), L(<<N(2), N(3)>>), L(<<N(4), L(<<N(5)>>)>>), L(<<>>)}
Vals == CASE Universe = "int" -> IntVals [] Universe = "str" -> StrVals [] OTHER -> NestVals
Items == CASE Universe = "int" -> {<<>>, <<7>>, <<7, 8>>}
           [] Universe = "str" -> {<<>>, <<"x">>, <<"x", "y">>}
           \* a single item that is itself a list (or the empty list) must arrive as ONE item
           [] OTHER -> {<<>>, <<N(7)>>, <<N(7), L(<<N(8)>>)>>, <<L(<<N(8), N(9)>>)>>, <<L(<<>>)>>}
Idx == {-5, -2, -1, 0, 1, 2, 3, 5}
OptIdx == Idx \cup {Omit}

RECURSIVE SeqsUpTo(_)
SeqsUpTo(n) == IF n = 0 THEN {<<>>} ELSE LET S == SeqsUpTo(n - 1) IN S \cup {Append(s, v) : s \in {t \in S : Len(t) = n - 1}, v \in Vals}

\* ------------------------------------------------------------------ documented semantics
Len0(s) == Len(s)
Max2(a, b) == IF a > b THEN a ELSE b
Min2(a, b) == IF a < b THEN a ELSE b
\* relative index as in Array.prototype.slice / splice / indexOf
Rel(i, n) == IF i < 0 THEN Max2(n + i, 0) ELSE Min2(i, n)
Sub(s, a, b) == IF a >= b THEN <<>> ELSE SubSeq(s, a + 1, b)      \* 0-based half-open

Slice(s, st, en) == LET n == Len(s)
                        a == IF st = Omit THEN 0 ELSE Rel(st, n)
                        b == IF en = Omit THEN n ELSE Rel(en, n)
                    IN Sub(s, a, b)
SpliceStart(s, st) == Rel(st, Len(s))
SpliceCount(s, st, dc) == LET n == Len(s) a == SpliceStart(s, st)
                          IN IF dc = Omit THEN n - a ELSE Min2(Max2(dc, 0), n - a)
SpliceDeleted(s, st, dc) == Sub(s, SpliceStart(s, st), SpliceStart(s, st) + SpliceCount(s, st, dc))
SpliceRest(s, st, dc, items) == Sub(s, 0, SpliceStart(s, st)) \o items
                                \o Sub(s, SpliceStart(s, st) + SpliceCount(s, st, dc), Len(s))
Rev(s) == [i \in 1..Len(s) |-> s[Len(s) + 1 - i]]

IndexOf(s, x, from) == LET n == Len(s)
                           a == IF from = Omit THEN 0 ELSE IF from < 0 THEN Max2(n + from, 0) ELSE from
                           hits == {i \in (a + 1)..n : s[i] = x}
                       IN IF hits = {} THEN -1 ELSE (CHOOSE i \in hits : \A j \in hits : i <= j) - 1

\* string rendering and string order (join / sort)
Str(x) == IF Universe = "int" THEN ToString(x) ELSE x
RECURSIVE Join(_, _)
Join(s, sep) == IF s = <<>> THEN "" ELSE IF Len(s) = 1 THEN Str(s[1]) ELSE Str(s[1]) \o sep \o Join(Tail(s), sep)
\* lexicographic order on the renderings that occur in the pools (single characters and "10")
Rank(x) == CASE Str(x) = "1" -> 1 [] Str(x) = "10" -> 2 [] Str(x) = "2" -> 3 [] Str(x) = "3" -> 4 [] Str(x) = "7" -> 5
             [] Str(x) = "8" -> 6 [] Str(x) = "9" -> 7 [] Str(x) = "a" -> 8 [] Str(x) = "b" -> 9 [] Str(x) = "x" -> 10
             [] Str(x) = "y" -> 11 [] OTHER -> 12
Sorted(s) == SortSeq(s, LAMBDA a, b : Rank(a) < Rank(b))

\* concat / flat on trees (Universe = "nest") and on scalars
RECURSIVE Flat(_, _)
Flat(s, d) == IF s = <<>> THEN <<>>
              ELSE LET h == Head(s) IN
                   (IF h.k = "l" /\ d > 0 THEN Flat(h.v, d - 1) ELSE <<h>>) \o Flat(Tail(s), d)
RECURSIVE ConcatNest(_, _)
ConcatNest(s, items) == IF items = <<>> THEN s
                        ELSE LET h == Head(items) IN ConcatNest(IF h.k = "l" THEN s \o h.v ELSE Append(s, h), Tail(items))

\* callbacks (Universe = "int"): name -> function of element, index (0-based) and array
Pred(cb, e, i, a) == CASE cb = "even" -> e % 2 = 0 [] cb = "idxodd" -> i % 2 = 1 [] cb = "gtlen" -> e > Len(a) [] OTHER -> FALSE
MapF(cb, e, i, a) == CASE cb = "addidx" -> e + i [] cb = "timeslen" -> e * Len(a) [] OTHER -> e
Preds == {"even", "idxodd", "gtlen"}
Maps == {"addidx", "timeslen"}
FirstHit(s, cb) == LET hits == {i \in 1..Len(s) : Pred(cb, s[i], i - 1, s)} IN
                   IF hits = {} THEN 0 ELSE CHOOSE i \in hits : \A j \in hits : i <= j
RECURSIVE Fold(_, _, _)
Fold(s, acc, i) == IF i > Len(s) THEN acc ELSE Fold(s, acc * 10 + s[i], i + 1)     \* order-sensitive accumulator
\* the reduce callback also receives the index of the current element and the array:
\* acc * 100 + cur * 10 + index  makes a wrong index (or a wrong first element) visible
RECURSIVE FoldIdx(_, _, _)
FoldIdx(s, acc, i) == IF i > Len(s) THEN acc ELSE FoldIdx(s, acc * 100 + s[i] * 10 + (i - 1) + Len(s), i + 1)
RECURSIVE FlatMap2(_)
FlatMap2(s) == IF s = <<>> THEN <<>> ELSE <<Head(s), Head(s) * 2>> \o FlatMap2(Tail(s))

SelectSeq2(s, cb) == LET idx == {i \in 1..Len(s) : Pred(cb, s[i], i - 1, s)} IN
                     [k \in 1..Cardinality(idx) |-> s[CHOOSE i \in idx : Cardinality({j \in idx : j < i}) = k - 1]]

\* ------------------------------------------------------------------ actions
Call(m, args, res, r1) == /\ depth < MaxDepth /\ Len(r1) <= MaxLen
                          /\ recv' = r1 /\ depth' = depth + 1
                          /\ act' = [m |-> m, args |-> args, res |-> res]
                          /\ hist' = IF Hist THEN Append(hist, [act |-> act', recv |-> r1]) ELSE hist

Common ==
  \/ \E it \in Items : Call("push", it, Len(recv) + Len(it), recv \o it)
  \/ Call("pop", <<>>, IF recv = <<>> THEN Null ELSE recv[Len(recv)], IF recv = <<>> THEN recv ELSE Front(recv))
  \/ Call("shift", <<>>, IF recv = <<>> THEN Null ELSE Head(recv), IF recv = <<>> THEN recv ELSE Tail(recv))
  \/ \E it \in Items : Call("unshift", it, Len(recv) + Len(it), it \o recv)
  \/ \E st \in OptIdx, en \in OptIdx : (st = Omit => en = Omit) /\ Call("slice", <<st, en>>, Slice(recv, st, en), recv)
  \/ \E st \in Idx, dc \in OptIdx, it \in Items : (dc = Omit => it = <<>>)
        /\ Call("splice", <<st, dc>> \o it, SpliceDeleted(recv, st, dc), SpliceRest(recv, st, dc, it))
  \/ Call("reverse", <<>>, Rev(recv), Rev(recv))
  \/ Call("length", <<>>, Len(recv), recv)

Scalar ==
  \/ \E x \in Vals \cup {Head(it) : it \in Items \ {<<>>}}, from \in OptIdx :
        /\ Call("indexOf", <<x, from>>, IndexOf(recv, x, from), recv)
  \/ \E x \in Vals, from \in OptIdx : Call("includes", <<x, from>>, IndexOf(recv, x, from) >= 0, recv)
  \/ \E sep \in {OmitS, "-", ""} : Call("join", <<sep>>, Join(recv, IF sep = OmitS THEN "," ELSE sep), recv)
  \/ Call("sort", <<>>, Sorted(recv), Sorted(recv))
  \/ \E it \in Items : Call("concat", it, recv \o it, recv)                       \* scalar items are appended

Callbacks ==
  \/ \E cb \in Preds : LET h == FirstHit(recv, cb) IN
        \/ Call("find", <<"cb:" \o cb>>, IF h = 0 THEN Null ELSE recv[h], recv)
        \/ Call("findIndex", <<"cb:" \o cb>>, h - 1, recv)
        \/ Call("filter", <<"cb:" \o cb>>, SelectSeq2(recv, cb), recv)
        \/ Call("every", <<"cb:" \o cb>>, \A i \in 1..Len(recv) : Pred(cb, recv[i], i - 1, recv), recv)
        \/ Call("some", <<"cb:" \o cb>>, \E i \in 1..Len(recv) : Pred(cb, recv[i], i - 1, recv), recv)
  \/ \E cb \in Maps : Call("map", <<"cb:" \o cb>>, [i \in 1..Len(recv) |-> MapF(cb, recv[i], i - 1, recv)], recv)
  \/ Call("reduce", <<"cb:fold", 0>>, Fold(recv, 0, 1), recv)
  \/ recv # <<>> /\ Call("reduce", <<"cb:fold", Omit>>, Fold(recv, recv[1], 2), recv)
  \/ Len(recv) <= 3 /\ Call("reduce", <<"cb:foldidx", 0>>, FoldIdx(recv, 0, 1), recv)
  \/ recv # <<>> /\ Len(recv) <= 3 /\ Call("reduce", <<"cb:foldidx", Omit>>, FoldIdx(recv, recv[1], 2), recv)
  \/ Call("flatMap", <<"cb:pair">>, FlatMap2(recv), recv)
  \/ Call("forEach", <<"cb:collect">>, [i \in 1..Len(recv) |-> recv[i] * 10 + (i - 1)], recv)

Nested ==
  \/ \E d \in {Omit, 0, 1, 2} : Call("flat", <<d>>, Flat(recv, IF d = Omit THEN 1 ELSE d), recv)
  \/ \E it \in Items : Call("concat", it, ConcatNest(recv, it), recv)

Step == \/ Common
        \/ (Universe \in {"int", "str"} /\ Scalar)
        \/ (Universe = "int" /\ Callbacks)
        \/ (Universe = "nest" /\ Nested)

Finish == /\ Hist /\ depth = MaxDepth /\ act.m # "finish"
          /\ PrintT(<<"WALK", ToJson(hist)>>)
          /\ act' = [act EXCEPT !.m = "finish"] /\ UNCHANGED <<recv, depth, hist>>

Init == /\ recv \in SeqsUpTo(MaxLen0) /\ depth = 0 /\ act = [m |-> "init", args |-> <<>>, res |-> 0]
        /\ hist = IF Hist THEN <<[act |-> act, recv |-> recv]>> ELSE <<>>
Next == IF Hist /\ depth >= MaxDepth THEN Finish ELSE Step
Spec == Init /\ [][Next]_vars

EmitEdge == (Emit /\ ~Hist) => PrintT(<<"EDGE", ToJson([from |-> recv, act |-> act', to |-> recv'])>>)
View == <<recv, depth, hist>>

\* ------------------------------------------------------------------ properties of the oracle
Mutating == {"push", "pop", "shift", "unshift", "splice", "reverse", "sort"}
NonMutatingLeaveReceiver == [][act'.m \notin Mutating \cup {"finish"} => recv' = recv]_vars
SliceIdentity == Slice(recv, Omit, Omit) = recv
SpliceConservation == [][act'.m = "splice" => Len(act'.res) + Len(recv') = Len(recv) + (Len(act'.args) - 2)]_vars
IndexOfIncludes == [][act'.m = "includes" => (act'.res <=> IndexOf(recv, act'.args[1], act'.args[2]) >= 0)]_vars
PushPopInverse == [][act'.m = "push" /\ Len(act'.args) = 1 => recv'[Len(recv')] = act'.args[1]]_vars
=============================================================================
