---------------------------- MODULE Access ----------------------------
\* C07 -- visibility and declared types are enforced at every access path and boundary.
\*
\* Aspect "vis":   a member (property | method, public | protected | private, static or not) declared
\*                 in class D is accessed (read | write | call) through some path from some site.
\*                 Fixture: D, S extends D, G extends S, unrelated X.  Allowed(mod, site):
\*                 public everywhere; protected in D and its descendants; private in D only.
\*                 A denied access has no effect (DeniedHasNoEffect).
\* Aspect "type":  a value of some runtime kind meets a declared type at a boundary (typed property
\*                 store, parameter bind, return).  Accepts is exact: no coercion.
\* Aspect "inst":  which classes can be instantiated: not abstract classes, not interfaces, not a
\*                 concrete class that leaves an inherited abstract (or interface) method open.
\* Every scenario is an initial state; Answer prints it with the reference verdict (ok) and the
\* verdict of the deviation layer (dev) that transcribes what the pinned interpreter does.
EXTENDS Integers, Sequences, FiniteSets, TLC, Json

CONSTANTS Aspect, Emit

\* ------------------------------------------------------------------ visibility
Mods == {"public", "protected", "private"}
\* where the accessing code lives.  shared-trait: the code is a trait method used by the declaring class AND by the
\* unrelated class X; it runs first in D (allowed) and then, the same code, in X -- the verdict belongs to the
\* class that executes the code, not to the piece of code
Sites == {"decl", "sub", "grand", "sibling", "outside", "closure", "shared-trait"}
\* returned-this: the object is reached through a method that returns $this ($o->self()->member): it is the same
\* object, reached from the same site, so the same rule applies
InstPaths == {"arrow", "dynamic", "index", "this", "returned-this"}
StatPaths == {"scope", "self", "static", "parent"}
ObjClasses == {"D", "S"}              \* runtime class of the target object / class named in ::

Allowed(mod, site) == CASE mod = "public" -> TRUE
                        [] mod = "protected" -> site \in {"decl", "sub", "grand", "closure"}
                        [] mod = "private" -> site \in {"decl", "closure"}
\* deviation layer: what the pinned interpreter does, as named deviations (each is a known finding)
VisDevName(x) ==
  IF x.static THEN "static-members-unchecked"
  ELSE IF x.mod = "private" /\ x.path \in {"arrow", "this", "dynamic", "returned-this"} THEN "private-checked-as-protected"
  ELSE "none"
AllowedDev(x) ==
  CASE VisDevName(x) = "static-members-unchecked" -> TRUE
    [] VisDevName(x) = "private-checked-as-protected" -> Allowed("protected", x.site)
    [] OTHER -> Allowed(x.mod, x.site)

VisScenarios ==
  {[kind |-> k, mod |-> m, static |-> st, op |-> o, path |-> p, site |-> s, obj |-> c] :
     k \in {"prop", "method"}, m \in Mods, st \in BOOLEAN, o \in {"read", "write", "call", "unset"},
     p \in InstPaths \cup StatPaths, s \in Sites, c \in ObjClasses}
VisValid(x) ==
  /\ (x.kind = "method") = (x.op = "call")
  \* unset($o->p) is a write: it needs the same right as an assignment (instance properties through -> and $this->)
  /\ (x.op = "unset" => x.kind = "prop" /\ ~x.static /\ x.path \in {"arrow", "this"})
  /\ (x.static => x.path \in StatPaths) /\ (~x.static => x.path \in InstPaths)
  /\ (x.path = "index" => x.kind = "prop")
  \* $this / self:: / static:: / parent:: exist inside classes only; parent:: needs a parent that has the member
  /\ (x.path \in {"this", "self", "static"} => x.site \in {"decl", "sub", "grand"})
  /\ (x.path = "parent" => x.site \in {"sub", "grand"})
  \* $this is an instance of the site's class: identify it through obj (D for decl, S for sub / grand)
  /\ (x.path = "this" => x.obj = (IF x.site = "decl" THEN "D" ELSE "S"))
  /\ (x.path \in {"self", "static", "parent"} => x.obj = "D")
  \* code in D cannot hold "an S object that is $this"; closures live in D
  /\ (x.site = "closure" => x.path \in {"arrow", "scope"})
  /\ (x.path = "returned-this" => x.op # "unset")
  /\ (x.site = "shared-trait" => x.path \in {"arrow", "dynamic"} /\ ~x.static)

\* ------------------------------------------------------------------ declared types
Types == {"int", "string", "array", "D", "I", "J", "?int", "int|string", "?D", "?I"}
\* interface I extends J; Impl implements I, ImplSub extends Impl; JImpl implements J, JImplSub extends JImpl
\* objFakeD: an instance of a class with the same SHORT name as D declared in another namespace (Vendor\Plugin\D0)
Kinds == {"int", "string", "float", "bool", "null", "array", "objD", "objS", "objX", "objImpl", "objImplSub", "objJImpl", "objJImplSub", "objFakeD"}
Boundaries == {"prop", "static-prop", "param-func", "param-method", "param-static", "param-ctor", "param-closure", "return-func", "return-method", "return-closure"}
IsParam(b) == b \in {"param-func", "param-method", "param-static", "param-ctor", "param-closure"}
RECURSIVE Accepts(_, _)
Accepts(t, k) == CASE t = "int" -> k = "int" [] t = "string" -> k = "string" [] t = "array" -> k = "array"
                   [] t = "D" -> k \in {"objD", "objS"}            \* S extends D
                   [] t = "I" -> k \in {"objImpl", "objImplSub"}  \* directly or through the parent class
                   [] t = "J" -> k \in {"objImpl", "objImplSub", "objJImpl", "objJImplSub"}   \* through the parent interface too
                   [] t = "?I" -> k = "null" \/ Accepts("I", k)
                   [] t = "?int" -> k = "null" \/ Accepts("int", k)
                   [] t = "?D" -> k = "null" \/ Accepts("D", k)
                   [] t = "int|string" -> Accepts("int", k) \/ Accepts("string", k)
\* deviation layer
TypeDevName(t, k, b) ==
  IF Accepts(t, k) THEN "none"
  ELSE IF b = "static-prop" THEN "static-property-type-unchecked"
  ELSE IF b = "return-closure" THEN "closure-return-type-unchecked"
  ELSE IF IsParam(b) /\ k = "null" THEN "null-accepted-by-typed-params"
  ELSE IF b = "return-method" /\ k = "null" THEN "method-return-null-coerced"
  ELSE "none"
AcceptsDev(t, k, b) == Accepts(t, k) \/ TypeDevName(t, k, b) # "none"

\* ------------------------------------------------------------------ instantiability
\* shapes: [abstractTop, topDeclares, midAbstract, midDeclares, midImplements, leafImplements]
InstShapes == {"concrete", "abstract", "interface", "abstract-child-of-concrete",
               "missing-parent-abstract", "implements-parent-abstract",
               "missing-grand-abstract", "missing-grand-abstract-mid-declares", "implements-grand-abstract", "mid-implements-grand-abstract",
               "missing-one-of-two", "missing-interface-method", "missing-interface-method-of-grand", "missing-parent-interface-method",
               "implements-interface", "inherits-interface-method"}
\* how the class is named at the instantiation: new C(), new $name(), new (expr)(), new self(), new static()
InstVias == {"literal", "varname", "expr", "self", "static"}
InstValid(s, v) == s = "interface" => v \in {"literal", "varname", "expr"}      \* an interface has no code of its own
Instantiable(s) == s \in {"concrete", "implements-parent-abstract", "implements-grand-abstract", "mid-implements-grand-abstract",
                          "implements-interface", "inherits-interface-method"}

\* ------------------------------------------------------------------ behaviour
VARIABLES sc, done
vars == <<sc, done>>
Init == /\ done = FALSE
        /\ CASE Aspect = "vis" -> sc \in {x \in VisScenarios : VisValid(x)}
             [] Aspect = "type" -> sc \in {[type |-> t, val |-> k, at |-> b] : t \in Types, k \in Kinds, b \in Boundaries}
             [] Aspect = "inst" -> sc \in {x \in {[shape |-> s, via |-> v] : s \in InstShapes, v \in InstVias} : InstValid(x.shape, x.via)}
Verdict == CASE Aspect = "vis" -> [ok |-> Allowed(sc.mod, sc.site), dev |-> AllowedDev(sc), devname |-> VisDevName(sc)]
             [] Aspect = "type" -> [ok |-> Accepts(sc.type, sc.val), dev |-> AcceptsDev(sc.type, sc.val, sc.at), devname |-> TypeDevName(sc.type, sc.val, sc.at)]
             [] Aspect = "inst" -> [ok |-> Instantiable(sc.shape), dev |-> Instantiable(sc.shape), devname |-> "none"]
Answer == /\ ~done /\ done' = TRUE /\ UNCHANGED sc
          /\ (Emit => PrintT(<<"CASE", ToJson([aspect |-> Aspect, sc |-> sc, verdict |-> Verdict])>>))
Spec == Init /\ [][Answer]_vars

\* ------------------------------------------------------------------ properties of the reference
Monotone == \A s \in Sites : (Allowed("private", s) => Allowed("protected", s)) /\ (Allowed("protected", s) => Allowed("public", s))
NullableLaw == \A k \in Kinds : Accepts("?int", k) = (k = "null" \/ Accepts("int", k))
UnionLaw == \A k \in Kinds : Accepts("int|string", k) = (Accepts("int", k) \/ Accepts("string", k))
SubclassAccepted == Accepts("D", "objS") /\ ~Accepts("D", "objX")
\* an interface type accepts at least what its child interface accepts, and the converse fails
InterfaceLaw == /\ \A k \in Kinds : Accepts("I", k) => Accepts("J", k)
                /\ \E k \in Kinds : Accepts("J", k) /\ ~Accepts("I", k)
=============================================================================
