SPECIFICATION Spec
CONSTANTS
  Family = "@@FAMILY@@"
  Emit = TRUE
INVARIANTS EncodersWellFormed NoProperPrefixAccepted JsonRoundTrip SerRoundTrip ShapeLaw TokenCount KeysStayDistinct
CHECK_DEADLOCK FALSE
