SPECIFICATION Spec
CONSTANTS
  Family = "@@FAMILY@@"
  Emit = TRUE
INVARIANTS JsonRoundTrip SerRoundTrip ShapeLaw TokenCount
CHECK_DEADLOCK FALSE
