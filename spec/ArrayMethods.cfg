SPECIFICATION Spec
CONSTANTS
  Universe = "@@UNIVERSE@@"
  MaxLen0 = @@MAXLEN0@@
  MaxLen = @@MAXLEN@@
  MaxDepth = @@MAXDEPTH@@
  Emit = TRUE
  Hist = @@HIST@@
VIEW View
ACTION_CONSTRAINT EmitEdge
INVARIANTS SliceIdentity
PROPERTIES NonMutatingLeaveReceiver SpliceConservation IndexOfIncludes PushPopInverse
CHECK_DEADLOCK FALSE
