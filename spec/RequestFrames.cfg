SPECIFICATION Spec
CONSTANTS
  Reqs = {"r1", "r2"}
  Shared = @@SHARED@@
  Emit = @@EMIT@@
VIEW View
ACTION_CONSTRAINT EmitEdge
INVARIANTS TypeOK
PROPERTIES @@PROPS@@
CHECK_DEADLOCK FALSE
