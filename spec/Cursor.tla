---------------------------- MODULE Cursor ----------------------------
\* C18 (token spans), direction B -- the recorded token stream of the real lexer is validated against the
\* cursor discipline.
\*
\* One line of trace.ndjson is one lexer run: [name, len, toks], toks[i] = [s, e, l, ns, ne, cls, eq] where
\*   s, e    the token's byte span            l       the line the lexer recorded
\*   ns, ne  the number of newline bytes in src[0, s) and src[0, e)   (the recorder's projection of the source)
\*   cls     "faithful" for identifiers, keywords, operators, numbers and strings without escapes or
\*           interpolation, "free" otherwise  eq      whether the token text equals src[s, e)
\* The spec keeps the cursor (pos, nl): everything before pos has been covered, nl newlines lie before pos.
\* Emit(t) is enabled only if the token respects the discipline; otherwise the run is rejected with the
\* first broken rule.  Deterministic: validation is linear in the number of tokens.
EXTENDS Integers, Sequences, FiniteSets, TLC, Json

Runs == ndJsonDeserialize("trace.ndjson")

VARIABLES h, i, pos, nl, verdict
vars == <<h, i, pos, nl, verdict>>
R == Runs[h]
T == R.toks[i]

InBounds(t) == 0 <= t.s /\ t.s <= t.e /\ t.e <= R.len
Ordered(t) == t.s >= pos
\* the recorder's newline counts must themselves be consistent with a cursor moving forward
ProjectionSane(t) == t.ns >= nl /\ t.ns - nl <= t.s - pos /\ t.ne >= t.ns /\ t.ne - t.ns <= t.e - t.s
LineIsNewlinesBefore(t) == t.l = t.ns
TextIsSource(t) == t.cls = "faithful" => t.eq

Broken(t) == IF ~InBounds(t) THEN "span-out-of-bounds"
             ELSE IF ~Ordered(t) THEN "overlaps-or-goes-back"
             ELSE IF ~ProjectionSane(t) THEN "recorder-inconsistent"
             ELSE IF ~LineIsNewlinesBefore(t) THEN "wrong-line"
             ELSE IF ~TextIsSource(t) THEN "text-differs-from-source"
             ELSE "ok"

Init == /\ h \in 1..Len(Runs) /\ i = 1 /\ pos = 0 /\ nl = 0 /\ verdict = "run"
Emit == /\ verdict = "run" /\ i <= Len(R.toks) /\ Broken(T) = "ok"
        /\ pos' = T.e /\ nl' = T.ne /\ i' = i + 1 /\ UNCHANGED <<h, verdict>>
Reject == /\ verdict = "run" /\ i <= Len(R.toks) /\ Broken(T) # "ok"
          /\ verdict' = "rejected"
          /\ PrintT(<<"REJECT", ToJson([h |-> h, name |-> R.name, at |-> i, rule |-> Broken(T), tok |-> T, pos |-> pos, nl |-> nl])>>)
          /\ UNCHANGED <<h, i, pos, nl>>
Accept == /\ verdict = "run" /\ i = Len(R.toks) + 1
          /\ verdict' = "accepted" /\ PrintT(<<"ACCEPT", ToJson([h |-> h, n |-> Len(R.toks)])>>)
          /\ UNCHANGED <<h, i, pos, nl>>
Next == Emit \/ Reject \/ Accept
Spec == Init /\ [][Next]_vars

\* ---------------------------------------------------------------- invariants of the discipline itself
CursorMonotone == pos >= 0 /\ nl >= 0 /\ nl <= pos /\ pos <= R.len
AcceptedMeansAllEmitted == verdict = "accepted" => i = Len(R.toks) + 1
=============================================================================
