---------------------------- MODULE Process ----------------------------
\* C05 (last clause) -- a script that ends with an uncaught throwable, or whose source does not
\* parse, prints a diagnostic and exits with a non-zero status after flushing earlier output.
\*
\* The process as a state machine: Start -> Parse (ok | fail) -> Run: Echo* then one ending
\* (normal end, uncaught user exception, uncaught runtime error, exit(n)) -> Exited.
\* A scenario (how many tokens are echoed before the ending, which ending) is chosen in Init; the
\* terminal state is printed as a CASE line: what must be on stdout, whether a diagnostic must
\* have been printed, and the class of the exit status.
\* Mechanism note (cmd/root.go, zy.go, runtime/vm.go): uncaught controls reach the VM's handler,
\* which prints and calls os.Exit(1); a parse failure is printed by RunScriptFile, which then
\* returns nil, so main exits 0 -- named deviation "parse-error-exits-zero".
EXTENDS Integers, Sequences, TLC, Json

CONSTANTS Dev, Emit

\* throw-handler-*: the uncaught throwable meets a handler registered with set_exception_handler -- a closure,
\* a function name, null (= no handler).  Whatever the handler is, the script ENDS with an uncaught throwable:
\* something is printed for it (the handler's own output or the default diagnostic) and the status is non-zero.
Endings == {"normal", "throw-user", "throw-user-in-func", "runtime-error", "exit0", "exit3", "parse-error", "parse-error-late",
            "throw-handler-closure", "throw-handler-name", "throw-handler-null", "throw-in-finally-chain"}

VARIABLES ending, nEcho, phase, stdout, diag, status
vars == <<ending, nEcho, phase, stdout, diag, status>>

Init == /\ ending \in Endings /\ nEcho \in 0..2 /\ phase = "start" /\ stdout = <<>> /\ diag = FALSE /\ status = -1

IsParseError == ending \in {"parse-error", "parse-error-late"}

Parse == /\ phase = "start"
         /\ IF IsParseError
              THEN /\ phase' = "exited" /\ diag' = TRUE         \* nothing runs: the whole file is parsed first
                   /\ status' = IF "parse-error-exits-zero" \in Dev THEN 0 ELSE 1
              ELSE /\ phase' = "run" /\ UNCHANGED <<diag, status>>
         /\ UNCHANGED <<ending, nEcho, stdout>>
Echo == /\ phase = "run" /\ Len(stdout) < nEcho
        /\ stdout' = Append(stdout, "t" \o ToString(Len(stdout) + 1)) /\ UNCHANGED <<ending, nEcho, phase, diag, status>>
End == /\ phase = "run" /\ Len(stdout) = nEcho /\ phase' = "exited"
       /\ CASE ending = "normal" -> diag' = FALSE /\ status' = 0
            [] ending \in {"throw-user", "throw-user-in-func", "runtime-error",
                            "throw-handler-closure", "throw-handler-name", "throw-handler-null", "throw-in-finally-chain"} -> diag' = TRUE /\ status' = 1
            [] ending = "exit0" -> diag' = FALSE /\ status' = 0
            [] ending = "exit3" -> diag' = FALSE /\ status' = 3
       /\ UNCHANGED <<ending, nEcho, stdout>>
Report == /\ phase = "exited" /\ phase' = "reported"
          /\ (Emit => PrintT(<<"CASE", ToJson([ending |-> ending, necho |-> nEcho, stdout |-> stdout, diag |-> diag, status |-> status])>>))
          /\ UNCHANGED <<ending, nEcho, stdout, diag, status>>
Next == Parse \/ Echo \/ End \/ Report
Spec == Init /\ [][Next]_vars

Failed == IsParseError \/ ending \in {"throw-user", "throw-user-in-func", "runtime-error",
                                       "throw-handler-closure", "throw-handler-name", "throw-handler-null", "throw-in-finally-chain"}
\* failures exit non-zero with a diagnostic; everything echoed before the failure is on stdout
NonZeroOnFailure == phase \in {"exited", "reported"} => ((Failed => (status # 0 /\ diag)) /\ (~Failed => ~diag))
FlushBeforeExit  == phase \in {"exited", "reported"} /\ ~IsParseError => Len(stdout) = nEcho
=============================================================================
