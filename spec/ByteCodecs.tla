---------------------------- MODULE ByteCodecs ----------------------------
\* C14 (byte codecs) -- bin2hex, base64, urlencode, rawurlencode as exact transducers over byte sequences.
\*
\* A byte is 0..255, a text is a sequence of character codes.  Hex and Base64 have one canonical output.
\* The two URL encoders are per-byte: Unreserved bytes stay, everything else must be escaped as %XX
\* (upper-case hex); urlencode writes a space as "+", rawurlencode as %20.  "~" is the one byte where the
\* reference implementations differ (PHP's urlencode escapes it, RFC 3986 / Go leave it), so both
\* spellings are acceptable for it: UrlAlts(b, raw) is the SET of acceptable encodings of one byte.
\* TLC checks on every input of the family that each decoder inverts each encoder (all alternatives)
\* and prints the expected encodings; the replay engine compares them with what the interpreter's
\* functions return and feeds the encodings to the interpreter's decoders.
EXTENDS Integers, Sequences, FiniteSets, TLC, Json

CONSTANTS Family,   \* "singles" | "pairs" | "pairs-all" | "triples"
          Emit

Bytes == 0..255
\* bytes that matter for the codecs: controls, space, the URL-reserved characters, digits / letters at the
\* alphabet edges, the base64 alphabet edges, DEL, high bytes
Interesting == {0, 1, 9, 10, 13, 31, 32, 33, 34, 35, 36, 37, 38, 39, 40, 41, 42, 43, 44, 45, 46, 47, 48, 57, 58, 59, 60, 61, 62,
                63, 64, 65, 90, 91, 92, 93, 95, 96, 97, 122, 123, 124, 125, 126, 127, 128, 191, 192, 223, 224, 239, 240, 251, 252, 254, 255}
Small == {0, 32, 43, 47, 61, 65, 126, 128, 251, 255, 37, 38}
Inputs == CASE Family = "singles" -> {<<b>> : b \in Bytes} \cup {<<>>}
            [] Family = "pairs" -> {<<a, b>> : a \in Interesting, b \in Interesting}
            [] Family = "pairs-all" -> {<<a, b>> : a \in Bytes, b \in Bytes}
            [] Family = "triples" -> {<<a, b, c>> : a \in Small, b \in Small, c \in Small}
                                     \cup {<<a, b, c, d>> : a \in {0, 255}, b \in {65, 251}, c \in {0, 255}, d \in {43, 254}}

\* ---------------------------------------------------------------- hex
HexDigit(n) == IF n < 10 THEN 48 + n ELSE 87 + n            \* 0-9 a-f
HexDigitU(n) == IF n < 10 THEN 48 + n ELSE 55 + n           \* 0-9 A-F
HexVal(c) == IF c >= 48 /\ c <= 57 THEN c - 48 ELSE IF c >= 97 /\ c <= 102 THEN c - 87 ELSE IF c >= 65 /\ c <= 70 THEN c - 55 ELSE 99
RECURSIVE HexEnc(_)
HexEnc(bs) == IF bs = <<>> THEN <<>> ELSE <<HexDigit(Head(bs) \div 16), HexDigit(Head(bs) % 16)>> \o HexEnc(Tail(bs))
RECURSIVE HexDec(_)
HexDec(t) == IF t = <<>> THEN <<>> ELSE <<HexVal(t[1]) * 16 + HexVal(t[2])>> \o HexDec(SubSeq(t, 3, Len(t)))

\* ---------------------------------------------------------------- base64 (standard alphabet, = padding)
B64Char(i) == IF i < 26 THEN 65 + i ELSE IF i < 52 THEN 97 + (i - 26) ELSE IF i < 62 THEN 48 + (i - 52) ELSE IF i = 62 THEN 43 ELSE 47
B64Val(c) == IF c >= 65 /\ c <= 90 THEN c - 65 ELSE IF c >= 97 /\ c <= 122 THEN c - 97 + 26 ELSE IF c >= 48 /\ c <= 57 THEN c - 48 + 52
             ELSE IF c = 43 THEN 62 ELSE IF c = 47 THEN 63 ELSE 99
RECURSIVE B64Enc(_)
B64Enc(bs) ==
  IF bs = <<>> THEN <<>>
  ELSE IF Len(bs) = 1 THEN <<B64Char(bs[1] \div 4), B64Char((bs[1] % 4) * 16), 61, 61>>
  ELSE IF Len(bs) = 2 THEN <<B64Char(bs[1] \div 4), B64Char((bs[1] % 4) * 16 + bs[2] \div 16), B64Char((bs[2] % 16) * 4), 61>>
  ELSE <<B64Char(bs[1] \div 4), B64Char((bs[1] % 4) * 16 + bs[2] \div 16), B64Char((bs[2] % 16) * 4 + bs[3] \div 64), B64Char(bs[3] % 64)>>
       \o B64Enc(SubSeq(bs, 4, Len(bs)))
RECURSIVE B64Dec(_)
B64Dec(t) ==
  IF t = <<>> THEN <<>>
  ELSE LET a == B64Val(t[1]) b == B64Val(t[2]) IN
       IF t[3] = 61 THEN <<a * 4 + b \div 16>>
       ELSE LET c == B64Val(t[3]) IN
            IF t[4] = 61 THEN <<a * 4 + b \div 16, (b % 16) * 16 + c \div 4>>
            ELSE <<a * 4 + b \div 16, (b % 16) * 16 + c \div 4, (c % 4) * 64 + B64Val(t[4])>> \o B64Dec(SubSeq(t, 5, Len(t)))

\* ---------------------------------------------------------------- URL encoders
IsAlnum(b) == (b >= 48 /\ b <= 57) \/ (b >= 65 /\ b <= 90) \/ (b >= 97 /\ b <= 122)
Unreserved(b) == IsAlnum(b) \/ b \in {45, 95, 46}               \* - _ .
Pct(b) == <<37, HexDigitU(b \div 16), HexDigitU(b % 16)>>
UrlAlts(b, raw) == IF Unreserved(b) THEN {<<b>>}
                   ELSE IF b = 126 THEN {<<126>>, Pct(126)}
                   ELSE IF b = 32 /\ ~raw THEN {<<43>>}
                   ELSE {Pct(b)}
\* canonical choice: escape "~" for urlencode (PHP), keep it for rawurlencode (RFC 3986)
UrlCanon(b, raw) == IF b = 126 THEN (IF raw THEN <<126>> ELSE Pct(126)) ELSE CHOOSE e \in UrlAlts(b, raw) : TRUE
RECURSIVE UrlEnc(_, _)
UrlEnc(bs, raw) == IF bs = <<>> THEN <<>> ELSE UrlCanon(Head(bs), raw) \o UrlEnc(Tail(bs), raw)
RECURSIVE UrlDec(_, _)
UrlDec(t, raw) == IF t = <<>> THEN <<>>
                  ELSE IF t[1] = 37 THEN <<HexVal(t[2]) * 16 + HexVal(t[3])>> \o UrlDec(SubSeq(t, 4, Len(t)), raw)
                  ELSE IF t[1] = 43 /\ ~raw THEN <<32>> \o UrlDec(Tail(t), raw)
                  ELSE <<t[1]>> \o UrlDec(Tail(t), raw)
\* every acceptable encoding of a sequence (used for the round-trip law; inputs are short)
RECURSIVE UrlAllEncs(_, _)
UrlAllEncs(bs, raw) == IF bs = <<>> THEN {<<>>} ELSE {h \o r : h \in UrlAlts(Head(bs), raw), r \in UrlAllEncs(Tail(bs), raw)}

VARIABLES bs, done
vars == <<bs, done>>
Init == bs \in Inputs /\ done = FALSE
Answer == /\ ~done /\ done' = TRUE /\ UNCHANGED bs
          /\ (Emit => PrintT(<<"CASE", ToJson([family |-> Family, input |-> bs, hex |-> HexEnc(bs), b64 |-> B64Enc(bs),
                                              url |-> UrlEnc(bs, FALSE), rawurl |-> UrlEnc(bs, TRUE),
                                              tilde |-> Cardinality({i \in 1..Len(bs) : bs[i] = 126})])>>))
Spec == Init /\ [][Answer]_vars

\* ---------------------------------------------------------------- laws of the reference codecs
HexRoundTrip == HexDec(HexEnc(bs)) = bs /\ Len(HexEnc(bs)) = 2 * Len(bs)
B64RoundTrip == B64Dec(B64Enc(bs)) = bs /\ Len(B64Enc(bs)) = 4 * ((Len(bs) + 2) \div 3)
UrlRoundTrip == \A raw \in BOOLEAN : \A e \in UrlAllEncs(bs, raw) : UrlDec(e, raw) = bs
\* an encoding contains nothing but unreserved characters, "~", "%" escapes and (urlencode only) "+"
UrlOutputIsSafe == \A raw \in BOOLEAN : \A i \in 1..Len(UrlEnc(bs, raw)) :
                     LET c == UrlEnc(bs, raw)[i] IN Unreserved(c) \/ c \in {37, 126} \/ (c = 43 /\ ~raw)
=============================================================================
