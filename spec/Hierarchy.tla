---------------------------- MODULE Hierarchy ----------------------------
\* C08 -- instanceof, type hints, catch and dispatch follow the declared class hierarchy.
\*
\* A hierarchy is chosen in Init (every hierarchy within the bound is an initial state); the
\* single action Answer computes the truth tables a script can observe and prints them as a CASE
\* line for the replay engine.  Three aspects keep the spaces independent and small:
\*   "sub"       extends x interface-extends x implements   -> instanceof / typed parameter / catch
\*   "dispatch"  extends x set of classes defining the methods -> most-derived / parent:: / self:: / static::
\*   "like"      extends x per-class method provisions x interface declaration -> $o like I
\*
\* Reference relation: Sub(c, T) = T is c's class, an ancestor, or an interface reachable through
\* implements / interface-extends edges from c or an ancestor.
\* Mechanism layer (data/type_class.go): ImplSub transcribes isClassValueInstanceOf / extendISClass /
\* interfaceExtends (walk up the extends chain; at each class test the implemented interfaces and
\* search their parents breadth-first).  TLC checks ImplSub = Sub on every hierarchy.
EXTENDS Integers, Sequences, FiniteSets, SequencesExt, TLC, Json

CONSTANTS NC, NI, Aspect, Emit

Cls == 1..NC
Ifc == 1..NI

VARIABLES ext,    \* ext[c] \in 0..c-1 : parent class (0 = none)
          iext,   \* set of <<i, j>>, j < i : interface i extends interface j
          impl,   \* set of <<c, i>> : class c implements interface i
          defs,   \* dispatch: set of classes defining who/viaSelf/viaStatic/viaParent
          prov,   \* like: prov[c][m] \in {-1, 0, 1} : arity of method m defined by class c (-1 = not defined)
          decl,   \* like: decl[m] \in {-1, 0, 1}   : arity of method m declared by interface I (-1 = not declared)
          done
vars == <<ext, iext, impl, defs, prov, decl, done>>

Meths == 1..2
ExtChoices == {f \in [Cls -> 0..NC] : \A c \in Cls : f[c] < c}
IextAll == {<<i, j>> \in Ifc \X Ifc : j < i}

\* ---------------------------------------------------------------- reference relation
RECURSIVE Chain(_)
Chain(c) == IF c = 0 THEN {} ELSE {c} \cup Chain(ext[c])           \* c and its ancestors
RECURSIVE Reach(_)
Reach(i) == {i} \cup UNION {Reach(e[2]) : e \in {x \in iext : x[1] = i}}   \* i and the interfaces it extends, transitively
SubC(c, d) == d \in Chain(c)
SubI(c, i) == \E a \in Chain(c) : \E k \in Ifc : <<a, k>> \in impl /\ i \in Reach(k)

\* ---------------------------------------------------------------- mechanism (data/type_class.go)
\* interfaceExtends(s, t): s = t, or breadth-first search over the parents of s
RECURSIVE Bfs(_, _, _)
Bfs(queue, visited, t) ==
  IF queue = <<>> THEN FALSE
  ELSE LET nme == Head(queue) IN
       IF nme = t THEN TRUE
       ELSE IF nme \in visited THEN Bfs(Tail(queue), visited, t)
       ELSE Bfs(Tail(queue) \o SetToSeq({e[2] : e \in {x \in iext : x[1] = nme}}), visited \cup {nme}, t)
InterfaceExtends(s, t) == s = t \/ Bfs(SetToSeq({e[2] : e \in {x \in iext : x[1] = s}}), {}, t)
ImplementsHit(c, t) == \E k \in Ifc : <<c, k>> \in impl /\ InterfaceExtends(k, t)
RECURSIVE ExtendIS(_, _, _)
ExtendIS(c, t, isIface) ==          \* extendISClass: walk up from the parent
  IF c = 0 THEN FALSE
  ELSE (~isIface /\ c = t) \/ (isIface /\ ImplementsHit(c, t)) \/ ExtendIS(ext[c], t, isIface)
ImplSubC(c, d) == c = d \/ ExtendIS(ext[c], d, FALSE)
ImplSubI(c, i) == ImplementsHit(c, i) \/ ExtendIS(ext[c], i, TRUE)

\* ---------------------------------------------------------------- dispatch
RECURSIVE Nearest(_)
Nearest(c) == IF c = 0 THEN 0 ELSE IF c \in defs THEN c ELSE Nearest(ext[c])   \* nearest definer from c upwards

\* viaParent() is defined by the definers that have a defining ancestor; parent:: starts at the
\* parent of the class that DEFINES the running method
HasParentDef(c) == c \in defs /\ ext[c] # 0 /\ Nearest(ext[c]) # 0
RECURSIVE NearestP(_)
NearestP(c) == IF c = 0 THEN 0 ELSE IF HasParentDef(c) THEN c ELSE NearestP(ext[c])
ViaParent(c) == IF NearestP(c) = 0 THEN 0 ELSE Nearest(ext[NearestP(c)])
\* chain(): every definer returns its own name followed by parent::chain() when an ancestor defines
\* it, so the call on an object of class c visits exactly the definers on c's extends chain, most
\* derived first, each once
RECURSIVE ChainDefs(_)
ChainDefs(c) == IF c = 0 THEN <<>> ELSE IF c \in defs THEN <<c>> \o ChainDefs(ext[c]) ELSE ChainDefs(ext[c])

\* late static binding: in a method found at definer Nearest(c) and entered through an object of class c or
\* through the static call c::m(), self:: (self::class, new self) names the definer and static:: (static::m(),
\* static::class, new static) names c
SelfOf(c) == Nearest(c)
StaticOf(c) == c

\* ---------------------------------------------------------------- like
RECURSIVE Provided(_, _)
Provided(c, m) == IF c = 0 THEN -1 ELSE IF prov[c][m] # -1 THEN prov[c][m] ELSE Provided(ext[c], m)
Like(c) == \A m \in Meths : decl[m] # -1 => Provided(c, m) = decl[m]
\* named deviation "like-own-methods-only": the pinned check looks at the object's own class only
LikeOwn(c) == \A m \in Meths : decl[m] # -1 => prov[c][m] = decl[m]

\* ---------------------------------------------------------------- behaviour
NoProv == [c \in Cls |-> [m \in Meths |-> -1]]
NoDecl == [m \in Meths |-> -1]

Init ==
  /\ ext \in ExtChoices /\ done = FALSE
  /\ CASE Aspect = "sub"      -> /\ iext \in SUBSET IextAll /\ impl \in SUBSET (Cls \X Ifc)
                                 /\ defs = {} /\ prov = NoProv /\ decl = NoDecl
       [] Aspect = "dispatch" -> /\ iext = {} /\ impl = {} /\ defs \in SUBSET Cls /\ prov = NoProv /\ decl = NoDecl
       [] Aspect = "like"     -> /\ iext = {} /\ defs = {}
                                 /\ prov \in [Cls -> [Meths -> {-1, 0, 1}]]
                                 /\ decl \in {d \in [Meths -> {-1, 0, 1}] : d[1] # -1}
                                 \* a class may also NAME the interface (implements I) when it provides every declared
                                 \* method with some parameter count; `like` is structural and must not take the name for it
                                 /\ impl \in SUBSET {<<c, 1>> : c \in {x \in Cls : \A m \in Meths : decl[m] # -1 => Provided(x, m) # -1}}

Bit(b) == IF b THEN 1 ELSE 0
Tables ==
  [aspect |-> Aspect, ext |-> ext, iext |-> SetToSeq(iext), impl |-> SetToSeq(impl),
   defs |-> [c \in Cls |-> Bit(c \in defs)], prov |-> prov, decl |-> decl,
   subc |-> [c \in Cls |-> [d \in Cls |-> Bit(SubC(c, d))]],
   subi |-> [c \in Cls |-> [i \in Ifc |-> Bit(SubI(c, i))]],
   nearest |-> [c \in Cls |-> Nearest(c)], selfOf |-> [c \in Cls |-> SelfOf(c)], staticOf |-> [c \in Cls |-> StaticOf(c)],
   hasParentDef |-> [c \in Cls |-> Bit(HasParentDef(c))],
   viaParent |-> [c \in Cls |-> ViaParent(c)],
   chainDefs |-> [c \in Cls |-> ChainDefs(c)],
   like |-> [c \in Cls |-> Bit(Like(c))], likeOwn |-> [c \in Cls |-> Bit(LikeOwn(c))]]

Answer == /\ ~done /\ done' = TRUE
          /\ (Emit => PrintT(<<"CASE", ToJson(Tables)>>))
          /\ UNCHANGED <<ext, iext, impl, defs, prov, decl>>
Next == Answer
Spec == Init /\ [][Next]_vars

\* ---------------------------------------------------------------- properties
SubReflexive  == \A c \in Cls : SubC(c, c)
SubTransitive == \A a, b, c \in Cls : (SubC(a, b) /\ SubC(b, c)) => SubC(a, c)
IfaceInherited == \A a, b \in Cls : \A i \in Ifc : (SubC(a, b) /\ SubI(b, i)) => SubI(a, i)   \* a subclass keeps its ancestors' interfaces
IfaceUpward    == \A c \in Cls : \A e \in iext : SubI(c, e[1]) => SubI(c, e[2])                \* reaching i reaches what i extends
MechanismAgrees == \A c \in Cls : /\ \A d \in Cls : ImplSubC(c, d) = SubC(c, d)
                                  /\ \A i \in Ifc : ImplSubI(c, i) = SubI(c, i)
StaticBindsBelowSelf == \A c \in Cls : SelfOf(c) # 0 => SubC(StaticOf(c), SelfOf(c))      \* the called class is the definer or below it
DispatchDefined == \A c \in Cls : (Nearest(c) # 0) <=> (Chain(c) \cap defs # {})
DispatchMostDerived == \A c \in Cls : Nearest(c) # 0 => \A d \in Chain(c) \cap defs : SubC(Nearest(c), d)
ParentIsProperAncestor == \A c \in Cls : ViaParent(c) # 0 => (ViaParent(c) \in Chain(c) /\ ViaParent(c) # NearestP(c))
ChainVisitsEachDefinerOnce == \A c \in Cls : /\ {ChainDefs(c)[k] : k \in 1..Len(ChainDefs(c))} = Chain(c) \cap defs
                                             /\ Len(ChainDefs(c)) = Cardinality(Chain(c) \cap defs)
\* a class that defines none of the methods is like I exactly when its parent is
\* naming the interface changes nothing: the verdict is a function of the provided methods only
LikeIgnoresNominal == \A c \in Cls : Like(c) = (\A m \in Meths : decl[m] # -1 => Provided(c, m) = decl[m])
LikeMonotone == \A c \in Cls : (ext[c] # 0 /\ \A m \in Meths : prov[c][m] = -1) => (Like(c) = Like(ext[c]))
=============================================================================
