#!/bin/bash
# Entry point used by MANIFEST.json.
#   ./check.sh setup
#   ./check.sh <ID> quick|thorough
#   ./check.sh <ID> --replay <path>
# Exit 0: property held on everything explored; 1: VIOLATION line printed; 2: infrastructure problem.
set -u
VERIF="$(cd "$(dirname "$0")" && pwd)"
cd "$VERIF"
export GOFLAGS=-mod=mod GOPROXY=off
unset GOSUMDB GOTOOLCHAIN 2>/dev/null || true
BIN="$VERIF/bin"
mkdir -p "$BIN" "$VERIF/evidence" "$VERIF/replays"

build() { # $1 = output name, rest = extra go build flags
  local out="$1"; shift
  cp /repo/go.sum "$VERIF/harness/go.sum" 2>/dev/null
  (cd "$VERIF/harness" && timeout -s KILL 1200 go build -tags verif "$@" -o "$BIN/$out" ./cmd/vcheck) || { echo "INFRA: go build failed" >&2; return 2; }
}

case "${1:-}" in
  setup)
    build vcheck || exit 2
    build vcheck-race -race || exit 2
    (cd /repo && timeout -s KILL 1200 go build -o "$BIN/origami" .) || exit 2
    java -version >/dev/null 2>&1 || { echo "INFRA: java missing" >&2; exit 2; }
    echo "setup ok"
    exit 0 ;;
  "")
    echo "usage: $0 setup | <ID> quick|thorough | <ID> --replay <path>" >&2; exit 2 ;;
esac

ID="$1"; shift
TIER="${VERIF_TIER:-quick}"; REPLAY=""
while [ $# -gt 0 ]; do
  case "$1" in
    quick|thorough) TIER="$1" ;;
    --replay) shift; REPLAY="$1" ;;
  esac
  shift
done
build vcheck || exit 2
case "$ID" in
  C09|C10|C11) build vcheck-race -race || exit 2 ;;
esac
case "$ID" in
  C05|C16|C18|C20) (cd /repo && timeout -s KILL 1200 go build -o "$BIN/origami" .) || { echo "INFRA: origami build failed" >&2; exit 2; } ;;
esac
ARGS=(-prop "$ID" -tier "$TIER" -verif "$VERIF")
[ -n "$REPLAY" ] && ARGS+=(-replay "$REPLAY")
LIMIT=1500; [ "$TIER" = thorough ] && LIMIT=5400
timeout -s KILL $LIMIT "$BIN/vcheck" "${ARGS[@]}"
rc=$?
if [ $rc -eq 137 ]; then echo "INFRA: check timed out after ${LIMIT}s" >&2; exit 2; fi
exit $rc
